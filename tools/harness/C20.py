"""C20 -- any input produces diagnostics, never an internal failure  (partial by nature).

T  tools/extractors/t20.py regenerates coq/gen/Bounds.v (MAX_ITERATIONS, CORE_WARMUP, MAX_ITER,
   DEFAULT_LAST_PASS, fine-grained last_pass) from the source text and checks, on the AST, that every
   `defer_node` call site of checker.py sits under `if self.pass_num < self.last_pass`.
P  coq/C20: termination of the three fix-point drivers for ANY oracle obeying a stated contract,
   totality (every list access guarded) of the message pipeline.
C  the REAL drivers (semanal_main.process_top_levels / process_top_level_function,
   TypeChecker.check_second_pass loop of build.py, update.propagate_changes_using_dependencies,
   Errors.sort_messages / remove_duplicates / render_messages) run with monkey-patched adversarial
   oracles; call traces compared with the Coq model (vm_compute).
S  structure-aware mutation of the repository corpus (+ generated programs); mypy run in worker
   processes (api.run), a subprocess sample (true exit codes) and a daemon sample (dmypy check /
   recheck, daemon must keep answering).  Oracle: exit status in {0,1,2}, no INTERNAL ERROR, no
   traceback, no timeout, well-formed message lines.  This part is SEARCH, not proof.

This file is also the worker:  python C20.py --worker <workdir>   (reads JSON jobs on stdin).
"""
from __future__ import annotations

import ast
import glob
import hashlib
import io
import json
import keyword
import os
import queue
import random
import re
import select
import shlex
import shutil
import signal
import subprocess
import sys
import tempfile
import threading
import time
import tokenize
from typing import Any, Callable

sys.path.insert(0, os.path.dirname(os.path.dirname(os.path.abspath(__file__))))

PER_FILE_TIMEOUT = 60.0

# =====================================================================================
# worker mode (no dependency on vlib; imports mypy once, then serves jobs)
# =====================================================================================


def _safe_rel(p: str) -> str | None:
    p = p.replace("\\", "/")
    if p.startswith("/") or ".." in p.split("/") or not p or len(p) > 200:
        return None
    if p.startswith("tmp/"):
        p = p[4:]
    return p


def write_job_files(jobdir: str, files: dict[str, str]) -> None:
    shutil.rmtree(jobdir, ignore_errors=True)
    os.makedirs(jobdir)
    for rel, src in files.items():
        path = os.path.join(jobdir, rel)
        os.makedirs(os.path.dirname(path), exist_ok=True)
        with open(path, "w", encoding="utf-8", errors="surrogateescape", newline="") as f:
            f.write(src)


def module_names(files: dict[str, str]) -> set[str]:
    out = set()
    for rel in files:
        base = rel.rsplit(".", 1)[0]
        parts = base.split("/")
        if parts[-1] == "__init__":
            parts = parts[:-1]
        for i in range(len(parts)):
            out.add(".".join(parts[i:]))
            out.add(".".join(parts[: i + 1]))
    return out


def purge_user_cache(cache_dir: str, mods: set[str]) -> None:
    """Remove cache entries of the job's own modules so that a worker's result for job k does not
    depend on which jobs it served before (only typeshed modules stay cached)."""
    for root, _dirs, fs in os.walk(cache_dir):
        rel = os.path.relpath(root, cache_dir).split(os.sep)
        if len(rel) < 1 or rel[0] in (".",):
            continue
        pkg = ".".join(rel[1:])
        for f in fs:
            stem = f.split(".")[0]
            full = (pkg + "." + stem) if pkg else stem
            if stem == "__init__":
                full = pkg
            if full in mods or full.split(".")[0] in mods:
                try:
                    os.remove(os.path.join(root, f))
                except OSError:
                    pass


def worker_main(workdir: str) -> None:
    import faulthandler
    import traceback
    # protocol channel = a private duplicate of fd 1; everything mypy prints to the process-level
    # stdout/stderr (report_internal_error writes there) is captured per job instead.
    chan = os.fdopen(os.dup(1), "w", buffering=1)
    sink = open(os.path.join(workdir, "fd1.txt"), "w")
    os.dup2(sink.fileno(), 1)
    from mypy import api  # noqa: imports mypy once

    jobdir = os.path.join(workdir, "job")
    sf = open(os.path.join(workdir, "stack.txt"), "w")
    faulthandler.register(signal.SIGUSR1, file=sf, all_threads=True)     # parent asks for the stack of a hung job
    sys.setrecursionlimit(max(sys.getrecursionlimit(), 2 ** 14))
    for line in sys.stdin:
        job = json.loads(line)
        files = job["files"]
        write_job_files(jobdir, files)
        cache = os.path.join(workdir, "cache", job.get("flagkey", "x"))
        args = list(job["args"]) + ["--show-traceback", "--no-error-summary", "--no-color-output"]
        if job.get("cache", True):
            args += ["--no-sqlite-cache", "--cache-dir", cache]
        else:
            args += ["--no-incremental", "--cache-dir", os.devnull]
        args += job["targets"]
        os.chdir(jobdir)
        res: dict[str, Any] = {"id": job["id"]}
        t = time.time()
        c0 = time.process_time()
        cap_out, cap_err = io.StringIO(), io.StringIO()
        old = sys.stdout, sys.stderr
        sys.stdout, sys.stderr = cap_out, cap_err
        try:
            so, se, st = api.run(args)
            o_all = so + cap_out.getvalue()
            res.update(status=st, out=o_all if len(o_all) <= 20000 else o_all[:8000] + "\n" + o_all[-12000:], err=(se + cap_err.getvalue())[-8000:])
        except BaseException as e:  # noqa: everything, incl. SystemExit with a non-int code, RecursionError
            res.update(status=-1, out=cap_out.getvalue()[-8000:], err=cap_err.getvalue()[-8000:], exc=type(e).__name__,
                       tb=traceback.format_exc()[-12000:])
        finally:
            sys.stdout, sys.stderr = old
        res["secs"] = round(time.time() - t, 3)
        res["cpu"] = round(time.process_time() - c0, 3)
        os.chdir(workdir)
        if job.get("cache", True):
            purge_user_cache(cache, module_names(files))
        chan.write(json.dumps(res) + "\n")
        chan.flush()


# =====================================================================================
# tie mode: run the REAL driver functions with scripted adversarial oracles
#   python C20.py --tie   (JSON cases on stdin, JSON results on stdout)
# =====================================================================================

class _Abort(Exception):
    pass


def tie_semanal_top(case: dict[str, Any]) -> dict[str, Any]:
    """Real semanal_main.process_top_levels on fake State objects; semantic_analyze_target scripted."""
    import contextlib
    import mypy.semanal_main as sm
    script = case["script"]          # list of [defer_if_not_final, defer_if_final, progress]
    names: list[str] = case["scc"]
    calls: list[list[Any]] = []
    hang: list[int] = []

    class An:
        def __init__(self) -> None:
            self.deferral_debug_context: list[Any] = []
            self.saved_locals: dict[Any, Any] = {}
            self.incomplete_namespaces: set[str] = set()
        def prepare_file(self, tree: Any) -> None: pass
        def file_context(self, tree: Any, options: Any) -> Any: return contextlib.nullcontext()
        def report_hang(self) -> None: hang.append(1)

    class Mgr:
        def __init__(self) -> None:
            self.semantic_analyzer = An()
            self.incomplete_namespaces: set[str] = set()
    mgr = Mgr()

    class St:
        def __init__(self, id: str) -> None:
            self.id = id; self.tree = object(); self.manager = mgr; self.options = None
    graph = {n: St(n) for n in names}

    def oracle(target: str, module: str, state: Any, node: Any, active_type: Any, final_iteration: bool, patches: Any) -> Any:
        k = len(calls)
        if k > 5000:
            raise _Abort()
        calls.append([target, bool(final_iteration)])
        dn, df, pr = script[k] if k < len(script) else (False, False, False)
        d = df if final_iteration else dn
        return ([target] if d else []), True, bool(pr)
    old = sm.semantic_analyze_target
    sm.semantic_analyze_target = oracle  # type: ignore[assignment]
    try:
        try:
            sm.process_top_levels(graph, list(names), [])  # type: ignore[arg-type]
            out = "ReportedHang" if hang else "Done"
        except AssertionError:
            out = "AssertFail"
        except _Abort:
            out = "Unbounded"
    finally:
        sm.semantic_analyze_target = old
    return {"outcome": out, "calls": calls}


def tie_semanal_fn(case: dict[str, Any]) -> dict[str, Any]:
    import contextlib
    import mypy.semanal_main as sm
    script = case["script"]
    calls: list[list[Any]] = []
    hang: list[int] = []

    class An:
        def __init__(self) -> None:
            self.deferral_debug_context: list[Any] = []
            self.saved_locals: dict[Any, Any] = {}
            self.incomplete_namespaces: set[str] = set()
        def file_context(self, tree: Any, options: Any) -> Any: return contextlib.nullcontext()
        def report_hang(self) -> None: hang.append(1)

    class Mgr:
        incomplete_namespaces: set[str] = set()

    class St:
        tree = object(); manager = Mgr(); options = None

    def oracle(target: str, module: str, state: Any, node: Any, active_type: Any, final_iteration: bool, patches: Any) -> Any:
        k = len(calls)
        if k > 5000:
            raise _Abort()
        calls.append([target, bool(final_iteration)])
        dn, df, pr = script[k] if k < len(script) else (False, False, False)
        d = df if final_iteration else dn
        return ([target] if d else []), True, bool(pr)
    old = sm.semantic_analyze_target
    sm.semantic_analyze_target = oracle  # type: ignore[assignment]
    try:
        try:
            sm.process_top_level_function(An(), St(), "mod", "tgt", object(), None, [])  # type: ignore[arg-type]
            out = "ReportedHang" if hang else "Done"
        except AssertionError:
            out = "AssertFail"
        except _Abort:
            out = "Unbounded"
    finally:
        sm.semantic_analyze_target = old
    return {"outcome": out, "calls": calls}


def tie_checker(case: dict[str, Any], cache_dir: str) -> dict[str, Any]:
    """A real build (build.build -> process_stale_scc -> check_first_pass / `while ... type_check_second_pass()`)
    of a program made of functions with two `pass` statements each.  The oracle sits in visit_pass_stmt
    and asks for deferral through the REAL TypeChecker.handle_cannot_determine_type (which contains the
    `pass_num < last_pass` guard); script[k] = number of deferral requests (0..2) of the k-th function check."""
    from mypy import build as B
    from mypy.checker import TypeChecker
    from mypy.modulefinder import BuildSource
    from mypy.options import Options
    script: list[int] = case["script"]
    nf: int = case["nfuncs"]
    src = "".join(f"def f{i}() -> None:\n    pass\n    pass\n" for i in range(nf))
    calls: list[list[int]] = []
    state = {"k": -1, "seen": 0, "second": 0}

    def visit_pass_stmt(self: Any, s: Any) -> None:
        fn = self.scope.top_level_function()
        if fn is None or self.tree.fullname != "main":
            return
        if state["seen"] == 0:
            state["k"] += 1
            if state["k"] > 3000:
                raise _Abort()
            calls.append([int(self.pass_num), int(fn.name[1:])])
        want = script[state["k"]] if state["k"] < len(script) else 0
        if want > state["seen"]:
            self.handle_cannot_determine_type("x", s)
        state["seen"] = (state["seen"] + 1) % 2
    old_second = TypeChecker.check_second_pass

    def counted_second(self: Any, *a: Any, **k: Any) -> bool:
        if self.tree.fullname == "main":
            state["second"] += 1
        return old_second(self, *a, **k)
    o = Options()
    o.incremental = True
    o.cache_dir = cache_dir
    o.sqlite_cache = False
    o.show_traceback = True
    o.raise_exceptions = True
    old = getattr(TypeChecker, "visit_pass_stmt")
    TypeChecker.visit_pass_stmt = visit_pass_stmt  # type: ignore[method-assign]
    TypeChecker.check_second_pass = counted_second  # type: ignore[method-assign]
    try:
        try:
            res = B.build([BuildSource("main.py", "main", src)], o)
            out = "Done"
            msgs = [m for m in res.errors]
        except _Abort:
            out, msgs = "Unbounded", []
    finally:
        TypeChecker.visit_pass_stmt = old  # type: ignore[method-assign]
        TypeChecker.check_second_pass = old_second  # type: ignore[method-assign]
    return {"outcome": out, "calls": calls, "second_pass_calls": state["second"],
            "cannot_determine": sum(1 for m in msgs if "Cannot determine type" in m)}


def tie_propagate(case: dict[str, Any]) -> dict[str, Any]:
    import mypy.server.update as U
    script: list[list[int]] = case["script"]
    log: list[list[int]] = []

    class Mgr:
        def log_fine_grained(self, *a: Any) -> None: pass

    class FakeState:
        xpath = "m.py"
    saved = {k: getattr(U, k) for k in ("find_targets_recursive", "reprocess_nodes", "is_verbose", "module_prefix")}

    def ftr(manager: Any, graph: Any, triggers: Any, deps: Any, up_to_date: Any) -> Any:
        if len(log) > 5000:
            raise _Abort()
        log.append(sorted(int(t[1:]) for t in triggers))
        return {"m": {("node", None)}}, set(), set()

    def rn(manager: Any, graph: Any, id: str, nodes: Any, deps: Any, processed: Any) -> set[str]:
        k = len(log) - 1
        return {f"t{x}" for x in (script[k] if k < len(script) else case.get("default", []))}
    U.find_targets_recursive = ftr  # type: ignore[assignment]
    U.reprocess_nodes = rn  # type: ignore[assignment]
    U.is_verbose = lambda m: False  # type: ignore[assignment]
    U.module_prefix = lambda g, t: None  # type: ignore[assignment]
    try:
        try:
            U.propagate_changes_using_dependencies(Mgr(), {"m": FakeState()}, {}, {f"t{x}" for x in case["triggered"]}, set(),  # type: ignore[arg-type]
                                                    {f"e{x}" for x in case["errs"]}, [])
            out = "Done"
        except RuntimeError as e:
            out = "RaisedRuntimeError" if "Max number of iterations" in str(e) else "Other:" + repr(e)
        except _Abort:
            out = "Unbounded"
    finally:
        for k, v in saved.items():
            setattr(U, k, v)
    return {"outcome": out, "iterations": len(log), "log": log if len(log) <= 40 else log[:3]}


def tie_messages(case: dict[str, Any]) -> dict[str, Any]:
    """Real Errors.sort_messages / remove_duplicates / render_messages / format_messages_default."""
    from mypy.errors import Errors, ErrorInfo
    from mypy.options import Options
    from mypy import errorcodes
    codes = [None, errorcodes.MISC, errorcodes.ARG_TYPE, errorcodes.ATTR_DEFINED]
    o = Options()
    o.show_error_context = bool(case["show_ctx"])
    o.pretty = True
    o.show_column_numbers = bool(case.get("cols", False))
    errs = Errors(o)
    infos: list[Any] = []
    for e in case["errors"]:
        par = infos[e["parent"]] if e["parent"] is not None else None
        infos.append(ErrorInfo(import_ctx=[(f"p{p}", l) for p, l in e["ctx"]],
                               local_ctx=(None if e["type"] is None else f"T{e['type']}", None if e["fn"] is None else f"F{e['fn']}"),
                               line=e["line"], column=e["col"], end_line=e["eline"], end_column=e["ecol"],
                               severity=["error", "note", "warning"][e["sev"]] if par is None else "note", message=f"M{e['msg']}", code=codes[e["code"]],
                               blocker=False, only_once=False, module="m", target=None, priority=e["prio"], parent_error=par))
    ident = {id(x): i for i, x in enumerate(infos)}
    res: dict[str, Any] = {}

    def guard(name: str, f: Callable[[], Any]) -> Any:
        try:
            v = f()
            res[name] = v
            return v
        except IndexError:
            res[name] = "IndexError"
        except Exception as ex:  # noqa
            res[name] = "Raise:" + type(ex).__name__
        return None
    guard("sort_within", lambda: [ident[id(x)] for x in errs.sort_within_context(list(infos))])
    srt = None
    try:
        srt = errs.sort_messages(list(infos))
        res["sort"] = [ident[id(x)] for x in srt]
    except IndexError:
        res["sort"] = "IndexError"
    guard("dedup", lambda: [ident[id(x)] for x in errs.remove_duplicates(list(infos))])

    def render(lst: list[Any]) -> list[Any]:
        out = []
        for t in errs.render_messages("f.py", lst):
            file, line, col, el, ec, sev, msg, code = t
            m = re.fullmatch(r"p(\d+):(-?\d+): note: (In module imported here|\.\.\. from here)([,:])", msg) if file is None else None
            if m:
                out.append(["I", int(m.group(1)), int(m.group(2)), m.group(3).startswith("..."), m.group(4) == ","])
            elif line == -1 and sev == "note" and msg == "At top level:":
                out.append(["C", None, None])
            elif line == -1 and sev == "note" and (m2 := re.fullmatch(r'In class "T(\d+)":', msg)):
                out.append(["C", int(m2.group(1)), None])
            elif line == -1 and sev == "note" and (m2 := re.fullmatch(r'In function "F(\d+)":', msg)):
                out.append(["C", None, int(m2.group(1))])
            elif line == -1 and sev == "note" and (m2 := re.fullmatch(r'In member "F(\d+)" of class "T(\d+)":', msg)):
                out.append(["C", int(m2.group(2)), int(m2.group(1))])
            else:
                cand = [i for i, x in enumerate(infos) if (x.line, x.column, x.end_line, x.end_column, x.severity, x.message) == (line, col, el, ec, sev, msg)]
                out.append(["M", cand])
        return out
    guard("render", lambda: render(list(infos)))
    if srt is not None:
        guard("file_messages", lambda: render(errs.remove_duplicates(srt)))
    # --pretty snippet access
    src_lines = ["x" * 5 for _ in range(case["nlines"])]
    tuples = [("f.py", e["line"], max(e["col"], 0), e["eline"], max(e["ecol"], 0), ["error", "note", "warning"][e["sev"]], "m", None) for e in case["errors"]]

    def fmt() -> Any:
        lines = errs.format_messages_default(tuples, src_lines)
        # number of snippets = lines that are indented source
        return sum(1 for l in lines if l.startswith("    xxxxx"))
    guard("pretty", fmt)
    return res


def tie_accept_loop(case: dict[str, Any]) -> dict[str, Any]:
    """Real TypeChecker.accept_loop called on a stand-in `self`: checking the body is a scripted oracle that sets the number of
    partial types, binder.last_pop_changed and len(widened_vars)."""
    import contextlib
    from mypy.checker import TypeChecker
    from mypy.errors import Errors
    from mypy.options import Options
    script = case["script"]
    calls: list[list[int]] = []

    class PT:
        map: dict[int, None] = {}

    class Binder:
        last_pop_changed = False
        def frame_context(self, **kw: Any) -> Any: return contextlib.nullcontext()

    class Msg:
        def __init__(self) -> None: self.errors = Errors(Options())
        def iteration_dependent_errors(self, ie: Any) -> None: pass

    class Fake:
        pass
    f = Fake()
    pt = PT()
    pt.map = {i: None for i in range(case["po"])}
    f.binder, f.msg, f.partial_types, f.widened_vars = Binder(), Msg(), [pt], [0] * case["wo"]  # type: ignore[attr-defined]

    def accept(body: Any) -> None:
        k = len(calls)
        if k > 200:
            raise _Abort()
        calls.append([k + 1, len(pt.map)])
        pn, ch, wn = script[k]
        pt.map = {i: None for i in range(pn)}
        f.binder.last_pop_changed = bool(ch)  # type: ignore[attr-defined]
        f.widened_vars = [0] * wn  # type: ignore[attr-defined]
    f.accept = accept  # type: ignore[attr-defined]
    try:
        TypeChecker.accept_loop(f, object())  # type: ignore[arg-type]
        out = "Done"
    except RuntimeError as e:
        out = "RaisedRuntimeError" if "Too many iterations" in str(e) else "Other:" + repr(e)
    except _Abort:
        out = "Unbounded"
    except IndexError:
        out = "ScriptExhausted"
    return {"outcome": out, "calls": calls}


def tie_sort_preserving(case: dict[str, Any]) -> dict[str, Any]:
    """Real update.sort_messages_preserving_file_order on generated message lines."""
    from mypy.server.update import sort_messages_preserving_file_order
    msgs = [m["text"] for m in case["messages"]]
    try:
        res = sort_messages_preserving_file_order(list(msgs), list(case["prev"]))
    except IndexError:
        return {"result": "IndexError"}
    # map back to identities (texts are unique by construction)
    idx = {t: i for i, t in enumerate(msgs)}
    return {"result": [idx[t] for t in res]}


def tie_main() -> None:
    data = json.load(sys.stdin)
    cache_dir = tempfile.mkdtemp(prefix="c20-tie-cache-")
    out: dict[str, list[Any]] = {}
    try:
        for kind, fn in (("top", tie_semanal_top), ("fn", tie_semanal_fn), ("prop", tie_propagate), ("msg", tie_messages), ("al", tie_accept_loop), ("sp", tie_sort_preserving)):
            out[kind] = []
            for c in data.get(kind, []):
                try:
                    out[kind].append(fn(c))
                except Exception as e:  # noqa
                    import traceback
                    out[kind].append({"outcome": "HarnessError", "detail": traceback.format_exc()[-1500:]})
        out["ck"] = []
        for c in data.get("ck", []):
            try:
                out["ck"].append(tie_checker(c, cache_dir))
            except Exception as e:  # noqa
                import traceback
                out["ck"].append({"outcome": "HarnessError", "detail": traceback.format_exc()[-1500:]})
    finally:
        shutil.rmtree(cache_dir, ignore_errors=True)
    json.dump(out, sys.stdout)


if __name__ == "__main__" and len(sys.argv) >= 3 and sys.argv[1] == "--worker":
    worker_main(sys.argv[2])
    sys.exit(0)
if __name__ == "__main__" and len(sys.argv) >= 2 and sys.argv[1] == "--tie":
    tie_main()
    sys.exit(0)

import vlib  # noqa: E402

# =====================================================================================
# corpus
# =====================================================================================

CORPUS_GLOBS = ["check-*.test", "semanal-*.test", "fine-grained*.test", "pythoneval*.test"]
CORPUS_SKIP = {"check-custom-plugin.test", "check-plugin-error-codes.test", "check-reports.test",
               "check-incomplete-fixture.test", "check-modules-case.test"}

# flags of the corpus that are dropped (value = number of extra argument tokens)
FLAG_DROP = {
    "--config-file": 1, "--plugin": 1, "--custom-typeshed-dir": 1, "--cache-dir": 1, "--shadow-file": 2,
    "--junit-xml": 1, "-p": 1, "-m": 1, "--package": 1, "--module": 1, "-c": 1, "--command": 1,
    "--python-executable": 1, "--exclude": 1, "-n": 1, "--num-workers": 1, "--incremental": 0,
    "--no-incremental": 0, "--sqlite-cache": 0, "--no-sqlite-cache": 0, "--cache-fine-grained": 0,
    "--skip-cache-mtime-checks": 0, "--install-types": 0, "--non-interactive": 0, "--pdb": 0,
    "--raise-exceptions": 0, "--show-traceback": 0, "--tb": 0, "--verbose": 0, "-v": 0, "--dump-type-stats": 0,
    "--dump-inference-stats": 0, "--dump-build-stats": 0, "--stats": 0, "--inferstats": 0, "--timing-stats": 1,
    "--line-checking-stats": 1, "--any-exprs-report": 1, "--cobertura-xml-report": 1, "--html-report": 1,
    "--linecount-report": 1, "--linecoverage-report": 1, "--lineprecision-report": 1, "--txt-report": 1,
    "--xml-report": 1, "--xslt-html-report": 1, "--xslt-txt-report": 1, "--memory-xml-report": 1,
    "--error-summary": 0, "--no-error-summary": 0, "--color-output": 0, "--no-color-output": 0,
    "--soft-error-limit": 1, "--export-types": 0, "--export-ref-info": 0, "--native-parser": 0,
    "--output": 1, "-O": 1, "--find-occurrences": 1, "--package-root": 1, "--bazel": 0, "--fast-exit": 0,
    "--no-fast-exit": 0, "--use-builtins-fixtures": 0, "--no-silence-site-packages": 0,
    "--follow-imports-for-stubs": 0, "--no-site-packages": 0, "--mypyc": 0, "--platform": 1,
    "--fast-module-lookup": 0, "--disable-expression-cache": 0,
}


class Case:
    __slots__ = ("name", "src", "files", "versions", "flags")

    def __init__(self, name: str, src: str) -> None:
        self.name = name
        self.src = src                      # test file it came from
        self.files: dict[str, str] = {}     # first version, "main.py" + aux
        self.versions: dict[int, dict[str, str | None]] = {}   # n -> {path: new text | None (delete)}
        self.flags: list[str] = []


def filter_flags(tokens: list[str]) -> list[str]:
    out: list[str] = []
    i = 0
    while i < len(tokens):
        t = tokens[i]
        name = t.split("=", 1)[0]
        if name in FLAG_DROP:
            i += 1 + (0 if "=" in t else FLAG_DROP[name])
            continue
        if not t.startswith("-"):
            i += 1       # stray positional (file name): dropped
            continue
        if name == "--python-version":
            val = t.split("=", 1)[1] if "=" in t else (tokens[i + 1] if i + 1 < len(tokens) else "")
            i += 1 if "=" in t else 2
            if re.fullmatch(r"3\.(9|1[0-4])", val):
                out += ["--python-version", val]
            continue
        out.append(t)
        if name in ("--follow-imports", "--enable-error-code", "--disable-error-code", "--always-true",
                    "--always-false", "--enable-incomplete-feature", "--untyped-calls-exclude",
                    "--allow-redefinition-new") and "=" not in t and name != "--allow-redefinition-new":
            if i + 1 < len(tokens):
                out.append(tokens[i + 1])
            i += 2
            continue
        i += 1
    return out


def parse_test_file(path: str) -> list[Case]:
    cases: list[Case] = []
    cur: Case | None = None
    sect: tuple[str, str] | None = None
    buf: list[str] = []

    def flush() -> None:
        nonlocal buf
        if cur is None or sect is None:
            buf = []
            return
        kind, arg = sect
        text = "\n".join(buf).rstrip("\n") + "\n" if buf else ""
        buf = []
        if kind == "case":
            cur.files["main.py"] = text
        elif kind == "file":
            m = re.fullmatch(r"(.*\.pyi?)(?:\.(\d+))?", arg.strip())
            if not m:
                return
            rel = _safe_rel(m.group(1))
            if rel is None or rel == "main.py":
                return
            if m.group(2):
                cur.versions.setdefault(int(m.group(2)), {})[rel] = text
            else:
                cur.files[rel] = text
        elif kind == "delete":
            m = re.fullmatch(r"(.*\.pyi?)\.(\d+)", arg.strip())
            if m and _safe_rel(m.group(1)):
                cur.versions.setdefault(int(m.group(2)), {})[_safe_rel(m.group(1))] = None  # type: ignore[index]

    base = os.path.basename(path)
    with open(path, encoding="utf-8") as f:
        for raw in f:
            line = raw.rstrip("\n")
            if line.startswith("--") and not line.startswith("---"):
                continue
            m = re.match(r"^\[(\w[\w-]*)(?: +([^\]]*))?\]\s*$", line)
            if m and not line.startswith("\\["):
                flush()
                kind, arg = m.group(1), m.group(2) or ""
                if kind == "case":
                    cur = Case(arg.strip(), base)
                    cases.append(cur)
                sect = (kind, arg)
                continue
            if line.startswith("\\["):
                line = line[1:]
            buf.append(line)
        flush()
    good = []
    for c in cases:
        main = c.files.get("main.py", "")
        if "# cmd:" in main or not main.strip() or c.name.endswith("-skip") or "-xfail" in c.name:
            continue
        for ln in main.splitlines()[:4]:
            if ln.startswith("# flags:"):
                try:
                    c.flags = filter_flags(shlex.split(ln[len("# flags:"):]))
                except ValueError:
                    c.flags = []
                break
        good.append(c)
    return good


_CORPUS: list[Case] | None = None


def load_corpus() -> list[Case]:
    global _CORPUS
    if _CORPUS is None:
        d = os.path.join(vlib.REPO, "test-data", "unit")
        files: list[str] = []
        for g in CORPUS_GLOBS:
            files += glob.glob(os.path.join(d, g))
        cs: list[Case] = []
        for p in sorted(set(files)):
            if os.path.basename(p) in CORPUS_SKIP:
                continue
            cs += parse_test_file(p)
        _CORPUS = cs
    return _CORPUS


# =====================================================================================
# mutation operators (text -> text); every random choice comes from the rng passed in
# =====================================================================================

def _stmts(src: str) -> list[tuple[list[ast.stmt], int]] | None:
    """All statement lists (bodies) of the program, or None if it does not parse."""
    try:
        tree = ast.parse(src)
    except (SyntaxError, ValueError, RecursionError, MemoryError):
        return None
    out: list[tuple[list[ast.stmt], int]] = []
    for node in ast.walk(tree):
        for fld in ("body", "orelse", "finalbody"):
            b = getattr(node, fld, None)
            if isinstance(b, list) and b and isinstance(b[0], ast.stmt):
                out.append((b, 0))
    return out


def _span(s: ast.stmt) -> tuple[int, int]:
    lo = s.lineno
    for d in getattr(s, "decorator_list", []) or []:
        lo = min(lo, d.lineno)
    return lo - 1, (s.end_lineno or s.lineno)


def _indent(line: str) -> str:
    return line[: len(line) - len(line.lstrip())]


def m_delete_stmt(rng: random.Random, src: str, ctx: Any) -> str | None:
    bodies = _stmts(src)
    if not bodies:
        return m_delete_line(rng, src, ctx)
    body, _ = rng.choice(bodies)
    s = rng.choice(body)
    lo, hi = _span(s)
    lines = src.split("\n")
    rep = [_indent(lines[lo]) + "pass"] if len(body) == 1 else []
    return "\n".join(lines[:lo] + rep + lines[hi:])


def m_delete_line(rng: random.Random, src: str, ctx: Any) -> str | None:
    lines = src.split("\n")
    if len(lines) < 2:
        return None
    i = rng.randrange(len(lines))
    return "\n".join(lines[:i] + lines[i + 1:])


def m_dup_stmt(rng: random.Random, src: str, ctx: Any) -> str | None:
    bodies = _stmts(src)
    lines = src.split("\n")
    if not bodies:
        i = rng.randrange(len(lines))
        return "\n".join(lines[: i + 1] + [lines[i]] + lines[i + 1:])
    body, _ = rng.choice(bodies)
    s = rng.choice(body)
    lo, hi = _span(s)
    return "\n".join(lines[:hi] + lines[lo:hi] + lines[hi:])


def m_swap_stmts(rng: random.Random, src: str, ctx: Any) -> str | None:
    bodies = [b for b in (_stmts(src) or []) if len(b[0]) >= 2]
    lines = src.split("\n")
    if not bodies:
        if len(lines) < 3:
            return None
        i, j = sorted(rng.sample(range(len(lines)), 2))
        lines[i], lines[j] = lines[j], lines[i]
        return "\n".join(lines)
    body, _ = rng.choice(bodies)
    i, j = sorted(rng.sample(range(len(body)), 2))
    (a0, a1), (b0, b1) = _span(body[i]), _span(body[j])
    if a1 > b0:
        return None
    return "\n".join(lines[:a0] + lines[b0:b1] + lines[a1:b0] + lines[a0:a1] + lines[b1:])


def m_move_stmt_across(rng: random.Random, src: str, ctx: Any) -> str | None:
    """Move a statement into another body (re-indented): definitions used before/inside others."""
    bodies = _stmts(src)
    if not bodies or len(bodies) < 2:
        return None
    (b1, _), (b2, _) = rng.sample(bodies, 2)
    s, t = rng.choice(b1), rng.choice(b2)
    lo, hi = _span(s)
    tlo, thi = _span(t)
    if not (hi <= tlo or thi <= lo):
        return None
    lines = src.split("\n")
    blk = lines[lo:hi]
    ind_from, ind_to = _indent(lines[lo]), _indent(lines[tlo])
    blk = [ind_to + l[len(ind_from):] if l.startswith(ind_from) else l for l in blk]
    pos = tlo if rng.random() < 0.5 else thi
    new = lines[:pos] + blk + lines[pos:]
    return "\n".join(new)


def _tokens(src: str) -> list[tokenize.TokenInfo]:
    toks: list[tokenize.TokenInfo] = []
    try:
        for t in tokenize.generate_tokens(io.StringIO(src).readline):
            toks.append(t)
    except (tokenize.TokenError, IndentationError, SyntaxError, ValueError):
        pass
    return toks


def _offsets(src: str) -> list[int]:
    offs = [0]
    for ln in src.split("\n"):
        offs.append(offs[-1] + len(ln) + 1)
    return offs


def _names(toks: list[tokenize.TokenInfo]) -> list[tokenize.TokenInfo]:
    return [t for t in toks if t.type == tokenize.NAME and not keyword.iskeyword(t.string)
            and t.string not in ("self", "None", "True", "False")]


def _replace_tokens(src: str, repl: list[tuple[tokenize.TokenInfo, str]]) -> str:
    offs = _offsets(src)
    out = src
    for t, new in sorted(repl, key=lambda x: (x[0].start[0], x[0].start[1]), reverse=True):
        a = offs[t.start[0] - 1] + t.start[1]
        b = offs[t.end[0] - 1] + t.end[1]
        out = out[:a] + new + out[b:]
    return out


def m_rename_all(rng: random.Random, src: str, ctx: Any) -> str | None:
    """Rename every occurrence of one identifier to another identifier of the file (merges two names)."""
    names = _names(_tokens(src))
    ids = sorted({t.string for t in names})
    if len(ids) < 2:
        return None
    a, b = rng.sample(ids, 2)
    return _replace_tokens(src, [(t, b) for t in names if t.string == a])


def m_crosswire(rng: random.Random, src: str, ctx: Any) -> str | None:
    """Replace ONE occurrence of an identifier by another identifier of the file."""
    names = _names(_tokens(src))
    ids = sorted({t.string for t in names})
    if len(ids) < 2:
        return None
    t = rng.choice(names)
    b = rng.choice([i for i in ids if i != t.string])
    return _replace_tokens(src, [(t, b)])


def _type_exprs(src: str) -> list[tuple[int, int, int, int]] | None:
    try:
        tree = ast.parse(src)
    except (SyntaxError, ValueError, RecursionError, MemoryError):
        return None
    out: list[ast.expr] = []
    for n in ast.walk(tree):
        if isinstance(n, ast.arg) and n.annotation is not None:
            out.append(n.annotation)
        elif isinstance(n, (ast.FunctionDef, ast.AsyncFunctionDef)) and n.returns is not None:
            out.append(n.returns)
        elif isinstance(n, ast.AnnAssign):
            out.append(n.annotation)
        elif isinstance(n, ast.ClassDef):
            out += n.bases
        elif isinstance(n, ast.Subscript):
            out.append(n.slice)
            out.append(n.value)
        elif isinstance(n, ast.Call) and isinstance(n.func, ast.Name) and n.func.id in (
                "TypeVar", "NewType", "cast", "NamedTuple", "TypedDict", "ParamSpec", "TypeVarTuple"):
            out += n.args[1:]
            out += [k.value for k in n.keywords]
    res = []
    for e in out:
        if getattr(e, "end_lineno", None) is not None:
            res.append((e.lineno, e.col_offset, e.end_lineno, e.end_col_offset))
    return sorted(set(res))  # type: ignore[arg-type]


def _seg(src_b: bytes, offs_b: list[int], e: tuple[int, int, int, int]) -> tuple[int, int]:
    return offs_b[e[0] - 1] + e[1], offs_b[e[2] - 1] + e[3]


def m_replace_type(rng: random.Random, src: str, ctx: Any) -> str | None:
    es = _type_exprs(src)
    if not es or len(es) < 2:
        return None
    b = src.encode("utf-8")
    offs = [0]
    for ln in b.split(b"\n"):
        offs.append(offs[-1] + len(ln) + 1)
    x, y = rng.sample(es, 2)
    xa, xb = _seg(b, offs, x)
    ya, yb = _seg(b, offs, y)
    new = b[:xa] + b[ya:yb] + b[xb:]
    return new.decode("utf-8", errors="replace")


def m_truncate(rng: random.Random, src: str, ctx: Any) -> str | None:
    toks = [t for t in _tokens(src) if t.type not in (tokenize.NEWLINE, tokenize.NL, tokenize.INDENT, tokenize.DEDENT,
                                                       tokenize.ENDMARKER, tokenize.COMMENT)]
    if len(toks) < 3:
        return src[: rng.randrange(len(src) + 1)] if src else None
    t = rng.choice(toks[1:])
    offs = _offsets(src)
    cut = offs[t.start[0] - 1] + (t.start[1] if rng.random() < 0.7 else t.end[1])
    out = src[:cut]
    return out + ("\n" if rng.random() < 0.5 else "")


def m_splice(rng: random.Random, src: str, ctx: Any) -> str | None:
    """Splice with another program of the corpus: top-level statements of the other program are
    inserted at a top-level position (or a prefix of A is followed by a suffix of B)."""
    other: str = ctx["other"]()
    la, lb = src.split("\n"), other.split("\n")

    def tops(s: str, lines: list[str]) -> list[int]:
        try:
            return [_span(x)[0] for x in ast.parse(s).body] + [len(lines)]
        except (SyntaxError, ValueError, RecursionError, MemoryError):
            return list(range(len(lines) + 1))
    ta, tb = tops(src, la), tops(other, lb)
    if rng.random() < 0.5:
        i = rng.choice(ta)
        j0, j1 = sorted((rng.choice(tb), rng.choice(tb)))
        if j0 == j1:
            j0, j1 = 0, len(lb)
        return "\n".join(la[:i] + lb[j0:j1] + la[i:])
    i, j = rng.choice(ta), rng.choice(tb)
    return "\n".join(la[:i] + lb[j:])


def m_cyclic_classes(rng: random.Random, src: str, ctx: Any) -> str | None:
    """Make a class inherit from a later class (and possibly vice versa)."""
    try:
        tree = ast.parse(src)
    except (SyntaxError, ValueError, RecursionError, MemoryError):
        return None
    cls = [n for n in ast.walk(tree) if isinstance(n, ast.ClassDef)]
    if len(cls) < 1:
        return None
    lines = src.split("\n")
    cls.sort(key=lambda c: c.lineno)
    both = rng.random() < 0.4

    def add_base(c: ast.ClassDef, name: str) -> None:
        ln = c.lineno - 1
        line = lines[ln]
        m = re.match(r"^(\s*class\s+\w+\s*(?:\[[^\]]*\])?)\s*(\(?)", line)
        if not m:
            return
        if m.group(2) == "(":
            k = m.end()
            rest = line[k:]
            sep = "" if rest.lstrip().startswith(")") else ", "
            lines[ln] = line[:k] + name + sep + rest
        else:
            lines[ln] = m.group(1) + "(" + name + ")" + line[m.end(1):]
    if len(cls) == 1:
        add_base(cls[0], cls[0].name)
    else:
        i, j = sorted(rng.sample(range(len(cls)), 2))
        add_base(cls[i], cls[j].name)
        if both:
            add_base(cls[j], cls[i].name)
    return "\n".join(lines)


def m_alias_cycle(rng: random.Random, src: str, ctx: Any) -> str | None:
    names = sorted({t.string for t in _names(_tokens(src)) if t.string[:1].isupper()})
    a = rng.choice(names) if names and rng.random() < 0.7 else "CycA"
    b = rng.choice(names) if names and rng.random() < 0.5 else "CycB"
    forms = [
        "{a} = {b}\n{b} = {a}\n",
        "from typing import List, Union, Dict, Tuple, Optional, Callable, Type\n{a} = List[{b}]\n{b} = Union[int, {a}]\n",
        "from typing import Union, Tuple\n{a} = Tuple[{b}, ...]\n{b} = Tuple[{a}, {b}]\nx_{a}: {a}\nreveal_type(x_{a})\n",
        "from typing import NamedTuple, TypedDict\nclass {a}(NamedTuple):\n    x: '{b}'\nclass {b}(TypedDict):\n    y: {a}\n    z: '{b}'\n",
        "from typing import TypeVar, Generic\nT_{a} = TypeVar('T_{a}', bound='{a}')\nclass {a}(Generic[T_{a}]): pass\n",
        "type {a} = {b} | list[{a}]\ntype {b} = {a} | None\n",
        "from typing import Callable\n{a} = Callable[[{b}], {a}]\n{b} = Callable[..., {a}]\ndef f_{a}(x: {a}) -> {b}: return x\n",
        "from typing import NewType\n{a} = NewType('{a}', '{b}')\n{b} = NewType('{b}', {a})\n",
        "from typing import Protocol\nclass {a}(Protocol):\n    def m(self) -> '{b}': ...\nclass {b}({a}, Protocol):\n    def n(self: '{a}') -> {a}: ...\nv_{a}: {a} = v_{a}\n",
        "class {a}({b}): pass\nclass {b}({a}): pass\n",
        "import enum\nclass {a}(enum.Enum):\n    X = {b}\n{b} = {a}.X\n",
    ]
    text = rng.choice(forms).format(a=a, b=b)
    lines = src.split("\n")
    try:
        tops = [_span(x)[0] for x in ast.parse(src).body] + [len(lines)]
    except (SyntaxError, ValueError, RecursionError, MemoryError):
        tops = [0, len(lines)]
    i = rng.choice(tops)
    return "\n".join(lines[:i] + text.rstrip("\n").split("\n") + lines[i:])


def m_noise(rng: random.Random, src: str, ctx: Any) -> str | None:
    """Character-level damage: the statement says 'every text file, well-formed or not'."""
    if not src:
        return None
    junk = ["(", ")", "[", "]", "{", "}", ":", ",", "'", '"', '"""', "\\", "\t", "\x0c", " ", "\n", "\r", "*", "**", "->",
            "=", ":=", "@", "lambda", "yield", "await", "async ", "del ", "é", "​", "𝐱", "0x", "1e", "0_", "...", "#",
            "# type: ", "# type: ignore[", "\x00", "f'{", "b'", "if ", "else:", "class ", "def ", "type ", "match ", "case ",
            "print ", "`", "$", "?", "!", "<>", "﻿"]
    k = rng.choice([1, 1, 2, 3])
    out = src
    for _ in range(k):
        i = rng.randrange(len(out) + 1)
        r = rng.random()
        if r < 0.6:
            out = out[:i] + rng.choice(junk) + out[i:]
        elif r < 0.8:
            out = out[:i] + out[i + rng.choice([1, 1, 2, 5]):]
        else:
            j = rng.randrange(len(out) + 1)
            a, b = sorted((i, j))
            out = out[:a] + out[a:b] * 2 + out[b:]
            if len(out) > 20000:
                out = out[:20000]
    return out


MUTATORS: list[tuple[str, Callable[[random.Random, str, Any], str | None], int]] = [
    ("delete", m_delete_stmt, 12), ("duplicate", m_dup_stmt, 10), ("swap", m_swap_stmts, 10),
    ("move", m_move_stmt_across, 8), ("rename", m_rename_all, 12), ("crosswire", m_crosswire, 12),
    ("retype", m_replace_type, 14), ("truncate", m_truncate, 6), ("splice", m_splice, 8),
    ("cyclic-class", m_cyclic_classes, 8), ("alias-cycle", m_alias_cycle, 8), ("noise", m_noise, 5),
]


def add_import_cycle(rng: random.Random, files: dict[str, str]) -> dict[str, str] | None:
    """Create an import cycle: a new module imports names from main, main imports it back."""
    main = files.get("main.py", "")
    names = sorted({t.string for t in _names(_tokens(main))})
    cls = sorted(set(re.findall(r"^class\s+(\w+)", main, re.M)))
    fns = sorted(set(re.findall(r"^def\s+(\w+)", main, re.M)))
    if "cycmod.py" in files:
        return None
    out = dict(files)
    body = ["import main", "from main import *"]
    if cls:
        c = rng.choice(cls)
        body += [f"from main import {c}", f"class Sub_{c}({c}):", f"    attr: 'main.{c}'", "    def meth(self):",
                 f"        return main.{rng.choice(names)}"]
    if fns:
        f = rng.choice(fns)
        body += [f"val = main.{f}", f"def wrap(*a, **k): return main.{f}(*a, **k)"]
    body += ["x = main.y_cyc", "y_cyc = x"]
    out["cycmod.py"] = "\n".join(body) + "\n"
    head = rng.choice(["from cycmod import *\n", "import cycmod\nfrom cycmod import x as y_cyc\n",
                       "from cycmod import y_cyc, wrap\nreveal_type(wrap)\n"])
    if rng.random() < 0.5:
        out["main.py"] = head + main
    else:
        out["main.py"] = main.rstrip("\n") + "\n" + head
    return out


# ------------------------------------------------------------------ generated programs

def gen_program(rng: random.Random) -> str:
    """A random program built around the constructs the property text names: placeholders,
    deferred nodes, recursive aliases, partially defined classes, forward references."""
    n = rng.randint(3, 9)
    names = [f"N{i}" for i in range(n)]
    tvars = ["T", "S"]
    out = ["from typing import *", "from dataclasses import dataclass", "import enum, abc",
           "T = TypeVar('T')", "S = TypeVar('S', bound='N0')"]

    def ty(d: int = 2) -> str:
        r = rng.random()
        if d == 0 or r < 0.35:
            return rng.choice(names + ["int", "str", "None", "Any", "T", "S", "object", "'N0'", "type", "Self"])
        k = rng.choice(["List[{}]", "Optional[{}]", "Dict[str, {}]", "Tuple[{}, ...]", "Union[{}, {}]", "Callable[[{}], {}]",
                        "Type[{}]", "Tuple[{}, {}]", "{}[{}]", "Literal[1, 'a']", "'{}'", "Annotated[{}, 1]", "list[{}] | {}",
                        "Callable[..., {}]", "Final[{}]", "ClassVar[{}]", "Unpack[{}]", "Concatenate[{}, ...]", "TypeGuard[{}]"])
        return k.format(*[ty(d - 1) for _ in range(k.count("{}"))])
    order = list(range(n))
    rng.shuffle(order)
    for i in order:
        nm = names[i]
        kind = rng.choice(["class", "class", "class", "alias", "alias", "typeddict", "namedtuple", "newtype", "func", "enum",
                           "protocol", "dataclass", "var", "overload", "type-stmt", "tvar"])
        if kind == "class":
            bases = rng.sample(names, rng.randint(0, 2))
            gen = rng.choice(["", "", "Generic[T]", "Generic[T, S]"])
            b = ", ".join([x if rng.random() < 0.7 else f"{x}[{ty(1)}]" for x in bases] + ([gen] if gen else []))
            meta = rng.choice(["", "", "", f", metaclass={rng.choice(names + ['abc.ABCMeta', 'type'])}"])
            out.append(f"class {nm}({b}{meta if b else meta.lstrip(', ')}):" if (b or meta) else f"class {nm}:")
            for j in range(rng.randint(1, 3)):
                r = rng.random()
                if r < 0.3:
                    out.append(f"    a{j}: {ty()}" + rng.choice(["", " = None", f" = {rng.choice(names)}()"]))
                elif r < 0.7:
                    out.append(f"    def m{j}(self, x: {ty()}" + rng.choice(["", f", *a: {ty(1)}", f", **k: {ty(1)}", " = 1"]) + f") -> {ty()}:")
                    out.append("        " + rng.choice([f"return {rng.choice(names)}.m0(self, x)", "return self.a0", f"self.z = {rng.choice(names)}()\n        return self.z",
                                                         f"return v{rng.randrange(n)}", "return x", f"y = [self.m{j}(x)]\n        return y[0]", "..."]))
                elif r < 0.8:
                    out.append(f"    @property\n    def p{j}(self) -> {ty()}: return self.p{j}")
                elif r < 0.9:
                    out.append(f"    class In{j}({rng.choice(names)}): pass")
                else:
                    out.append(f"    {rng.choice(['__slots__', '__match_args__', '__hash__', '__class_getitem__', '__init_subclass__'])} = {rng.choice(['()', 'None', '1', nm])}")
        elif kind == "alias":
            out.append(f"{nm} = {ty(3)}")
        elif kind == "type-stmt":
            out.append(f"type {nm}{rng.choice(['', '[T]', '[*Ts]', '[**P]', '[T: ' + rng.choice(names) + ']'])} = {ty(3)}")
        elif kind == "tvar":
            out.append(f"{nm} = TypeVar('{nm}', {rng.choice(['bound=' + ty(1), ty(1) + ', ' + ty(1), 'default=' + ty(1), 'covariant=True'])})")
        elif kind == "typeddict":
            if rng.random() < 0.5:
                out.append(f"class {nm}(TypedDict{rng.choice(['', ', total=False'])}):")
                out.append(f"    k: {ty()}\n    l: {rng.choice(['Required', 'NotRequired', 'ReadOnly'])}[{ty()}]")
            else:
                out.append(f"{nm} = TypedDict('{nm}', {{'k': {ty()}, 'l': '{rng.choice(names)}'}})")
        elif kind == "namedtuple":
            if rng.random() < 0.5:
                out.append(f"class {nm}(NamedTuple):\n    k: {ty()}\n    l: {ty()} = None")
            else:
                out.append(f"{nm} = NamedTuple('{nm}', [('k', {ty()}), ('l', '{rng.choice(names)}')])")
        elif kind == "newtype":
            out.append(f"{nm} = NewType('{nm}', {ty(1)})")
        elif kind == "enum":
            out.append(f"class {nm}({rng.choice(['enum.Enum', 'enum.IntEnum', 'enum.Flag', rng.choice(names)])}):\n    A = {rng.choice(['1', nm, rng.choice(names), 'enum.auto()'])}\n    B: {ty(1)} = 2")
        elif kind == "protocol":
            out.append(f"class {nm}(Protocol{rng.choice(['', '[T]'])}):\n    def pm(self, x: {ty()}) -> {ty()}: ...\n    attr: {ty()}")
        elif kind == "dataclass":
            out.append(f"@dataclass{rng.choice(['', '(frozen=True)', '(order=True, slots=True)'])}\nclass {nm}({rng.choice(['', rng.choice(names)])}):\n    f1: {ty()}\n    f2: {ty()} = {rng.choice(['1', 'field()', rng.choice(names) + '()'])}")
        elif kind == "func":
            deco = rng.choice(["", "", f"@{rng.choice(names)}\n", "@overload\n", "@staticmethod\n", "@property\n", "@final\n"])
            out.append(f"{deco}def {nm}(x: {ty()}, y: {ty()} = {rng.choice(['None', '1', rng.choice(names)])}) -> {ty()}:")
            out.append("    " + rng.choice([f"return {rng.choice(names)}(x)", "return x", f"return v{rng.randrange(n)}",
                                             f"z = {rng.choice(names)}\n    return z(y)", "yield x", f"return lambda: {rng.choice(names)}"]))
        elif kind == "overload":
            out.append(f"@overload\ndef {nm}(x: {ty(1)}) -> {ty(1)}: ...\n@overload\ndef {nm}(x: {ty(1)}) -> {ty(1)}: ...\ndef {nm}(x): return {rng.choice(names)}(x)")
        else:
            out.append(f"{nm}: {ty()} = {rng.choice(names)}")
    for i in range(n):
        r = rng.choice(names)
        out.append(rng.choice([f"v{i} = {r}()", f"v{i}: {ty()} = {r}", f"v{i} = [{r}, {rng.choice(names)}]", f"v{i} = {r}.m0",
                               f"v{i} = v{rng.randrange(n)}", f"reveal_type({r})", f"v{i} = cast({ty()}, {r})",
                               f"def g{i}() -> {ty(1)}: return v{rng.randrange(n)}",
                               f"if isinstance(v{rng.randrange(n)}, {r}): reveal_type(v{rng.randrange(n)})",
                               f"match v{rng.randrange(n)}:\n    case {r}(k=1) | {rng.choice(names)}(): pass\n    case [{r}(), *rest]: reveal_type(rest)",
                               f"for v{i} in {r}: pass", f"with {r}() as v{i}: pass", f"del {r}", f"{r}.attr = {rng.choice(names)}",
                               f"class D{i}({r}, {rng.choice(names)}): x = v{rng.randrange(n)}"]))
    return "\n".join(out) + "\n"


# ------------------------------------------------------------------ mutant construction

EXTRA_PROFILES: list[list[str]] = [
    [], [], [], [], [], [],
    ["--pretty"],
    ["--show-error-context", "--show-column-numbers", "--show-error-end"],
    ["--strict", "--warn-unreachable"],
    ["--allow-redefinition-new", "--local-partial-types"],
    ["--check-untyped-defs", "--disallow-any-expr"],
]


def flagkey(args: list[str]) -> str:
    return hashlib.sha1(" ".join(args).encode()).hexdigest()[:12]


def make_mutant(seed: int, idx: int, corpus: list[Case]) -> dict[str, Any]:
    """Deterministic in (seed, idx)."""
    rng = random.Random(f"{seed}/mutant/{idx}")
    if rng.random() < 0.08:
        src = gen_program(rng)
        files = {"main.py": src}
        desc = ["generated"]
        flags: list[str] = []
        name = f"gen{idx}"
        if rng.random() < 0.5:
            r = m_alias_cycle(rng, src, None) if rng.random() < 0.5 else m_crosswire(rng, src, None)
            if r is not None:
                files["main.py"] = r
                desc.append("mut")
    else:
        case = corpus[rng.randrange(len(corpus))]
        files = dict(case.files)
        flags = list(case.flags)
        name = f"{case.src}:{case.name}"
        desc = []
        if case.versions and rng.random() < 0.3:
            v = rng.choice(sorted(case.versions))
            for p, t in case.versions[v].items():
                if t is None:
                    files.pop(p, None)
                else:
                    files[p] = t
            desc.append(f"version.{v}")
        ctxd = {"other": lambda: corpus[rng.randrange(len(corpus))].files["main.py"]}
        nmut = 1 if rng.random() < 0.55 else 2
        for _ in range(nmut):
            if rng.random() < 0.05:
                r2 = add_import_cycle(rng, files)
                if r2 is not None:
                    files = r2
                    desc.append("import-cycle")
                    continue
            tot = sum(w for _, _, w in MUTATORS)
            x = rng.random() * tot
            for mname, fn, w in MUTATORS:
                x -= w
                if x <= 0:
                    break
            keys = sorted(k for k in files if k.endswith((".py", ".pyi")))
            weights = [len(files[k]) + 20 for k in keys]
            target = rng.choices(keys, weights)[0]
            try:
                new = fn(rng, files[target], ctxd)
            except RecursionError:
                new = None
            if new is not None and new != files[target]:
                files[target] = new
                desc.append(f"{mname}@{target}")
        if not desc:
            desc.append("unchanged")
    extra = EXTRA_PROFILES[rng.randrange(len(EXTRA_PROFILES))]
    args = flags + [e for e in extra if e not in flags]
    return {"id": idx, "name": name, "desc": "+".join(desc), "files": files, "args": args, "targets": ["main.py"],
            "flagkey": flagkey(args)}


# =====================================================================================
# worker pool
# =====================================================================================

WALL_FACTOR = 30.0
_CLK = os.sysconf("SC_CLK_TCK")


def proc_cpu(pid: int) -> float:
    """utime+stime of a process in seconds (0 if gone)."""
    try:
        with open(f"/proc/{pid}/stat") as f:
            rest = f.read().rsplit(")", 1)[1].split()
        return (int(rest[11]) + int(rest[12])) / _CLK
    except (OSError, IndexError, ValueError):
        return 0.0


class Pool:
    """N long-lived worker processes; each job has its own timeout; a worker that does not answer in
    time (hang) or dies (hard crash) is killed/restarted and the job is reported accordingly."""

    def __init__(self, root: str, n: int) -> None:
        self.root = root
        self.n = n
        self.procs: list[subprocess.Popen | None] = [None] * n
        self.restarts = 0
        self.served: dict[int, int] = {}

    def _start(self, k: int) -> subprocess.Popen:
        wd = os.path.join(self.root, f"w{k}")
        os.makedirs(wd, exist_ok=True)
        p = subprocess.Popen([vlib.PY, "-X", "faulthandler", os.path.abspath(__file__), "--worker", wd], stdin=subprocess.PIPE,
                             stdout=subprocess.PIPE, stderr=open(os.path.join(wd, "stderr.txt"), "w"),
                             env=vlib.py_env(), cwd=wd, text=True, bufsize=1)
        self.procs[k] = p
        return p

    def _kill(self, k: int) -> None:
        p = self.procs[k]
        if p is not None:
            try:
                p.kill()
                p.wait(timeout=10)
            except Exception:  # noqa
                pass
        self.procs[k] = None

    def _one(self, k: int, job: dict[str, Any]) -> dict[str, Any]:
        """The time limit is CPU time of the worker (robust against a loaded machine); wall time is
        only a backstop (WALL_FACTOR x limit)."""
        self.served[k] = self.served.get(k, 0) + 1
        if self.served[k] % 250 == 0 and self.procs[k] is not None:      # recycle: bounded memory of a long-lived worker
            try:
                self.procs[k].stdin.close()  # type: ignore[union-attr]
                self.procs[k].wait(timeout=20)  # type: ignore[union-attr]
            except Exception:  # noqa
                self._kill(k)
            self.procs[k] = None
        p = self.procs[k] or self._start(k)
        timeout = float(job.get("timeout", PER_FILE_TIMEOUT))
        wd = os.path.join(self.root, f"w{k}")
        try:
            assert p.stdin is not None and p.stdout is not None
            cpu0 = proc_cpu(p.pid)
            t0 = time.time()
            p.stdin.write(json.dumps(job) + "\n")
            p.stdin.flush()
            while True:
                r, _, _ = select.select([p.stdout], [], [], 0.5)
                if r:
                    break
                used = proc_cpu(p.pid) - cpu0
                if used > timeout or time.time() - t0 > timeout * WALL_FACTOR or p.poll() is not None:
                    break
            if not r and p.poll() is None:
                stack = ""
                try:
                    os.kill(p.pid, signal.SIGUSR1)
                    time.sleep(0.5)
                    stack = open(os.path.join(wd, "stack.txt")).read()[-12000:]
                except OSError:
                    pass
                self._kill(k)
                self.restarts += 1
                return {"id": job["id"], "status": -2, "out": "", "err": "", "exc": "Timeout", "tb": stack,
                        "secs": round(time.time() - t0, 1), "cpu": round(used, 1)}
            line = p.stdout.readline()
            if not line:
                raise BrokenPipeError("worker died")
            return json.loads(line)
        except (BrokenPipeError, OSError, ValueError) as e:
            rc = p.poll()
            try:
                se = open(os.path.join(wd, "stderr.txt")).read()[-6000:]
            except OSError:
                se = ""
            self._kill(k)
            self.restarts += 1
            return {"id": job["id"], "status": -3, "out": "", "err": se, "exc": "WorkerDied", "tb": se + f"\n[{e!r} rc={rc}]", "secs": 0}

    def run(self, jobs: list[dict[str, Any]], chunk: int = 12) -> list[dict[str, Any]]:
        """Run all jobs; jobs with the same flagkey are grouped into chunks served by one worker
        (cache affinity).  Result order = job order."""
        groups: dict[str, list[int]] = {}
        for i, j in enumerate(jobs):
            groups.setdefault(j.get("flagkey", "x"), []).append(i)
        chunks: list[list[int]] = []
        for key in sorted(groups, key=lambda k: (-len(groups[k]), k)):
            g = groups[key]
            per = chunk if len(g) > chunk * self.n else max(1, min(chunk, (len(g) + self.n - 1) // self.n))
            for a in range(0, len(g), per):
                chunks.append(g[a:a + per])
        q: "queue.Queue[list[int]]" = queue.Queue()
        for c in chunks:
            q.put(c)
        results: list[dict[str, Any] | None] = [None] * len(jobs)

        def serve(k: int) -> None:
            while True:
                try:
                    c = q.get_nowait()
                except queue.Empty:
                    return
                for i in c:
                    results[i] = self._one(k, jobs[i])
        ths = [threading.Thread(target=serve, args=(k,), daemon=True) for k in range(min(self.n, len(chunks)))]
        for t in ths:
            t.start()
        for t in ths:
            t.join()
        return [r if r is not None else {"id": -1, "status": -4, "exc": "NoResult", "out": "", "err": "", "tb": ""} for r in results]

    def close(self) -> None:
        # no graceful shutdown: tearing down 16 interpreters with mypy's heaps one after the other took over a minute
        for k in range(self.n):
            p = self.procs[k]
            if p is not None:
                try:
                    p.kill()
                except Exception:  # noqa
                    pass
        for k in range(self.n):
            self._kill(k)


# =====================================================================================
# the oracle: classify one result
# =====================================================================================

FRAME_RE = re.compile(r'File "([^"]+)", line (\d+), in (\S+)')
FH_FRAME_RE = re.compile(r'File "([^"]+)", line (\d+) in (\S+)')       # faulthandler format
MSG_RE = re.compile(r"^(?:[^\n:]+|[A-Za-z]:[^\n:]+):\d+(?::\d+(?::\d+:\d+)?)?: (?:error|note|warning): ")
MSG_NOLINE_RE = re.compile(r"^[^\n]*: (?:error|note|warning): ")


def mypy_frame(text: str, fh: bool = False) -> str:
    """Innermost frame that belongs to mypy itself -> 'mypy/x.py:function' (no line numbers: stable)."""
    frames = (FH_FRAME_RE if fh else FRAME_RE).findall(text)
    if fh:
        frames = list(reversed(frames))     # faulthandler prints most recent call first
    mine: list[str] = []
    for path, _ln, fn in frames:
        p = path.replace("\\", "/")
        m = re.search(r"/(mypy(?:c)?/[\w/]+\.py)$", p)
        if m and "/tools/harness/" not in p:
            mine.append(f"{m.group(1)}:{fn}")
    if not mine:
        return "?"
    best = mine[-1]
    # a generic innermost function (__init__, accept, __hash__ ...) says little: add the nearest specific caller
    if re.search(r":(__\w+__|accept)$", best):
        for fr in reversed(mine[:-1]):
            if not re.search(r":(__\w+__|accept)$", fr):
                return best + "<" + fr
    return best


def exc_name(tb: str) -> str:
    """Exception type named on the last 'Type: message' line of a traceback."""
    name = "?"
    for ln in tb.strip().splitlines():
        m = re.match(r"^([A-Za-z_][\w.]*(?:Error|Exception|Exit|Interrupt|Iteration|Warning))\b(?::|$)", ln)
        if m:
            name = m.group(1).split(".")[-1]
        elif re.match(r"^AssertionError\b", ln):
            name = "AssertionError"
    return name


def classify(res: dict[str, Any], args: list[str]) -> tuple[str, str] | None:
    """None if the run is a diagnostic; else (stable key, one-line description)."""
    st = res.get("status")
    out, err = res.get("out", "") or "", res.get("err", "") or ""
    if st == -2:
        fr = mypy_frame(res.get("tb", ""), fh=True)
        return f"hang:{fr}", f"no answer within the time limit (innermost mypy frame {fr})"
    if st == -3:
        tb = res.get("tb", "")
        fr = mypy_frame(tb, fh="most recent call first" in tb)
        kind = "RecursionError/stack overflow" if "Fatal Python error" in tb or "stack overflow" in tb else "worker process died"
        return f"died:{fr}", f"{kind} (innermost mypy frame {fr})"
    if st == -1:
        tb = res.get("tb", "")
        e = res.get("exc") or exc_name(tb)
        fr = mypy_frame(tb)
        return f"crash:{e}:{fr}", f"uncaught {e} escaped mypy.api.run at {fr}"
    if ("maximum semantic analysis iteration count reached" in re.sub(r"\s+", " ", out + err) or
            (st == 2 and len(re.findall(r"^    [\w.]+:-?\d+$", out, re.M)) > 20)) and "Traceback (most recent call last)" not in out:
        return "internal:semanal-max-iterations", "INTERNAL ERROR: maximum semantic analysis iteration count reached (deferral loop cut off by MAX_ITERATIONS)"
    if "INTERNAL ERROR" in err or "INTERNAL ERROR" in out:
        tb = out[out.find("Traceback (most recent call last)"):] if "Traceback (most recent call last)" in out else out + err
        e = exc_name(tb)
        fr = mypy_frame(tb)
        return f"crash:{e}:{fr}", f"INTERNAL ERROR: {e} at {fr}"
    if "Traceback (most recent call last)" in out or "Traceback (most recent call last)" in err:
        tb = out + "\n" + err
        e = exc_name(tb)
        fr = mypy_frame(tb)
        return f"crash:{e}:{fr}", f"Python traceback in the output: {e} at {fr}"
    if st not in (0, 1, 2):
        return f"exit:{st}", f"exit status {st}"
    # well-formed message lines (source snippets of --pretty are exempt)
    if "--pretty" not in args:
        for ln in out.splitlines():
            if not ln.strip():
                continue
            if MSG_RE.match(ln) or MSG_NOLINE_RE.match(ln):
                continue
            mcode = re.search(r"\[([a-z][a-z0-9-]*)\]\s*$", ln)      # the error code of the split message names the culprit
            return ("malformed-line:" + mcode.group(1)) if mcode else "malformed-line", f"stdout line is not '<file>:<line>: <severity>: ...': {ln[:160]!r}"
    if st == 0 and re.search(r": error: ", out):
        return "status0-with-error", "exit status 0 although an error line was printed"
    if st == 1 and not out.strip() and not err.strip():
        return "status1-silent", "exit status 1 without any message"
    if st == 2 and not (out.strip() or err.strip()):
        return "status2-silent", "exit status 2 without any message"
    return None


# =====================================================================================
# shrinking (delta debugging over lines, candidates tested in parallel through the pool)
# =====================================================================================

def shrink(pool: Pool, job: dict[str, Any], key: str, budget_s: float = 120.0, log: Callable[..., None] | None = None) -> dict[str, Any]:
    t_end = time.time() + budget_s
    base = {k: job[k] for k in ("args", "targets", "flagkey")}
    is_hang = key.startswith("hang:")
    tmo = max(8.0, min(PER_FILE_TIMEOUT, float(job.get("hang_secs", 20.0)))) if is_hang else PER_FILE_TIMEOUT
    nid = [0]

    def test_many(cands: list[dict[str, str]]) -> int | None:
        jobs = []
        for c in cands:
            nid[0] += 1
            jobs.append({**base, "id": nid[0], "files": c, "timeout": tmo})
        rs = pool.run(jobs, chunk=1)
        for i, r in enumerate(rs):
            k = classify(r, base["args"])
            if k is not None and k[0] == key:
                return i
        return None

    files = dict(job["files"])
    # 0. flags: try without extra arguments
    if base["args"]:
        nid[0] += 1
        r = pool.run([{**base, "args": [], "flagkey": flagkey([]), "id": nid[0], "files": files, "timeout": tmo}])[0]
        k = classify(r, [])
        if k is not None and k[0] == key:
            base["args"] = []
            base["flagkey"] = flagkey([])
    # 1. drop auxiliary files
    aux = [f for f in sorted(files) if f != "main.py"]
    if aux:
        cands = [{k: v for k, v in files.items() if k != a} for a in aux]
        allgone = {"main.py": files["main.py"]}
        i = test_many([allgone] + cands)
        if i == 0:
            files = allgone
        elif i is not None:
            files = cands[i - 1]
    # 2. ddmin on lines of each remaining file (largest first)
    for target in sorted(files, key=lambda f: -len(files[f])):
        lines = files[target].split("\n")
        n = 2
        while len(lines) >= 2 and time.time() < t_end:
            size = max(1, len(lines) // n)
            chunks = [(a, min(len(lines), a + size)) for a in range(0, len(lines), size)]
            cands_l = [lines[:a] + lines[b:] for a, b in chunks]
            if len(cands_l) > 48:
                cands_l = cands_l[:48]
            i = test_many([{**files, target: "\n".join(c)} for c in cands_l])
            if i is not None:
                lines = cands_l[i]
                n = max(n - 1, 2)
            elif size == 1:
                break
            else:
                n = min(len(lines), n * 2)
        files[target] = "\n".join(lines)
    if log:
        log(f"shrunk {key}: {sum(len(v.splitlines()) for v in job['files'].values())} -> {sum(len(v.splitlines()) for v in files.values())} lines")
    return {**job, **base, "files": files}


def confirm_subprocess(job: dict[str, Any], timeout: float = PER_FILE_TIMEOUT) -> tuple[tuple[str, str] | None, dict[str, Any]]:
    """Re-run a job in a fresh `python -m mypy` process, incremental off: true exit status."""
    d = tempfile.mkdtemp(prefix="c20-sub-")
    try:
        write_job_files(os.path.join(d, "job"), job["files"])
        # a real (private, temporary) cache directory: with --cache-dir=/dev/null the serialisers never run and e.g. the
        # UnicodeEncodeError of cache.write_literal on a lone surrogate is not reached
        cmd = [vlib.PY, "-X", "faulthandler", "-m", "mypy", "--no-incremental", "--cache-dir", os.path.join(d, "cache"), "--show-traceback",
               "--no-error-summary", "--no-color-output"] + list(job["args"]) + list(job["targets"])
        t = time.time()
        try:
            def lim() -> None:
                import resource
                resource.setrlimit(resource.RLIMIT_CPU, (int(PER_FILE_TIMEOUT) + 10, int(PER_FILE_TIMEOUT) + 15))
            p = subprocess.run(cmd, cwd=os.path.join(d, "job"), env=vlib.py_env(), capture_output=True, text=True,
                               errors="replace", timeout=timeout, preexec_fn=lim)
            if p.returncode in (-signal.SIGXCPU, -signal.SIGKILL):
                raise subprocess.TimeoutExpired(cmd, timeout)
            res = {"id": job.get("id", 0), "status": p.returncode, "out": p.stdout[-20000:], "err": p.stderr[-8000:]}
            if p.returncode < 0 or p.returncode > 2 and "Fatal Python error" in p.stderr:
                res = {"id": job.get("id", 0), "status": -3, "exc": "WorkerDied", "tb": p.stderr[-8000:], "out": "", "err": p.stderr[-8000:]}
        except subprocess.TimeoutExpired:
            res = {"id": job.get("id", 0), "status": -2, "exc": "Timeout", "tb": "", "out": "", "err": ""}
        res["secs"] = round(time.time() - t, 2)
        return classify(res, job["args"]), res
    finally:
        shutil.rmtree(d, ignore_errors=True)


def command_of(job: dict[str, Any]) -> str:
    return "cd <dir with the files> && PYTHONPATH=/repo /venv/bin/python -m mypy --no-incremental --show-traceback " + \
        " ".join(shlex.quote(a) for a in list(job["args"]) + list(job["targets"]))


# =====================================================================================
# stage C: the real drivers with adversarial oracles  vs  the Coq model (vm_compute)
# =====================================================================================

CASES_HEADER = r"""From Coq Require Import List Arith Bool ZArith.
From Gen Require Import Bounds.
From C20 Require Import Model AcceptLoop SortPreserving.
Import ListNotations.
Definition oc (o : Outcome) : nat := match o with Done => 0 | ReportedHang => 1 | AssertFail => 2 | RaisedRuntimeError => 3 end.
Definition b2n (b : bool) : nat := if b then 1 else 0.
Definition flat (l : list (nat * bool)) : list nat := flat_map (fun p => [fst p; b2n (snd p)]) l.
Definition scripted (script : list (bool * bool * bool)) (st t : nat) (final : bool) : nat * (list nat * bool * bool) :=
  let '(dn, df, p) := nth st script (false, false, false) in
  (S st, ((if (if final then df else dn) then [t] else []), true, p)).
Definition run_tl script wl := match process_top_levels nat nat (scripted script) tl_fuel 0 wl with
  | Some ((o, s), n) => [[oc o; n]; flat (rev (tl_calls _ _ s))] | None => [[9]] end.
Definition run_fn script := match process_top_level_function nat nat (scripted script) fn_fuel 0 0 1 with
  | Some ((o, s), n) => [[oc o; n]; flat (rev (fn_calls _ _ s))] | None => [[9]] end.
Definition scripted_ck (last : nat) (script : list nat) (st p n : nat) : nat * list nat :=
  (S st, if p <? last then repeat n (nth st script 0) else []).
Definition run_ck last script nf :=
  let s0 := first_pass nat nat Nat.eqb (scripted_ck last script) 0 (seq 0 nf) in
  match second_pass_loop nat nat Nat.eqb (scripted_ck last script) (sp_fuel last 0) s0 with
  | Some ((o, s), n) => [[oc o; n]; flat_map (fun p => [fst p; snd p]) (rev (ck_calls _ _ s))] | None => [[9]] end.
Definition scripted_pr (script : list (list nat)) (dflt : list nat) (st : nat * list (list nat)) (trig errs : list nat) :=
  ((S (fst st), trig :: snd st), nth (fst st) script dflt).
Definition run_pr script dflt trig errs k := match propagate (nat * list (list nat)) nat (scripted_pr script dflt) pr_fuel (0, []) trig errs with
  | Some ((o, s), n) => [oc o; n; length (snd (pr_st _ _ s))] :: firstn k (rev (snd (pr_st _ _ s))) | None => [[9]] end.
Definition scripted_al (script : list (nat * bool * nat)) (st i po : nat) : nat * (nat * bool * nat) := (st, nth (i - 1) script (po, false, 0)).
Definition run_al script po wo := match accept_loop nat (scripted_al script) al_fuel 0 po wo with
  | Some ((o, s), n) => [[oc o; n]; flat_map (fun p => [fst p; snd p]) (rev (al_calls _ s))] | None => [[9]] end.
Definition zn (z : Z) : nat := Z.to_nat (z + 10).
Definition on (o : option nat) : nat := match o with None => 0 | Some x => S x end.
Definition rl {A} (f : A -> list nat) (r : R A) : list nat := match r with Ok a => 0 :: f a | IndexError => [1] | OutOfFuel => [2] end.
Definition run_sp order l := rl (map m_id) (sort_preserving order l).
Definition enc_item (i : Item) : list nat := match i with
  | ImportNote p l f c => [1; p; zn l; b2n f; b2n c] | CtxNote t f => [2; on t; on f] | Msg id => [3; id] end.
Definition msg_case (show : bool) (L : list ErrorInfo) (nlines : nat) : list (list nat) :=
  [ rl (map e_id) (sort_within_context L); rl (map e_id) (sort_messages L); map e_id (remove_duplicates L);
    rl (flat_map enc_item) (render_messages show L); rl (flat_map enc_item) (file_messages show L);
    rl (map on) (format_pretty (map (fun e => (Nat.eqb (e_severity e) 0, e_line e)) L) (repeat 0 nlines) []) ].
"""

TRIPLES = [(a, b, c) for a in (False, True) for b in (False, True) for c in (False, True)]
OUTC = {"Done": 0, "ReportedHang": 1, "AssertFail": 2, "RaisedRuntimeError": 3}


def cb(b: bool) -> str:
    return "true" if b else "false"


def coq_list(xs: list[str]) -> str:
    return "[" + "; ".join(xs) + "]"


def coq_script(script: list[tuple[bool, bool, bool]]) -> str:
    return coq_list([f"({cb(a)},{cb(b)},{cb(c)})" for a, b, c in script])


def parse_nested(s: str) -> Any:
    return json.loads(s.replace(";", ","))


def gen_scripts(rng: random.Random, n_random: int, maxlen: int) -> list[list[tuple[bool, bool, bool]]]:
    out: list[list[tuple[bool, bool, bool]]] = [[]]
    for a in TRIPLES:
        out.append([a])
        for b in TRIPLES:
            out.append([a, b])
            for c in TRIPLES:
                out.append([a, b, c])
    # named adversaries
    out.append([(True, True, True)] * 80)            # always defer, always progress  -> iteration cap
    out.append([(True, True, False)] * 80)           # always defer, never progress   -> final-iteration assert
    out.append([(True, False, False)] * 80)          # defer until final
    out.append([(True, False, True)] * 80)           # defer unless final, always progress -> cap
    out.append([(False, False, False)] * 5)          # never defer, never progress
    out.append([(True, False, True)] * 19 + [(False, False, False)] * 30)   # stops just below the cap
    out.append([(True, False, True)] * 20 + [(False, False, False)] * 30)
    out.append([(True, False, True)] * 21 + [(False, False, False)] * 30)
    for _ in range(n_random):
        k = rng.randint(1, maxlen)
        pd, pf, pp = rng.random(), rng.choice([0.0, 0.0, 0.1, 0.5]), rng.random()
        out.append([(rng.random() < pd, rng.random() < pf, rng.random() < pp) for _ in range(k)])
    return out


def gen_msg_case(rng: random.Random) -> dict[str, Any]:
    ctxs = [[], [[1, 2]], [[1, 2], [3, 4]], [[1, 2], [3, 5]], [[2, 2], [3, 4], [5, 6]]]
    n = rng.choice([0, 1, 2, 3, 4, 5, 6, 8])
    errs: list[dict[str, Any]] = []
    for i in range(n):
        parent = rng.randrange(i) if i and rng.random() < 0.25 else None
        errs.append({"ctx": rng.choice(ctxs if rng.random() < 0.5 else ctxs[:2]), "type": rng.choice([None, None, 1, 2]),
                     "fn": rng.choice([None, None, 1, 2]), "line": rng.choice([-1, 0, 1, 1, 2, 2, 3, 5]), "col": rng.choice([-1, 0, 0, 1]),
                     "eline": rng.choice([-1, 1, 2]), "ecol": rng.choice([-1, 0, 3]), "sev": 1 if parent is not None else rng.choice([0, 0, 1, 2]),
                     "msg": rng.choice([1, 1, 2, 3]), "code": rng.choice([0, 1, 1, 2, 3]), "prio": rng.choice([0, 0, 1, -1, 2]), "parent": parent})
    return {"show_ctx": rng.random() < 0.6, "nlines": rng.choice([0, 1, 2, 3, 4, 6]), "errors": errs}


def coq_z(z: int) -> str:
    return f"({z})%Z"


def coq_errinfo(i: int, e: dict[str, Any]) -> str:
    def on(x: Any) -> str:
        return "None" if x is None else f"(Some {x})"
    ctx = coq_list([f"({p}, {coq_z(l)})" for p, l in e["ctx"]])
    code = "None" if e["code"] == 0 else f"(Some {e['code']})"
    return (f"(mkE {i} {ctx} {on(e['type'])} {on(e['fn'])} {coq_z(e['line'])} {coq_z(e['col'])} {coq_z(e['eline'])} {coq_z(e['ecol'])} "
            f"{e['sev']} {e['msg']} {code} {coq_z(e['prio'])} {on(e['parent'])})")


def stage_C(ctx: vlib.Ctx) -> None:
    rng = vlib.Rng(ctx.seed, "tie")
    t0 = time.time()
    core = ["typing", "_collections_abc", "builtins", "abc", "collections", "collections.abc"]
    scripts = gen_scripts(rng.r, ctx.n(150, 1500), 70)
    top_cases: list[dict[str, Any]] = []
    for i, sc in enumerate(scripts):
        if len(sc) <= 3 and i < 600:
            sizes = [1] if len(sc) == 3 else [1, 2]
        else:
            sizes = [rng.choice([1, 2, 3, 4])]
        for k in sizes:
            top_cases.append({"scc": [f"m{j}" for j in range(k)], "script": sc})
    top_cases.append({"scc": core + ["zz"], "script": []})
    top_cases.append({"scc": core, "script": [(True, False, True)] * 7 + [(False, False, False)] * 40})
    top_cases.append({"scc": core[:-1] + ["zz"], "script": [(True, False, False)] * 9})
    fn_cases = [{"script": sc} for sc in scripts]
    ck_cases: list[dict[str, Any]] = []
    for nf, sc in [(1, [1, 1, 1, 1]), (1, [2, 2, 2, 2]), (2, [1, 1, 1, 1, 1, 1, 1]), (3, [2] * 12), (3, [0] * 5), (2, [0, 1, 1, 0, 1])]:
        ck_cases.append({"nfuncs": nf, "script": sc})
    for _ in range(ctx.n(40, 300)):
        nf = rng.randint(1, 5)
        ck_cases.append({"nfuncs": nf, "script": [rng.choice([0, 1, 1, 2]) for _ in range(rng.randint(0, 4 * nf))]})
    pr_cases: list[dict[str, Any]] = [
        {"triggered": [1], "errs": [], "script": [], "default": [0]},              # never converges -> RuntimeError
        {"triggered": [], "errs": [], "script": [], "default": [0]},
        {"triggered": [], "errs": [3], "script": [], "default": []},
        {"triggered": [1, 2], "errs": [5], "script": [[3], [4, 5], []], "default": []},
        {"triggered": [1], "errs": [], "script": [[1]] * 999 + [[]], "default": [1]},    # converges in the last allowed round
        {"triggered": [1], "errs": [], "script": [[1]] * 1000 + [[]], "default": []},    # one round too many
    ]
    for _ in range(ctx.n(60, 400)):
        k = rng.randint(0, 12)
        pr_cases.append({"triggered": sorted(rng.sample(range(6), rng.randint(0, 3))), "errs": sorted(rng.sample(range(6), rng.randint(0, 2))),
                         "script": [sorted(rng.sample(range(6), rng.choice([0, 1, 1, 2, 3]))) for _ in range(k)], "default": []})
    msg_cases = [gen_msg_case(rng.r) for _ in range(ctx.n(300, 2500))]
    al_entries = [(a, b, c) for a in (0, 1) for b in (False, True) for c in (0, 1)]
    al_scripts: list[list[tuple[int, bool, int]]] = []
    for a in al_entries:
        al_scripts.append([a])
        for b in al_entries:
            al_scripts.append([a, b])
            for c in al_entries:
                al_scripts.append([a, b, c])
    al_scripts += [[(0, True, 0)] * 30, [(i % 2, False, 0) for i in range(30)], [(0, False, i) for i in range(30)], [(i % 2, True, i) for i in range(30)],
                   [(i % 2, False, 0) for i in range(17)], [(i % 2, False, 0) for i in range(18)], [(i % 2, False, 0) for i in range(19)],
                   [(0, True, 0)] * 2 + [(0, False, 0)], [(0, True, 0)] * 3, [(0, False, 1)], [(0, False, 1), (0, False, 2)]]
    for _ in range(ctx.n(150, 1500)):
        k = rng.randint(1, 22)
        pf, pc, pw = rng.random(), rng.random(), rng.random()
        al_scripts.append([(rng.randint(0, 2) if rng.random() < pf else 0, rng.random() < pc, rng.randint(0, 2) if rng.random() < pw else 0) for _ in range(k)])
    al_cases = []
    for sc in al_scripts:
        last = sc[-1]
        al_cases.append({"po": rng.choice([0, 0, 1, 2]), "wo": rng.choice([0, 0, 1]), "script": sc + [(last[0], False, last[2])] * (26 - min(len(sc), 25))})
    # daemon message ordering: files f1..f4 (ids 1..4); prev mentions a subset in some order; lines of every kind the function distinguishes
    sp_cases = []
    for _ in range(ctx.n(250, 2000)):
        known = rng.sample([1, 2, 3, 4], rng.randint(0, 4))
        prev = [f"f{k}.py:{rng.randint(1, 9)}: error: old" for k in known for _r in range(rng.choice([1, 1, 2]))]
        if rng.random() < 0.3:
            prev.insert(rng.randrange(len(prev) + 1), "    continuation in prev")
        mm = []
        for j in range(rng.choice([0, 1, 2, 3, 4, 6, 9])):
            r_ = rng.random()
            k = rng.randint(1, 4)
            if r_ < 0.45:
                mm.append({"text": f"f{k}.py:{j}: {rng.choice(['error', 'note'])}: m{j}", "pf": k, "hasf": True, "mypy": False})
            elif r_ < 0.7:
                mm.append({"text": f"    continuation {j}", "pf": 100 + j, "hasf": False, "mypy": False})
            elif r_ < 0.8:
                mm.append({"text": f"mypy: note {j}", "pf": 50, "hasf": False, "mypy": True})
            elif r_ < 0.9:
                mm.append({"text": f"f{k}.py: error: no line number {j}", "pf": k, "hasf": False, "mypy": False})
            else:
                mm.append({"text": f"zz{j}.py:1: error: new file", "pf": 200 + j, "hasf": True, "mypy": False})
        order = []
        for k in known:
            if k not in order:
                order.append(k)
        sp_cases.append({"prev": prev, "messages": mm, "order": order})
    payload = {"top": top_cases, "fn": fn_cases, "ck": ck_cases, "prop": pr_cases, "msg": msg_cases, "al": al_cases, "sp": sp_cases}
    p = subprocess.run([vlib.PY, os.path.abspath(__file__), "--tie"], input=json.dumps(payload), text=True, capture_output=True,
                       env=vlib.py_env(), timeout=3000)
    if p.returncode != 0:
        ctx.broke("C", "tie driver", f"status {p.returncode}: {p.stderr[-2000:]}")
        return
    real = json.loads(p.stdout)
    ctx.log(f"C: real drivers ran: top={len(top_cases)} fn={len(fn_cases)} ck={len(ck_cases)} prop={len(pr_cases)} msg={len(msg_cases)} ({time.time()-t0:.1f}s)")
    # ---- model expressions
    exprs: list[str] = []
    tag: list[tuple[str, int]] = []
    for i, c in enumerate(top_cases):
        names = c["scc"]
        idx = {n: j for j, n in enumerate(names)}
        wl = list(reversed(range(len(names))))
        if all(m in names for m in core):
            wl = wl + [idx[m] for m in reversed(core)] * BOUNDS["CORE_WARMUP"]
        exprs.append(f"run_tl {coq_script(c['script'])} {coq_list([str(x) for x in wl])}")
        tag.append(("top", i))
    for i, c in enumerate(fn_cases):
        exprs.append(f"run_fn {coq_script(c['script'])}")
        tag.append(("fn", i))
    for i, c in enumerate(ck_cases):
        exprs.append(f"run_ck DEFAULT_LAST_PASS {coq_list([str(x) for x in c['script']])} {c['nfuncs']}")
        tag.append(("ck", i))
    for i, c in enumerate(pr_cases):
        k = 40 if real["prop"][i].get("iterations", 0) <= 40 else 3
        sc = coq_list([coq_list([str(x) for x in s]) for s in c["script"]]) if len(c["script"]) < 50 else \
            f"(repeat {coq_list([str(x) for x in c['script'][0]])} {len(c['script']) - 1} ++ [{coq_list([str(x) for x in c['script'][-1]])}])"
        exprs.append(f"run_pr {sc} {coq_list([str(x) for x in c.get('default', [])])} {coq_list([str(x) for x in c['triggered']])} "
                     f"{coq_list([str(x) for x in c['errs']])} {k}")
        tag.append(("prop", i))
    for i, c in enumerate(al_cases):
        exprs.append("run_al " + coq_list([f"({a}, {cb(b)}, {w})" for a, b, w in c["script"]]) + f" {c['po']} {c['wo']}")
        tag.append(("al", i))
    for i, c in enumerate(sp_cases):
        exprs.append("run_sp " + coq_list([str(k) for k in c["order"]]) + " " +
                     coq_list([f"(mkM {j} {m_['pf']} {cb(m_['hasf'])} {cb(m_['mypy'])})" for j, m_ in enumerate(c["messages"])]))
        tag.append(("sp", i))
    for i, c in enumerate(msg_cases):
        L = coq_list([coq_errinfo(j, e) for j, e in enumerate(c["errors"])])
        exprs.append(f"msg_case {cb(c['show_ctx'])} {L} {c['nlines']}")
        tag.append(("msg", i))
    outs = ctx.eval_cases("tie", CASES_HEADER, exprs, per_file=500)
    if outs is None:
        return
    bad = 0
    stats: dict[str, int] = {}
    nontriv = 0

    def mism(kind: str, i: int, why: str, case: Any, model: Any, impl: Any) -> None:
        nonlocal bad
        bad += 1
        if bad <= 6:
            ctx.broke("C", f"{kind} driver vs model", f"case {i}: {why}; model={str(model)[:300]} impl={str(impl)[:300]}", {"case": case})
    for (kind, i), o in zip(tag, outs):
        try:
            m = parse_nested(o)
        except ValueError:
            mism(kind, i, "unparsable model output", None, o, None)
            continue
        r = real[kind][i]
        if r.get("outcome") == "HarnessError":
            mism(kind, i, "tie driver raised", None, m, r.get("detail"))
            continue
        if kind in ("top", "fn"):
            c = (top_cases if kind == "top" else fn_cases)[i]
            if kind == "top":
                idx = {n: j for j, n in enumerate(c["scc"])}
                calls = [x for t, f in r["calls"] for x in (idx[t], int(f))]
            else:
                calls = [x for t, f in r["calls"] for x in (1, int(f))]
            want = OUTC.get(r["outcome"], 99)
            if m == [[9]] or m[0][0] != want or m[1] != calls:
                mism(kind, i, "outcome/call trace differ", c, m, r)
            stats[f"{kind}:{r['outcome']}"] = stats.get(f"{kind}:{r['outcome']}", 0) + 1
            nontriv += r["outcome"] != "Done" or len(r["calls"]) > len(c.get("scc", [0]))
        elif kind == "sp":
            want_sp = [1] if r["result"] == "IndexError" else [0] + r["result"]
            if m != want_sp:
                mism(kind, i, "sort_messages_preserving_file_order differs", sp_cases[i], m, r)
            stats["sp:ok"] = stats.get("sp:ok", 0) + 1
            nontriv += isinstance(r["result"], list) and r["result"] != sorted(r["result"])
        elif kind == "al":
            calls = [x for it_, po_ in r["calls"] for x in (it_, po_)]
            if m == [[9]] or m[0][0] != OUTC.get(r["outcome"], 99) or m[1] != calls or m[0][1] != len(r["calls"]):
                mism(kind, i, "accept_loop outcome / (iter, partials_old) trace differ", al_cases[i], m, r)
            stats[f"al:{r['outcome']}"] = stats.get(f"al:{r['outcome']}", 0) + 1
            nontriv += len(r["calls"]) > 1
        elif kind == "ck":
            calls = [x for p_, n_ in r["calls"] for x in (p_, n_)]
            if m == [[9]] or r["outcome"] != "Done" or m[0][0] != 0 or m[1] != calls or (m[0][1] if m[0][1] > 1 else 0) != r["second_pass_calls"]:
                # (build.py does not call type_check_second_pass at all when the first pass deferred nothing: model n = 1)
                mism(kind, i, "pass trace / number of check_second_pass calls differ", ck_cases[i], m, r)
            stats[f"ck:passes={r.get('second_pass_calls')}"] = stats.get(f"ck:passes={r.get('second_pass_calls')}", 0) + 1
            nontriv += r.get("second_pass_calls", 0) > 1
        elif kind == "prop":
            want = OUTC.get(r["outcome"], 99)
            if m == [[9]] or m[0][0] != want or m[0][2] != r["iterations"] or m[1:] != r["log"]:
                mism(kind, i, "outcome / iteration count / trigger log differ", pr_cases[i], m, r)
            stats[f"prop:{r['outcome']}"] = stats.get(f"prop:{r['outcome']}", 0) + 1
            nontriv += r["iterations"] > 1
        else:
            c = msg_cases[i]

            def enc_r(v: Any, f: Callable[[Any], list[int]]) -> list[int] | None:
                if v == "IndexError":
                    return [1]
                if isinstance(v, str):
                    return None
                return [0] + f(v)

            def items_ok(model_flat: list[int], impl: Any) -> bool:
                if impl == "IndexError":
                    return model_flat == [1]
                if isinstance(impl, str) or not model_flat or model_flat[0] != 0:
                    return False
                j = 1
                for it in impl:
                    if it[0] == "I":
                        w = [1, it[1], it[2] + 10, int(it[3]), int(it[4])]
                        if model_flat[j:j + 5] != w:
                            return False
                        j += 5
                    elif it[0] == "C":
                        w = [2, 0 if it[1] is None else it[1] + 1, 0 if it[2] is None else it[2] + 1]
                        if model_flat[j:j + 3] != w:
                            return False
                        j += 3
                    else:
                        if model_flat[j:j + 1] != [3] or model_flat[j + 1] not in it[1]:
                            return False
                        j += 2
                return j == len(model_flat)
            ok = (m[0] == enc_r(r["sort_within"], list) and m[1] == enc_r(r["sort"], list) and m[2] == r["dedup"]
                  and items_ok(m[3], r["render"]) and items_ok(m[4], r.get("file_messages"))
                  and ((r["pretty"] == "IndexError" and m[5] == [1]) or
                       (isinstance(r["pretty"], int) and m[5][:1] == [0] and sum(1 for x in m[5][1:] if x) == r["pretty"])))
            if not ok:
                mism(kind, i, "message pipeline differs", c, m, r)
            pk = "msg:pretty-IndexError" if r["pretty"] == "IndexError" else "msg:ok"
            stats[pk] = stats.get(pk, 0) + 1
            nontriv += len(c["errors"]) >= 2
            # the contract of format_pretty_guarded, evaluated on the case: IndexError iff an error line lies beyond the source
            beyond = c["nlines"] > 0 and any(e["sev"] == 0 and e["line"] > c["nlines"] for e in c["errors"])
            if beyond != (r["pretty"] == "IndexError"):
                mism(kind, i, "pretty IndexError does not coincide with 'error line beyond the last source line'", c, m, r)
    ctx.add("evaluations", len(exprs))
    ctx.add("traces_validated_against_impl", len(exprs) - bad)
    ctx.cov["tie_cases"] = {"top": len(top_cases), "fn": len(fn_cases), "ck": len(ck_cases), "prop": len(pr_cases), "msg": len(msg_cases), "al": len(al_cases), "sp": len(sp_cases)}
    ctx.cov["tie_outcomes"] = dict(sorted(stats.items()))
    ctx.cov["tie_nontrivial"] = nontriv
    ctx.sample({"tie": "top", "case": top_cases[700 % len(top_cases)]["script"][:4], "impl": real["top"][700 % len(top_cases)]})
    ctx.sample({"tie": "ck", "case": ck_cases[3], "impl": real["ck"][3]})
    ctx.log(f"C: {len(exprs)} cases compared, {bad} mismatches, outcomes {stats} ({time.time()-t0:.1f}s)")


BOUNDS: dict[str, int] = {}


# =====================================================================================
# stage S: the search
# =====================================================================================

POW_HANG = "from typing import Final\nX: Final = 18446744073709551617 ** 9223372036854775808\n"
CORPUS_DIR = os.path.join(vlib.VERIF, "corpus", "C20")


def total_lines(files: dict[str, str]) -> int:
    return sum(len(v.splitlines()) for v in files.values())


def corpus_probes(quick: bool = False, seed: int | None = None) -> list[dict[str, Any]]:
    """Minimised past failures, degenerate-form probes and the directed corpus (committed under corpus/C20), run first
    in every tier, independent of the seed.  quick: entries marked "q": false are skipped."""
    out = []
    for p in sorted(glob.glob(os.path.join(CORPUS_DIR, "*.json"))):
        try:
            d = json.load(open(p))
        except (OSError, ValueError):
            continue
        for e in d if isinstance(d, list) else [d]:
            if "files" in e:
                if quick and e.get("q") is False:
                    continue
                if not quick and seed is not None and e.get("q") is False and \
                        random.Random(f"{seed}/directed/{e.get('name')}").random() >= 1 / 3:
                    continue      # thorough: the quick subset (all minimal shapes) + a seeded third of the rest
                args = list(e.get("args", []))
                out.append({"name": "corpus:" + os.path.basename(p) + (":" + str(e["name"]) if e.get("name") else ""), "desc": "corpus", "files": e["files"], "args": args,
                            "targets": e.get("targets", ["main.py"]), "flagkey": flagkey(args), "expect": e.get("key"),
                            "timeout": e.get("timeout", PER_FILE_TIMEOUT)})
    return out


# ------------------------------------------------------------------ the DIRECTED corpus
# corpus/C20/directed.json is the output of gen_directed() (python tools/harness/C20.py --gen-directed).
# It does not depend on the seed and is run first in every tier (batch: all; daemon: every 4th in quick, all in thorough).
# One small parsable program per (guard shape x position): see notes/C20.md "Directed corpus".

HDR = "from typing import *\nfrom typing_extensions import *\nimport enum, abc, dataclasses, functools, contextlib\n"

# cyclic / forward / undefined definition shapes for the name X (helpers Y, Z, A, B, M)
CYCLIC_DEFS: list[tuple[str, list[str]]] = [
    ("alias-cycle", ["X = Y", "Y = X"]),
    ("alias-cycle3", ["X = Y", "Y = Z", "Z = X"]),
    ("alias-self", ["X = X"]),
    ("alias-self-generic", ["X = List[X]"]),
    ("alias-generic-cycle", ["X = List[Y]", "Y = Union[int, X]"]),
    ("alias-optional-cycle", ["X = Optional[Y]", "Y = Dict[str, X]"]),
    ("alias-callable-cycle", ["X = Callable[[Y], X]", "Y = Callable[..., X]"]),
    ("alias-attr-undefined", ["X = Y.z"]),
    ("alias-undefined", ["X = Undefined1"]),
    ("type-stmt-cycle", ["type X = Y", "type Y = X"]),
    ("type-stmt-self", ["type X = X | list[X]"]),
    ("typealias-annot-cycle", ["X: TypeAlias = 'Y'", "Y: TypeAlias = X"]),
    ("class-base-cycle", ["class X(Y): pass", "class Y(X): pass"]),
    ("class-base-self", ["class X(X): pass"]),
    ("class-base-later", ["class X(Y): pass", "class Y: pass"]),
    ("class-base-via-alias", ["class X(A): pass", "A = X"]),
    ("class-base-via-generic-alias", ["class X(List[A]): pass", "A = X"]),
    ("class-base-via-alias-cycle", ["class X(A): pass", "A = B", "B = A"]),
    ("class-generic-base-cycle", ["class X(Generic[T], Y[T]): pass", "class Y(X[T]): pass", "T = TypeVar('T')"]),
    ("metaclass-cycle", ["class X(metaclass=Y): pass", "class Y(X): pass"]),
    ("metaclass-self", ["class X(metaclass=X): pass"]),
    ("metaclass-alias", ["class X(metaclass=M): pass", "M = X"]),
    ("metaclass-later", ["class X(metaclass=Y): pass", "class Y(type): pass"]),
    ("typevar-bound-cycle", ["T1 = TypeVar('T1', bound='X')", "X = List[T1]"]),
    ("typevar-bound-self", ["X = TypeVar('X', bound='X')"]),
    ("typevar-bound-alias-cycle", ["X = TypeVar('X', bound=Y)", "Y = X"]),
    ("typevar-values-later", ["X = TypeVar('X', Y, int)", "class Y: pass"]),
    ("typevar-default-cycle", ["X = TypeVar('X', default=Y)", "Y = TypeVar('Y', default=X)"]),
    ("paramspec-default-later", ["X = ParamSpec('X', default=[Y])", "Y = int"]),
    ("typevartuple-default", ["X = TypeVarTuple('X', default=Unpack[Tuple[Y, ...]])", "Y = X"]),
    ("namedtuple-func-cycle", ["X = NamedTuple('X', [('a', Y)])", "Y = X"]),
    ("namedtuple-func-later", ["X = NamedTuple('X', [('a', 'Y'), ('b', Y)])", "class Y(X): pass"]),
    ("namedtuple-class-cycle", ["class X(NamedTuple):\n    a: Y", "class Y(NamedTuple):\n    b: X"]),
    ("collections-namedtuple", ["import collections\nX = collections.namedtuple('X', Y)", "Y = X"]),
    ("typeddict-func-cycle", ["X = TypedDict('X', {'a': Y})", "Y = List[X]"]),
    ("typeddict-class-cycle", ["class X(TypedDict):\n    a: Y", "class Y(X):\n    b: 'X'"]),
    ("typeddict-base-alias", ["class X(A):\n    a: int", "A = TypedDict('A', {'k': X})"]),
    ("newtype-cycle", ["X = NewType('X', Y)", "Y = NewType('Y', X)"]),
    ("newtype-alias-cycle", ["X = NewType('X', Y)", "Y = X"]),
    ("newtype-self", ["X = NewType('X', 'X')"]),
    ("enum-func-later", ["X = enum.Enum('X', Y)", "Y = 'a b'"]),
    ("enum-func-cycle", ["X = enum.Enum('X', X)"]),
    ("enum-class-cycle", ["class X(enum.Enum):\n    A = Y", "Y = X.A"]),
    ("enum-base-cycle", ["class X(Y, enum.Enum): pass", "class Y(X): pass"]),
    ("protocol-cycle", ["class X(Protocol):\n    def m(self) -> 'Y': ...", "class Y(X, Protocol):\n    a: X"]),
    ("dataclass-cycle", ["@dataclasses.dataclass\nclass X(Y):\n    a: 'X'", "@dataclasses.dataclass\nclass Y(X):\n    b: X = X()"]),
    ("import-self", ["from main import X"]),
    ("import-self-star", ["from main import *\nX = Y", "Y = X"]),
    ("import-cycle-mod", ["from cyc import X", "Y = X"]),
    ("var-forward", ["X = Y()", "class Y: pass"]),
    ("func-forward", ["def X(a: Y) -> Y: return a", "Y = X"]),
    ("cond-def", ["if int():\n    X = Y\nelse:\n    class X: pass", "Y = X"]),
    ("del-then-use", ["class X: pass\ndel X", "Y = X"]),
    ("nested-class-cycle", ["class X:\n    class In(Y): pass", "class Y(X.In): pass"]),
    ("class-attr-alias-cycle", ["class X:\n    A = Y\n    a: A", "Y = X.A"]),
]

USES: list[tuple[str, str]] = [
    ("annot", "v: X"), ("annot-generic", "v: List[X]"), ("annot-str", "v: 'X'"), ("annot-optional-value", "v: Optional[X] = None"),
    ("type-comment", "v = None  # type: X"), ("func-sig", "def f(a: X, *b: X, **c: X) -> X: return a"),
    ("func-body", "def f() -> None:\n    v: X\n    w = X\n    def g(a: X) -> X: return a"),
    ("method", "class C:\n    a: X\n    def m(self, a: X) -> 'X': return a"),
    ("base", "class C(X): pass"), ("generic-base", "class C(List[X]): pass"), ("base-subscript", "class C(X[int]): pass"),
    ("metaclass", "class C(metaclass=X): pass"), ("cast", "v = cast(X, 1)"), ("call", "v = X()"), ("isinstance", "isinstance(1, X)"),
    ("assign", "v = X"), ("alias-of", "A2 = X\nv: A2"), ("alias-generic-of", "A2 = Dict[X, X]\nv: A2"), ("attr", "v = X.attr"),
    ("subscript", "v: X[int]"), ("typevar-bound", "U = TypeVar('U', bound=X)\ndef f(a: U) -> U: return a"),
    ("typevar-values", "U = TypeVar('U', X, int)"), ("namedtuple-field", "N = NamedTuple('N', [('a', X)])"),
    ("namedtuple-class-field", "class N(NamedTuple):\n    a: X"), ("typeddict-field", "D = TypedDict('D', {'a': X})"),
    ("typeddict-class-field", "class D(TypedDict):\n    a: Required[X]"), ("newtype-of", "N2 = NewType('N2', X)"),
    ("callable", "v: Callable[[X], X]"), ("type-of", "v: Type[X]"), ("literal", "v: Literal[X]"), ("annotated", "v: Annotated[X, X]"),
    ("final", "v: Final[X] = 1"), ("classvar", "class C:\n    v: ClassVar[X]"), ("tuple", "v: Tuple[X, ...]"), ("unpack", "v: Tuple[Unpack[X]]"),
    ("concatenate", "v: Callable[Concatenate[X, ...], X]"), ("typeguard", "def f(a: object) -> TypeGuard[X]: ..."),
    ("decorator", "@X\ndef f(): pass"), ("class-decorator", "@X\nclass C: pass"), ("with", "with X() as v: pass"),
    ("except", "try: pass\nexcept X: pass"), ("for", "for v in X: pass"), ("default-arg", "def f(a=X): pass"),
    ("reveal", "reveal_type(X)"), ("generic-class-arg", "class G(Generic[T0]): pass\nT0 = TypeVar('T0')\nv: G[X]"),
    ("overload-sig", "@overload\ndef f(a: X) -> X: ...\n@overload\ndef f(a: int) -> int: ...\ndef f(a): return a"),
    ("property-type", "class C:\n    @property\n    def p(self) -> X: ...\n    @p.setter\n    def p(self, v: X) -> None: ..."),
    ("self-attr", "class C:\n    def __init__(self) -> None:\n        self.a: X = X()\n        self.b = []  # type: X"),
    ("lambda", "v = lambda a=X: X"), ("comprehension", "v = [X for X in X]"), ("match-class", "match 1:\n    case X(): pass"),
    ("star-import-use", "from main import *\nv: X"), ("global-in-func", "def f():\n    global X\n    X = X"),
    ("type-param-bound", "def f[T2: X](a: T2) -> T2: return a"), ("type-stmt-of", "type A3 = list[X]\nv: A3"),
    ("enum-value", "class E(enum.Enum):\n    A = X"), ("dataclass-field", "@dataclasses.dataclass\nclass DC:\n    a: X\n    b: X = X()"),
    ("protocol-member", "class P(Protocol):\n    a: X\n    def m(self) -> X: ..."), ("del", "del X"), ("assert-type", "assert_type(X, X)"),
]


def _ind(src: str, n: int = 1) -> str:
    return "\n".join("    " * n + ln for ln in src.split("\n"))


def gen_directed() -> list[dict[str, Any]]:
    out: list[dict[str, Any]] = []

    def add(name: str, src: str, extra: dict[str, str] | None = None, args: list[str] | None = None, raw: bool = False) -> None:
        files = {"main.py": src if raw else HDR + src + ("" if src.endswith("\n") else "\n")}
        if extra:
            files.update(extra)
        out.append({"name": name, "files": files, "args": args or [], "targets": ["main.py"], "key": None})

    # ---- A. cyclic / forward shapes x use x position (before the definitions, between them, after them)
    cyc_mod = {"cyc.py": "from main import X, Y\nclass Z(X): pass\nX = Y\n"}
    for dname, defs in CYCLIC_DEFS:
        extra = cyc_mod if dname == "import-cycle-mod" else None
        add(f"cyc:{dname}:alone", "\n".join(defs), extra)
        for uname, use in USES:
            add(f"cyc:{dname}:{uname}:before", "\n".join([use] + defs), extra)
            if len(defs) > 1:
                add(f"cyc:{dname}:{uname}:between", "\n".join(defs[:1] + [use] + defs[1:]), extra)
            if uname in ("annot", "base", "func-body", "method", "alias-of", "namedtuple-field", "typevar-bound", "call"):
                add(f"cyc:{dname}:{uname}:after", "\n".join(defs + [use]), extra)
    # the same shapes inside a class body and inside a function body (a selection of uses)
    for dname, defs in CYCLIC_DEFS:
        if any(d.startswith(("type ", "from ", "import ")) for d in defs):
            continue
        for uname, use in USES[:4] + [u for u in USES if u[0] in ("base", "alias-of", "call", "namedtuple-field")]:
            body = "\n".join([use] + defs)
            add(f"cyc-in-class:{dname}:{uname}", "class Outer:\n" + _ind(body))
            add(f"cyc-in-func:{dname}:{uname}", "def outer() -> None:\n" + _ind(body))

    # ---- B1. multi-part properties: @property p, k stray plain defs, setter/deleter in every order, strays at every position
    getter = "    @property\n    def p(self) -> int: return 1"
    stray = "    def p(self) -> int: return 2"
    parts = {"S": "    @p.setter\n    def p(self, v: int) -> None: pass", "D": "    @p.deleter\n    def p(self) -> None: pass",
             "G": "    @p.getter\n    def p(self) -> int: return 3", "W": "    @q.setter\n    def p(self, v: int) -> None: pass",
             "O": "    @overload\n    def p(self) -> int: ...", "N": "    p = 1", "A": "    @abc.abstractmethod\n    def p(self) -> int: ...",
             "F": "    @p.setter\n    @functools.wraps(int)\n    def p(self, v: int) -> None: pass", "X": "    x = 0"}
    orders = ["", "S", "D", "SD", "DS", "SS", "G", "W", "O", "N", "A", "F", "SDS", "X", "XS", "SX"]
    for order in orders:
        for k in (0, 1, 2, 3):
            seq = [parts[c] for c in order]
            for pos in sorted({0, len(seq)} | ({1} if len(seq) > 1 else set())):
                items = seq[:pos] + [stray] * k + seq[pos:]
                add(f"prop:{order or '-'}:stray{k}@{pos}", "class C:\n" + "\n".join([getter] + items) + "\nc = C()\nc.p = 1\nreveal_type(c.p)\ndel c.p")
                if k and order in ("", "S", "SD"):
                    add(f"prop-module:{order or '-'}:stray{k}@{pos}", "\n".join(ln[4:] for ln in "\n".join([getter] + items).split("\n")))
    for k in (1, 2, 3):      # strays BEFORE the property, property twice, cached_property, property parts under `if`
        add(f"prop:stray-before{k}", "class C:\n" + "\n".join([stray] * k + [getter, parts["S"]]))
        add(f"prop:twice{k}", "class C:\n" + "\n".join([getter] * k + [parts["S"]] + [getter]))
        add(f"prop:cached{k}", "class C:\n    @functools.cached_property\n    def p(self) -> int: return 1\n" + "\n".join([stray] * k + [parts["S"]]))
        add(f"prop:in-if{k}", "class C:\n" + getter + "\n    if int():\n" + _ind("\n".join([stray] * k + [parts["S"]])))

    # ---- B2. overload sequences interrupted by other statements
    ov = "@overload\ndef f(a: int) -> int: ..."
    ov2 = "@overload\ndef f(a: str) -> str: ..."
    impl = "def f(a): return a"
    inter = {"assign": "z = 1", "pass": "pass", "otherdef": "def g(): pass", "class": "class K: pass", "expr": "f", "samevar": "f = 1",
             "if": "if int():\n    @overload\n    def f(a: bytes) -> bytes: ...", "import": "import os", "del": "del f", "otherov": "@overload\ndef g(a: int) -> int: ...",
             "prop": "@property\ndef f(self) -> int: ...", "docstring": "\"doc\"", "typed": "f: Callable[..., Any]"}
    for n_ov in (0, 1, 2, 3):
        for has_impl in (False, True):
            base = ([ov, ov2, ov][:n_ov]) + ([impl] if has_impl else [])
            tag = f"{n_ov}:{'impl' if has_impl else 'noimpl'}"
            add(f"overload:{tag}", "\n".join(base) or "pass")
            for iname, istmt in inter.items():
                for pos in range(len(base) + 1):
                    seq = base[:pos] + [istmt] + base[pos:]
                    add(f"overload:{tag}:{iname}@{pos}", "\n".join(seq))
                    if iname in ("assign", "pass", "otherdef", "samevar", "if", "prop") and n_ov >= 1:
                        add(f"overload-in-class:{tag}:{iname}@{pos}", "class C:\n" + _ind("\n".join(seq).replace("(a", "(self, a")))
    for deco in ("staticmethod", "classmethod", "property", "abc.abstractmethod", "final", "functools.cache", "contextlib.contextmanager", "no_type_check"):
        add(f"overload:mixed-{deco}", f"class C:\n    @overload\n    @{deco}\n    def f(a: int) -> int: ...\n    @{deco}\n    @overload\n    def f(a: str) -> str: ...\n    @{deco}\n    def f(a): return a")
    add("overload:stub", "import m\nreveal_type(m.f)", {"m.pyi": "from typing import overload\n@overload\ndef f(a: int) -> int: ...\nx: int\n@overload\ndef f(a: str) -> str: ...\n"})

    # ---- B3. decorator lists on functions, methods, classes
    decos = ["undefined_name", "undefined.attr", "int", "int()", "(lambda f: f)", "1", "None", "property", "staticmethod", "classmethod",
             "abc.abstractmethod", "final", "override", "overload", "dataclasses.dataclass", "dataclasses.dataclass(frozen=True)", "no_type_check",
             "type_check_only", "contextlib.contextmanager", "functools.cache", "functools.singledispatch", "functools.total_ordering", "runtime_checkable",
             "dataclass_transform()", "deprecated('x')", "enum.unique", "f", "C", "C.m", "(yield)", "[*x][0]"]
    for d1 in decos:
        add(f"deco:func:{d1}", f"@{d1}\ndef f(a: int = 1) -> int: return a\nreveal_type(f)")
        add(f"deco:method:{d1}", f"class C:\n    @{d1}\n    def m(self, a: int = 1) -> int: return a\nreveal_type(C().m)\nreveal_type(C.m)")
        add(f"deco:class:{d1}", f"@{d1}\nclass C:\n    a: int = 1\nreveal_type(C)\nC()")
        for d2 in ("property", "staticmethod", "classmethod", "overload", "abc.abstractmethod", "final", "functools.cache"):
            add(f"deco:method2:{d1}+{d2}", f"class C:\n    @{d1}\n    @{d2}\n    def m(self) -> int: return 1\n    @{d2}\n    @{d1}\n    def n(self) -> int: return 1\nC().m\nC.n")

    # ---- B4. duplicate definitions of every kind x every kind, module level and class level
    kinds = {"def": "def N(): pass", "class": "class N: pass", "var": "N = 1", "annvar": "N: int = 1", "import": "import os as N", "from": "from os import path as N",
             "alias": "N = List[int]", "typevar": "N = TypeVar('N')", "namedtuple": "N = NamedTuple('N', [('a', int)])", "typeddict": "N = TypedDict('N', {'a': int})",
             "newtype": "N = NewType('N', int)", "enum": "N = enum.Enum('N', 'a b')", "overload": "@overload\ndef N(a: int) -> int: ...\n@overload\ndef N(a: str) -> str: ...\ndef N(a): return a",
             "property": "@property\ndef N(self) -> int: ...", "for": "for N in [1]: pass", "with": "with open('x') as N: pass", "except": "try: pass\nexcept Exception as N: pass",
             "type-stmt": "type N = int", "func-param": "def g(N): N = 1", "global-decl": "def g():\n    global N\n    N = 2", "del": "del N", "walrus": "(N := 1)",
             "match": "match 1:\n    case N: pass", "classdef-nt": "class N(NamedTuple):\n    a: int", "classdef-enum": "class N(enum.Enum):\n    a = 1", "star": "from os import *"}
    for k1, s1 in kinds.items():
        for k2, s2 in kinds.items():
            add(f"dup:{k1}+{k2}", s1 + "\n" + s2 + "\nreveal_type(N)")
    for k1, s1 in kinds.items():
        for k2 in ("def", "class", "var", "alias", "typevar", "namedtuple", "import", "overload", "property", "del"):
            add(f"dup-in-class:{k1}+{k2}", "class Outer:\n" + _ind(s1 + "\n" + kinds[k2] + "\nv: N"))

    # ---- B5. control flow statements in odd places
    flows = ["return", "return 1", "yield", "yield 1", "yield from []", "await x", "break", "continue", "raise", "pass", "global q", "nonlocal q", "del q", "import q",
             "from q import *", "assert 0", "x = yield", "x = await y", "async for i in y: pass", "async with y: pass", "[await z for z in y]", "[i async for i in y]",
             "(yield)", "lambda: (yield)", "lambda: (await y)", "lambda: (z := 1)", "[(z := i) for i in y]", "__class__", "super().m()", "super", "type x = int",
             "class K: return", "def k(): nonlocal q", "def k(): global k; k = 1", "while 1: break\nelse: continue", "for i in y: pass\nelse: break",
             "try: pass\nfinally: return", "try: pass\nfinally: break", "try: pass\nfinally: continue", "with y: return", "match y:\n    case _ if (yield): pass"]
    places = {"module": "{S}", "class": "class C:\n{I}", "func": "def f():\n{I}", "async-func": "async def f():\n{I}", "method": "class C:\n    def m(self):\n{II}",
              "nested-class-in-func": "def f():\n    class C:\n{II}", "loop": "for i in y:\n{I}", "loop-in-class": "class C:\n    for i in y:\n{II}",
              "func-in-loop": "while 1:\n    def f():\n{II}", "class-in-loop": "while 1:\n    class C:\n{II}", "if": "if y:\n{I}", "try-finally": "try:\n    pass\nfinally:\n{I}",
              "with": "with y:\n{I}", "match": "match y:\n    case 1:\n{II}", "except-star": "try:\n    pass\nexcept* E:\n{I}", "lambda-default": "def f(a=lambda: 1):\n{I}"}
    for fl in flows:
        for pname, tmpl in places.items():
            src = tmpl.replace("{S}", fl).replace("{II}", _ind(fl, 2)).replace("{I}", _ind(fl, 1))
            add(f"flow:{pname}:{fl.splitlines()[0][:24]}", "y: Any = 1\n" + src, args=["--check-untyped-defs"])
    for e in ("(yield)", "(await y)", "(yield from y)", "(z := 1)", "lambda: (yield)", "[i for i in (yield)]", "{**(yield)}", "f'{(yield)}'", "... if (yield) else ..."):
        for holder in ("def f(a={E}): pass", "def f(a: {E}): pass", "def f() -> {E}: pass", "@{E}\ndef f(): pass", "class C({E}): pass", "class C(metaclass={E}): pass",
                       "x: {E} = 1", "x: int = {E}", "class C:\n    x = {E}", "class C:\n    x: {E}", "type A = {E}", "def f[T: {E}](): pass", "del {E}", "assert {E}, {E}",
                       "for i in {E}: pass", "with {E} as w: pass", "x = [{E} for i in y]", "x = {{ {E}: {E} }}", "raise {E} from {E}", "match {E}:\n    case _: pass"):
            add(f"flow-expr:{holder.splitlines()[0][:22]}:{e}", "y: Any = 1\n" + holder.replace("{{", "{").replace("}}", "}").replace("{E}", e), args=["--check-untyped-defs"])

    # ---- C. special forms with degenerate argument lists
    forms = ["NamedTuple()", "NamedTuple('X')", "NamedTuple('X', [])", "NamedTuple('X', [('a',)])", "NamedTuple('X', [('a', int, 1)])", "NamedTuple('X', [(1, int)])", "NamedTuple('X', 'a b')",
             "NamedTuple('X', [('a', int)], x=1)", "NamedTuple('Y', [('a', int)])", "NamedTuple('X', [('a', int), ('a', str)])", "NamedTuple('X', [('_a', int)])", "NamedTuple('X', a=int)",
             "NamedTuple(name='X', fields=[])", "NamedTuple('X', [*y])", "NamedTuple('X', y)", "NamedTuple(*y)", "NamedTuple('X', [('a', 'X')])", "NamedTuple('X', [('a', List['X'])])",
             "collections.namedtuple('X', 'a a')", "collections.namedtuple('X', ['def'], rename=True)", "collections.namedtuple('X', 'a', defaults=(1, 2))", "collections.namedtuple('X')",
             "collections.namedtuple('X', 1)", "collections.namedtuple('X', ['a', 1])",
             "TypedDict()", "TypedDict('X')", "TypedDict('X', {})", "TypedDict('X', {1: int})", "TypedDict('X', {'a': 1})", "TypedDict('X', {'a': int}, total=y)", "TypedDict('X', a=int)",
             "TypedDict('Y', {'a': int})", "TypedDict('X', {'a': 'X'})", "TypedDict('X', {**y})", "TypedDict('X', y)", "TypedDict('X', {'a': Required[NotRequired[int]]})", "TypedDict('X', {'a': ReadOnly['X']}, closed=True)",
             "TypedDict('X', {'a': int}, total=False, extra_items=X)", "NewType()", "NewType('X')", "NewType('X', 1)", "NewType('X', int, 1)", "NewType('Y', int)", "NewType('X', Any)", "NewType('X', Union[int, str])",
             "NewType('X', List['X'])", "NewType('X', Protocol)", "NewType('X', TypedDict('D', {}))", "NewType(*y)", "NewType('X', tp=int)", "enum.Enum()", "enum.Enum('X')", "enum.Enum('X', 1)", "enum.Enum('X', [])",
             "enum.Enum('X', 'a a')", "enum.Enum('X', [('a', 1), ('a', 2)])", "enum.Enum('X', {'a': X})", "enum.Enum('Y', 'a')", "enum.Enum('X', y)", "enum.Enum('X', names='a', module=1, start=y)",
             "enum.Enum('X', ['a', 1])", "enum.IntFlag('X', 'a', type=X)", "enum.Enum(*y)", "TypeVar()", "TypeVar('X', bound=1)", "TypeVar('X', int)", "TypeVar('X', int, bound=str)",
             "TypeVar('Y')", "TypeVar('X', covariant=True, contravariant=True)", "TypeVar('X', covariant=y)", "TypeVar('X', bound=X)", "TypeVar('X', 'X', int)", "TypeVar('X', default=X)", "TypeVar('X', infer_variance=1)",
             "TypeVar(name='X')", "TypeVar('X', *y)", "TypeVar('X', **y)", "TypeVar('X', bound=List['X'])", "ParamSpec()", "ParamSpec('Y')", "ParamSpec('X', bound=int)", "ParamSpec('X', default=int)",
             "ParamSpec('X', default=[X])", "ParamSpec('X', default=...)", "TypeVarTuple()", "TypeVarTuple('Y')", "TypeVarTuple('X', default=int)", "TypeVarTuple('X', default=Unpack[X])", "TypeAliasType('X', int)",
             "TypeAliasType('X', 'X')", "TypeAliasType('Y', int, type_params=(y,))", "TypeAliasType('X', List[X], type_params=())", "cast()", "cast(int)", "cast(1, 1)", "cast('X', 1)", "cast(int, 1, 2)", "cast(typ=int, val=1)",
             "reveal_type()", "reveal_type(1, 2)", "reveal_locals(1)", "assert_type(1)", "assert_type()", "Generic[int]", "Protocol[int]", "List[int]()", "Callable[[X], X]", "Literal[X]", "Annotated[int]", "Annotated[()]",
             "Union[()]", "Optional[int, str]", "Tuple[()]", "Tuple[...]", "Tuple[int, ..., int]", "Callable[...]", "Callable[int]", "Callable[[...], int]", "Callable[[int], ...]", "Concatenate[int]", "Concatenate[...]",
             "Concatenate[int, int]", "Unpack[int]", "Unpack[X]", "Type[()]", "Type[int, str]", "ClassVar[int, str]", "Final[int, str]", "Required[int]", "NotRequired[()]", "TypeGuard[int, str]", "Self[int]", "Never[int]",
             "LiteralString[int]", "type[X][X]", "super()", "super(X)", "super(X, X).x", "dataclasses.field()", "dataclasses.make_dataclass('X', [('a', 'X')])", "functools.partial(X)", "functools.partial()",
             "functools.total_ordering(1)", "property()", "property(X, X, X, X)", "staticmethod()", "classmethod(X)", "type('X', (), {})", "type('X', (X,), {'a': X})", "type(X)", "__import__('X')", "namedtuple('X', 'a')"]
    for f in forms:
        add(f"form:{f[:40]}", f"import collections\ny: Any = 1\nX = {f}\nv: X\nw = X\nclass Sub(X): pass\ndef g(a: X) -> X: return X()")
        add(f"form-in-class:{f[:40]}", f"import collections\ny: Any = 1\nclass C:\n    X = {f}\n    v: X\n    def m(self, a: X) -> 'C.X': return self.X()")
        add(f"form-in-func:{f[:40]}", f"import collections\ny: Any = 1\ndef fn() -> None:\n    X = {f}\n    v: X\n    class Sub(X): pass\n    reveal_type(X)", args=["--check-untyped-defs"])
        add(f"form-as-base:{f[:40]}", f"import collections\ny: Any = 1\nclass C({f}):\n    a: int = 1\nC()\nclass D(C, {f}): pass")
        add(f"form-as-annot:{f[:40]}", f"import collections\ny: Any = 1\nv: {f}\ndef g(a: {f} = 1, *b: {f}) -> {f}: return a")

    # ---- D. empty / minimal bodies and files
    for nm, src in {"empty": "", "only-comment": "# x\n", "only-docstring": "\"d\"\n", "only-pass": "pass\n", "only-ellipsis": "...\n", "bom": "\ufeffx = 1\n", "crlf": "x = 1\r\ny = 2\r\n",
                    "formfeed": "x = 1\n\x0cy = 2\n", "no-newline": "x = 1", "type-ignore-top": "# type: ignore\nx: int = ''\n", "mypy-comment": "# mypy: disallow-any-expr, bogus-flag=1\nx = 1\n",
                    "encoding": "# -*- coding: latin-1 -*-\nx = '\xe9'\n", "future": "from __future__ import annotations, bogus\nx: X\n", "all": "__all__ = ['a', 1, *x]\n__all__ += y\n__all__.append(z)\n",
                    "slots": "class C:\n    __slots__ = 1\nclass D:\n    __slots__ = ('a', *x)\nclass E:\n    __slots__ = 'a'\n    a = 1\n", "match-args": "class C:\n    __match_args__ = 1\nmatch C():\n    case C(1): pass\n",
                    "dunder-class-getitem": "class C:\n    __class_getitem__ = 1\nC[int]\nv: C[int]\n", "init-subclass": "class C:\n    def __init_subclass__(cls, **kw: X) -> None: ...\nclass D(C, a=1, metaclass=Y): pass\n",
                    "getattr-module": "def __getattr__(name): ...\nfrom main import anything\nv: anything\n", "path-dunder": "__path__ = 1\n__file__: int\n__name__ = X\n"}.items():
        add(f"file:{nm}", src, raw=True)
    fam_idx: dict[str, int] = {}
    for e in out:
        parts_ = e["name"].split(":")
        fam = parts_[0]
        i = fam_idx[fam] = fam_idx.get(fam, -1) + 1
        if fam == "cyc":
            q = parts_[2] == "alone" or (parts_[2] in QUICK_USES and parts_[-1] in ("before", "between"))
        elif fam in ("cyc-in-class", "cyc-in-func"):
            q = parts_[2] == "annot"
        elif fam in ("prop", "prop-module", "file"):
            q = True
        else:
            q = i % 6 == 0
        e["q"] = q          # member of the quick-tier subset
    return out


QUICK_USES = {"annot", "base", "call", "alias-of", "func-body", "metaclass", "namedtuple-field", "type-comment"}


# ------------------------------------------------------------------ directed corpus, round 3 families

NS = [0, 1, 2, 3, 10, 11, 12]


def _tuple_t(n: int, t: str = "int") -> str:
    return "Tuple[()]" if n == 0 else "Tuple[" + ", ".join([t] * n) + "]"


def _tuple_v(n: int, v: str = "1") -> str:
    return "()" if n == 0 else "(" + ", ".join([v] * n) + ("," if n == 1 else "") + ")"


def gen_directed_more() -> list[dict[str, Any]]:
    out: list[dict[str, Any]] = []

    def add(name: str, src: str, extra: dict[str, str] | None = None, args: list[str] | None = None, q: bool = False) -> None:
        files = {"main.py": HDR + src + ("" if src.endswith("\n") else "\n")}
        if extra:
            files.update(extra)
        out.append({"name": name, "files": files, "args": args or [], "targets": ["main.py"], "key": None, "q": q})

    # ---- A2. generic CLASSES whose type variable (bound / values / default / PEP 695 bound) refers into a cyclic shape
    gen_uses = {
        "bound-str": "T9 = TypeVar('T9', bound='X')\nclass G9(Generic[T9]):\n    pass",
        "bound": "T9 = TypeVar('T9', bound=X)\nclass G9(Generic[T9]):\n    a: T9",
        "bound-list": "T9 = TypeVar('T9', bound='List[X]')\nclass G9(Generic[T9]): pass\nclass H9(G9[Any]): pass",
        "values": "T9 = TypeVar('T9', 'X', int)\nclass G9(Generic[T9]): pass",
        "default": "T9 = TypeVar('T9', default='X')\nclass G9(Generic[T9]): pass\nv9: G9",
        "generic-and-base": "T9 = TypeVar('T9', bound='X')\nclass G9(Generic[T9], X): pass",
        "protocol": "T9 = TypeVar('T9', bound='X')\nclass G9(Protocol[T9]):\n    def m(self) -> T9: ...",
        "pep695-bound": "class G9[T: X]:\n    pass",
        "pep695-func": "def g9[T: X](a: T) -> T: return a",
        "paramspec-generic": "P9 = ParamSpec('P9')\nclass G9(Generic[P9]):\n    f: Callable[P9, X]",
        "self-bound-generic": "T9 = TypeVar('T9', bound='G9[X]')\nclass G9(Generic[T9]): pass",
        "typevartuple-generic": "Ts9 = TypeVarTuple('Ts9')\nclass G9(Generic[Unpack[Ts9]]): pass\nv9: G9[X, Unpack[Tuple[X, ...]]]",
    }
    for dname, defs in CYCLIC_DEFS:
        for uname, use in gen_uses.items():
            add(f"cyc-generic:{dname}:{uname}:before", "\n".join([use] + defs), q=uname in ("bound-str", "pep695-bound"))
            add(f"cyc-generic:{dname}:{uname}:after", "\n".join(defs + [use]), q=uname == "bound")
            if len(defs) > 1:
                add(f"cyc-generic:{dname}:{uname}:between", "\n".join(defs[:1] + [use] + defs[1:]))

    # ---- A3. reverse forward-reference chains (every definition refers to the NEXT one), lengths around MAX_ITERATIONS
    for n in (2, 5, 10, 15, 18, 19, 20, 21, 22, 25, 30, 40, 60):
        qq = n in (19, 21, 30)
        add(f"chain:class-bases:{n}", "\n".join(f"class C{i}(C{i+1}): pass" for i in range(n)) + f"\nclass C{n}: pass", q=qq)
        add(f"chain:aliases:{n}", "\n".join(f"C{i} = C{i+1}" for i in range(n)) + f"\nclass C{n}: pass\nv: C0", q=qq)
        add(f"chain:generic-aliases:{n}", "\n".join(f"C{i} = List[C{i+1}]" for i in range(n)) + f"\nC{n} = int\nv: C0", q=n == 21)
        add(f"chain:typevar-bounds:{n}", "\n".join(f"T{i} = TypeVar('T{i}', bound='G{i+1}[Any]')\nclass G{i}(Generic[T{i}]): pass" for i in range(n)) + f"\nclass G{n}(Generic[T0]): pass", q=n == 21)
        add(f"chain:namedtuples:{n}", "\n".join(f"N{i} = NamedTuple('N{i}', [('a', N{i+1})])" for i in range(n)) + f"\nN{n} = int", q=n == 21)
        add(f"chain:class-attr-annots:{n}", "\n".join(f"class C{i}(C{i+1}):\n    a: 'C{i+1}'\n    def m(self) -> 'C{(i+2) % (n+1)}': ..." for i in range(n)) + f"\nclass C{n}: pass")
        add(f"chain:metaclasses:{n}", "\n".join(f"class C{i}(metaclass=C{i+1}): pass" for i in range(n)) + f"\nclass C{n}(type): pass")
        add(f"chain:newtypes:{n}", "\n".join(f"C{i} = NewType('C{i}', C{i+1})" for i in range(n)) + f"\nclass C{n}: pass")
        add(f"chain:cycle-closed:{n}", "\n".join(f"class C{i}(C{(i+1) % n}): pass" for i in range(n)))
        if n <= 25:
            add(f"chain:modules:{n}", "import m0", {f"m{i}.py": (f"from m{i+1} import C{i+1}\nclass C{i}(C{i+1}): pass\n" if i < n else f"class C{i}: pass\n") for i in range(n + 1)})

    # ---- M. message construction: every len/index/slice-dependent formatting helper of messages.py with 0/1/2/3/10/11/12 items
    for a in NS:
        for b in NS:
            qq = (a in (0, 1) and b >= 11) or (a, b) in ((11, 12), (12, 1), (2, 2))
            add(f"msg:tuple-assign:{a}<-{b}", f"x: {_tuple_t(a)} = {_tuple_v(b)}\ny: {_tuple_t(a, 'str')} = {_tuple_v(b)}", q=qq)
            add(f"msg:tuple-return:{a}<-{b}", f"def f() -> {_tuple_t(a)}:\n    return {_tuple_v(b, chr(39) + 's' + chr(39))}", q=qq and a == 0)
            add(f"msg:tuple-arg:{a}<-{b}", f"def f(a: {_tuple_t(a)}) -> None: ...\nf({_tuple_v(b)})\nt: {_tuple_t(b, 'str')}\nf(t)", q=(a, b) == (1, 11))
            add(f"msg:tuple-var-tuple:{a}<-{b}", f"x: {_tuple_t(a)}\ny: {_tuple_t(b, 'str')}\nx = y\ny = x\nz: Tuple[int, ...] = y\nw: List[int] = x")
            add(f"msg:unpack:{a}<-{b}", (", ".join(f"v{i}" for i in range(a)) + ("," if a == 1 else "") + f" = {_tuple_v(b)}") if a else f"() = {_tuple_v(b)}")
            add(f"msg:call-args:{a}<-{b}", "def f(" + ", ".join(f"a{i}: int" for i in range(a)) + ") -> None: ...\nf(" + ", ".join(["1"] * b) + ")\nf(" + ", ".join(f"k{i}=1" for i in range(b)) + ")\nf(*" + _tuple_v(b) + ")", q=(a, b) in ((11, 0), (0, 11), (3, 12)))
            add(f"msg:callable-assign:{a}<-{b}", "def f(" + ", ".join(f"a{i}: int" for i in range(b)) + ") -> None: ...\nx: Callable[[" + ", ".join(["str"] * a) + "], int] = f\nreveal_type(f)")
            add(f"msg:typeddict-keys:{a}<-{b}", "class D(TypedDict):\n" + ("".join(f"    k{i}: int\n" for i in range(a)) or "    pass\n") + "d: D = {" + ", ".join(f"'x{i}': 1" for i in range(b)) + "}\nD(" + ", ".join(f"y{i}=1" for i in range(b)) + ")\nd2 = D()", q=(a, b) in ((11, 0), (0, 11), (12, 12)))
            add(f"msg:override-sig:{a}<-{b}", "class A:\n    def f(self" + "".join(f", a{i}: int" for i in range(a)) + ") -> None: ...\nclass B(A):\n    def f(self" + "".join(f", b{i}: str" for i in range(b)) + ") -> int: ...")
            add(f"msg:type-args:{a}<-{b}", "class G(Generic[" + ", ".join(f"T{i}" for i in range(a)) + "]): pass\nv: G[" + ", ".join(["int"] * b) + "]\nw: List[" + ", ".join(["int"] * b) + "]" if a and b else f"v: Dict[{', '.join(['int'] * max(a, b, 1))}]",
                )
    tvs = "\n".join(f"T{i} = TypeVar('T{i}')" for i in range(13)) + "\n"
    for e in out:
        if e["name"].startswith("msg:type-args"):
            e["files"]["main.py"] = e["files"]["main.py"].replace(HDR, HDR + tvs)
    for n in NS:
        qn = n in (0, 1, 11)
        classes = "".join(f"class K{i}:\n    a{i}: int\n" for i in range(max(n, 1)))
        un = "Union[" + ", ".join(f"K{i}" for i in range(n)) + "]" if n else "NoReturn"
        add(f"msg:union-assign:{n}", classes + f"x: {un} = object()\ny: int = cast({un!r}, 1)\nu: {un}\nu.nope\nu.a0\nu()\nu + 1\nu[0]\nfor _ in u: pass", q=qn)
        add(f"msg:union-optional:{n}", classes + f"x: Optional[{un}]\nx.a0\ny: {un} = None\nreveal_type(x)", args=["--strict-optional"])
        lits = "Literal[" + ", ".join(f"'v{i}'" for i in range(n)) + "]" if n else "Literal['only']"
        add(f"msg:literal-union:{n}", f"x: {lits} = 'zzz'\ndef f(a: {lits}) -> None: ...\nf('q')\ny: str\nf(y)\nreveal_type(x)", q=qn)
        add(f"msg:overload-variants:{n}", "".join(f"@overload\ndef f(a: K{i}) -> K{i}: ...\n" for i in range(n)) + classes + ("def f(a): return a\n" if n else "def f(a: int) -> int: return a\n") + "f('s')\nf()\nf(1, 2)\nreveal_type(f)", q=qn or n == 3)
        add(f"msg:overload-override:{n}", classes + "class A:\n" + "".join(f"    @overload\n    def f(self, a: K{i}) -> K{i}: ...\n" for i in range(n)) + "    def f(self, a=None): return a\nclass B(A):\n    def f(self, a: str) -> str: ...")
        add(f"msg:missing-positional:{n}", "def f(" + ", ".join(f"a{i}: int" for i in range(n)) + ") -> None: ...\nf()\nclass C:\n    def __init__(self" + "".join(f", a{i}: int" for i in range(n)) + ") -> None: ...\nC()", q=qn)
        add(f"msg:missing-named:{n}", "def f(*" + "".join(f", a{i}: int" for i in range(n)) + ") -> None: ...\nf()\nf(1)" if n else "def f(*, a: int) -> None: ...\nf()")
        add(f"msg:unexpected-keywords:{n}", "def f(colour: int = 1, color_1: int = 1, colors: int = 1, collar: int = 1, cooler: int = 1) -> None: ...\nf(" + ", ".join(f"colou{'r' * (i + 2)}=1" for i in range(n)) + ")\nf(**{'a': 1})\nf(color=1)", q=qn)
        add(f"msg:protocol-missing:{n}", "class P(Protocol):\n" + ("".join(f"    def m{i}(self) -> int: ...\n    a{i}: int\n" for i in range(n)) or "    pass\n") + "class C: pass\nx: P = C()\ndef f(p: P) -> None: ...\nf(C())\nf(1)", q=qn or n == 2)
        add(f"msg:protocol-conflicts:{n}", "class P(Protocol):\n" + ("".join(f"    def m{i}(self, a: int) -> int: ...\n    a{i}: int\n    @property\n    def p{i}(self) -> int: ...\n" for i in range(n)) or "    pass\n")
            + "class C:\n" + ("".join(f"    def m{i}(self, a: str, b: int = 1) -> str: ...\n    a{i}: ClassVar[str]\n    @overload\n    def p{i}(self) -> int: ...\n    @overload\n    def p{i}(self, a: int) -> str: ...\n    def p{i}(self, a=1): ...\n" for i in range(n)) or "    pass\n") + "x: P = C()\ny: Type[P] = C", q=qn or n == 3)
        add(f"msg:abstract-attrs:{n}", "class A(abc.ABC):\n" + ("".join(f"    @abc.abstractmethod\n    def m{i}(self) -> int: ...\n" for i in range(n)) or "    pass\n") + "A()\nclass B(A): pass\nB()\n@final\nclass F(A): pass", q=qn or n == 3)
        add(f"msg:implicit-abstract:{n}", "class A(Protocol):\n" + ("".join(f"    def m{i}(self) -> int: ...\n" for i in range(n)) or "    pass\n") + "class B(A): pass\nB()", q=n in (1, 3))
        add(f"msg:typeddict-missing-keys:{n}", "class D(TypedDict):\n" + ("".join(f"    k{i}: int\n" for i in range(n)) or "    pass\n") + "D()\nd: D = {}\nd['nope']\nd['k0']\ndel d['zz']\nd.get('a', 1)\nd.setdefault('q', 1)\nd.pop('w')\nd.update({'e': 1})\nd | {'r': 1}\nD(**{'t': 1})", q=qn or n == 2)
        pass  # (odd TypedDict keys: one program per key, below)
        add(f"msg:namedtuple-args:{n}", "N = NamedTuple('N', [" + ", ".join(f"('f{i}', int)" for i in range(n)) + "])\nN()\nN(" + ", ".join(["'s'"] * (n + 1)) + ")\nn: N\n" + ", ".join(f"v{i}" for i in range(n + 1)) + (", = n" if True else ""), q=qn)
        add(f"msg:dataclass-args:{n}", "@dataclasses.dataclass(order=True)\nclass DC:\n" + ("".join(f"    f{i}: int\n" for i in range(n)) or "    pass\n") + "DC()\nDC(" + ", ".join(["'s'"] * (n + 1)) + ")\nDC(**{'a': 1})\ndataclasses.replace(DC(), zz=1)\nmatch DC():\n    case DC(" + ", ".join(["1"] * (n + 1)) + "): pass")
        add(f"msg:enum-exhaustive:{n}", "class E(enum.Enum):\n" + ("".join(f"    M{i} = {i}\n" for i in range(n)) or "    pass\n") + "def f(e: E) -> int:\n    match e:\n        case E.M0: return 1\n    assert_never(e)\ndef g(e: E) -> int:\n    if e is E.M0: return 1\n    reveal_type(e)\n    assert_never(e)",
            args=["--enable-error-code", "exhaustive-match", "--warn-unreachable"], q=qn or n == 2)
        add(f"msg:typevar-values:{n}", "T = TypeVar('T', " + ", ".join(f"K{i}" for i in range(max(n, 2))) + ")\n" + "".join(f"class K{i}: pass\n" for i in range(max(n, 2))) + "def f(a: T) -> T: return a\nf('s')\nclass G(Generic[T]): pass\nv: G[str]")
        add(f"msg:tuple-index:{n}", f"t: {_tuple_t(n)}\nt[{n}]\nt[-{n + 1}]\nt[{n}:]\nt[::0]\nt[1:{n}:2]\nt['a']\nreveal_type(t[0:{n + 5}])", q=qn)
        add(f"msg:str-format:{n}", "'" + "%s " * n + "' % " + _tuple_v(n + 1) + "\n'" + "%s " * (n + 1) + "' % " + _tuple_v(n) + "\n'" + "{} " * (n + 1) + "'.format(" + ", ".join(["1"] * n) + ")\n'%(a)s %s' % {'b': 1}\n'{0} {} {a.b[0]!r:>{w}}'.format(1)\nb'%s' % 'x'", q=qn)
        add(f"msg:import-missing:{n}", "from os import " + (", ".join(f"nope{i}" for i in range(n)) or "nope") + "\nimport os\n" + "".join(f"os.pat{'h' * (i + 2)}\n" for i in range(n)) + "os.path.joi\nos.pth", q=qn)
        add(f"msg:attr-suggestions:{n}", "class C:\n" + ("".join(f"    value{i}: int\n" for i in range(n)) or "    pass\n") + "C().value\nC().valu\nC.value_\nC().values99 = 1", q=qn or n == 3)
        add(f"msg:reveal-locals:{n}", "def f(" + ", ".join(f"a{i}: int" for i in range(n)) + ") -> None:\n    reveal_locals()\nreveal_locals()\nclass C:\n    reveal_locals()", q=n == 0)
        add(f"msg:long-names:{n}", f"class {'L' * (20 * n + 1)}: pass\nx: int = {'L' * (20 * n + 1)}()\ndef {'f' * (30 * n + 1)}(a: {'L' * (20 * n + 1)}) -> None: ...\n{'f' * (30 * n + 1)}(1)\ny: Literal['{'s' * (40 * n + 1)}'] = 1\nreveal_type({'f' * (30 * n + 1)})", q=n in (0, 12))
        add(f"msg:nested-types:{n}", "x: " + "List[" * (n + 1) + "int" + "]" * (n + 1) + " = 1\ny: " + "Callable[[int], " * (n + 1) + "int" + "]" * (n + 1) + " = 1\nz: " + "Tuple[" * (n + 1) + "int" + ", str]" * (n + 1) + " = 1")
        add(f"msg:multiple-inheritance:{n}", "".join(f"class B{i}:\n    def m(self, a: K{i}) -> None: ...\n    x: K{i}\nclass K{i}: pass\n" for i in range(max(n, 1))) + "class C(" + ", ".join(f"B{i}" for i in range(max(n, 1))) + "): pass")
        add(f"msg:slots-and-final:{n}", "class A:\n    __slots__ = (" + "".join(f"'s{i}', " for i in range(n)) + ")\n    def __init__(self) -> None:\n" + ("".join(f"        self.t{i} = 1\n" for i in range(max(n, 1)))) + "class F:\n" + "".join(f"    c{i}: Final = {i}\n" for i in range(max(n, 1))) + "".join(f"F.c{i} = 0\n" for i in range(max(n, 1))))
    for nm, key in {"newline": "'x\\ny'", "dquote": "'\"'", "nul": "'\\x00'", "surrogate": "'\\udc80'", "long": "'" + "k" * 300 + "'", "bytes": "b'a'", "fstring": "f'{d}'",
                    "int": "1", "empty-tuple": "()", "cr": "'a\\rb'", "colon-error": "': error: x'", "bracket": "'[misc]'", "tab": "'a\\tb'", "nonbmp": "'\\U0001f600'"}.items():
        add(f"msg:typeddict-odd-key:{nm}", f"class D(TypedDict):\n    a: int\nd: D = {{'a': 1}}\nd[{key}]\nd[{key}] = 1\ne: D = {{{key}: 1}}\nD(**{{{key}: 1}})", q=nm in ("newline", "surrogate", "dquote"))
        add(f"msg:odd-attr-and-names:{nm}", f"getattr(object(), {key})\nx: Dict[str, int] = {{{key}: 's'}}\nreveal_type({key})\ndef f(a: Literal[{key}]) -> None: ...\nf('other')", q=nm == "newline")
    # odd literal contents in messages (surrogates, newlines, NUL, quotes) -- batch AND cache writer
    for nm, lit in {"surrogate": "\\udc80", "newline": "a\\nb", "nul": "\\x00", "quote": "\\\"", "cr": "a\\rb", "long": "x" * 500, "nonbmp": "\\U0001f600", "bidi": "\\u202e", "bytes-nonascii": "\\xff"}.items():
        add(f"msg:literal-content:{nm}", f"x: Literal[\"{lit}\"] = 1\ny: Literal[b\"{lit if nm != 'surrogate' and nm != 'nonbmp' and nm != 'bidi' else 'z'}\"] = 1\nreveal_type(x)\nclass E(enum.Enum):\n    A = \"{lit}\"\nreveal_type(E.A.value)\nz: Final = \"{lit}\"\nreveal_type(z)", q=True)
        add(f"msg:literal-content-cache:{nm}", f"import lib\nreveal_type(lib.x)", {"lib.py": f"from typing import Literal, Final\nx: Literal[\"{lit}\"]\nz: Final = \"{lit}\"\n"}, q=nm in ("surrogate", "newline"))
    return out


# ------------------------------------------------------------------ daemon histories (file / package life cycle for every import form)

def gen_histories() -> list[dict[str, Any]]:
    """Each history = list of steps; a step maps path -> text (write) or None (delete); the daemon gets
    `check -- main.py` (or `recheck`) after every step and must answer every one of them."""
    H: list[dict[str, Any]] = []
    main_forms = {"import-p.m": "import p.m\np.m.f()", "from-p-import-m": "from p import m\nm.f()", "from-p.m-import-f": "from p.m import f\nf()",
                  "import-p": "import p\np.m.f()", "star": "from p import *\nm.f()", "import-as": "import p.m as q\nq.f()", "from-p-import-f": "from p import f\nf()"}
    init_forms = {"empty": "", "from-dot-import-m": "from . import m\n", "from-dotm-import-f": "from .m import f\n", "from-p-import-m": "from p import m\n",
                  "from-dotm-star": "from .m import *\n", "import-p.m": "import p.m\n", "all": "__all__ = ['m', 'f']\nfrom . import m\nfrom .m import f\n"}
    M1, M2 = "def f() -> None: pass\n", "def f(x: int) -> None: pass\n"

    def add(name: str, steps: list[dict[str, str | None]], cmds: list[str] | None = None, q: bool = False) -> None:
        H.append({"name": name, "steps": steps, "cmds": cmds or ["check"] * len(steps), "q": q})
    for mn, mt in main_forms.items():
        for inn, it in init_forms.items():
            base: dict[str, str | None] = {"main.py": mt + "\n", "p/__init__.py": it, "p/m.py": M1}
            tag = f"{mn}|{inn}"
            qq = inn in ("from-dot-import-m", "empty") and mn in ("import-p.m", "from-p-import-m")
            add(f"hist:del-submodule:{tag}", [base, {"p/m.py": None}, {"p/m.py": M2}, {"main.py": mt.replace("f()", "f(1)") + "\n"}], q=qq or (inn == "all" and mn == "import-p"))
            add(f"hist:del-submodule-recheck:{tag}", [base, {"p/m.py": None}, {"p/m.py": M2}], ["check", "recheck", "recheck"], q=qq)
            add(f"hist:del-init:{tag}", [base, {"p/__init__.py": None}, {"p/__init__.py": it}], q=mn == "import-p.m" and inn == "from-dot-import-m")
            add(f"hist:del-package:{tag}", [base, {"p/__init__.py": None, "p/m.py": None}, {"p/__init__.py": it, "p/m.py": M2}], q=mn == "from-p-import-m" and inn == "from-dot-import-m")
            add(f"hist:module-to-package:{tag}", [base, {"p/m.py": None, "p/m/__init__.py": M2}, {"p/m/__init__.py": None, "p/m.py": M1}], q=mn == "import-p.m" and inn == "empty")
            add(f"hist:package-to-module:{tag}", [base, {"p/__init__.py": None, "p/m.py": None, "p.py": "class m:\n    @staticmethod\n    def f() -> None: pass\ndef f() -> None: pass\n"}, {"p.py": None, "p/__init__.py": it, "p/m.py": M1}])
            add(f"hist:stub-appears:{tag}", [base, {"p/m.pyi": "def f(x: str) -> None: ...\n"}, {"p/m.pyi": None}, {"p/__init__.pyi": "from . import m as m\n"}, {"p/__init__.pyi": None}], q=mn == "from-p.m-import-f" and inn == "empty")
            add(f"hist:syntax-error-in-submodule:{tag}", [base, {"p/m.py": "def f( -> None: pass\n"}, {"p/m.py": M2}, {"p/__init__.py": "def (\n"}, {"p/__init__.py": it}])
    for form, use in {"import": "import m\nm.f()", "from": "from m import f\nf()", "star": "from m import *\nf()", "as": "import m as q\nq.f()", "in-func": "def g() -> None:\n    import m\n    m.f()", "type-checking": "if TYPE_CHECKING:\n    import m\ndef g(a: 'm.C') -> None: ..."}.items():
        base2: dict[str, str | None] = {"main.py": "from typing import TYPE_CHECKING\n" + use + "\n", "m.py": M1 + "class C: pass\n"}
        add(f"hist:del-module:{form}", [base2, {"m.py": None}, {"m.py": M2 + "class C: pass\n"}, {"m.py": None, "m/__init__.py": M1 + "class C: pass\n"}, {"m/__init__.py": None, "m.pyi": "def f() -> None: ...\nclass C: ...\n"}], q=form in ("import", "from"))
        add(f"hist:del-module-recheck:{form}", [base2, {"m.py": None}, {"m.py": M2}], ["check", "recheck", "recheck"], q=form == "star")
        add(f"hist:del-module+syntax-error-recheck:{form}", [base2, {"m.py": None, "main.py": "def f( -> None: pass\n"}, base2], ["check", "recheck", "recheck"], q=form == "import")
    # inheritance / alias / import cycles INTRODUCED by an edit
    a0, b0 = "class A: pass\n", "from a import A\nclass B(A): pass\n"
    add("hist:inheritance-cycle-by-edit", [{"main.py": "import a, b\n", "a.py": a0, "b.py": b0}, {"a.py": "from b import B\nclass A(B): pass\n"}, {"a.py": a0}], q=True)
    add("hist:inheritance-cycle-by-edit-3", [{"main.py": "import a, b, c\n", "a.py": a0, "b.py": b0, "c.py": "from b import B\nclass C(B): pass\n"}, {"a.py": "from c import C\nclass A(C): pass\n"}, {"a.py": a0}], q=True)
    add("hist:alias-cycle-by-edit", [{"main.py": "import a, b\nv: a.X\n", "a.py": "X = int\n", "b.py": "from a import X\nY = X\n"}, {"a.py": "from b import Y\nX = Y\n"}, {"a.py": "X = int\n"}], q=True)
    add("hist:typevar-bound-cycle-by-edit", [{"main.py": "import a, b\n", "a.py": "from typing import TypeVar, Generic\nclass Bd: pass\nT = TypeVar('T', bound=Bd)\nclass G(Generic[T]): pass\n", "b.py": "from a import G, Bd\nclass S(Bd): pass\nv: G[S]\n"},
                                             {"a.py": "from typing import TypeVar, Generic\nfrom b import S\nclass Bd(S): pass\nT = TypeVar('T', bound=Bd)\nclass G(Generic[T]): pass\n"}, {"a.py": "class Bd: pass\n"}], q=True)
    add("hist:import-cycle-by-edit", [{"main.py": "import a\n", "a.py": "x = 1\n", "b.py": "import a\ny = a.x\n"}, {"a.py": "import b\nx = b.y\n"}, {"a.py": "from b import *\nfrom b import y as x\n", "b.py": "from a import *\nfrom a import x as y\n"}, {"a.py": "x = 1\n"}], q=True)
    add("hist:class-to-alias-to-var", [{"main.py": "from a import X\nclass S(X): pass\nv: X\n", "a.py": "class X: pass\n"}, {"a.py": "X = int\n"}, {"a.py": "X = 1\n"}, {"a.py": "def X() -> None: pass\n"}, {"a.py": "import os as X\n"}, {"a.py": "from typing import TypeVar\nX = TypeVar('X')\n"}, {"a.py": "class X: pass\n"}], q=True)
    add("hist:main-deleted", [{"main.py": "import a\n", "a.py": "x = 1\n"}, {"main.py": None}, {"main.py": "import a\n"}])
    add("hist:empty-files", [{"main.py": "import a\n", "a.py": ""}, {"a.py": "\n"}, {"main.py": ""}, {"main.py": "import a\n", "a.py": "x: int = ''\n"}])
    return H


class Finding:
    def __init__(self, key: str, what: str, job: dict[str, Any], res: dict[str, Any], mode: str) -> None:
        self.key, self.what, self.job, self.res, self.mode = key, what, job, res, mode
        self.count = 1


def record(found: dict[str, Finding], key: str, what: str, job: dict[str, Any], res: dict[str, Any], mode: str) -> None:
    f = found.get(key)
    if f is None:
        found[key] = Finding(key, what, job, res, mode)
    else:
        f.count += 1
        if total_lines(job["files"]) < total_lines(f.job["files"]):
            f.job, f.res, f.what, f.mode = job, res, what, mode


def run_sub_sample(jobs: list[dict[str, Any]], nthreads: int) -> list[tuple[tuple[str, str] | None, dict[str, Any]]]:
    from concurrent.futures import ThreadPoolExecutor
    with ThreadPoolExecutor(max_workers=nthreads) as ex:
        return list(ex.map(lambda j: confirm_subprocess(j, timeout=PER_FILE_TIMEOUT * WALL_FACTOR / 3), jobs))


# ------------------------------------------------------------------ daemon sample

def _dmypy(sf: str, args: list[str], cwd: str, limit: float = PER_FILE_TIMEOUT) -> tuple[int, str, bool]:
    """Run one dmypy client command; the time limit is CPU time of the DAEMON process."""
    cmd = [vlib.PY, "-m", "mypy.dmypy", "--status-file", sf] + args
    pid = None
    try:
        pid = json.load(open(sf)).get("pid")
    except (OSError, ValueError):
        pass
    cpu0 = proc_cpu(pid) if pid else 0.0
    t0 = time.time()
    p = subprocess.Popen(cmd, cwd=cwd, env=vlib.py_env(), stdout=subprocess.PIPE, stderr=subprocess.STDOUT, text=True, errors="replace")
    hung = False
    while p.poll() is None:
        time.sleep(0.25)
        if pid is None:
            try:
                pid = json.load(open(sf)).get("pid")
                cpu0 = 0.0
            except (OSError, ValueError):
                pass
        used = (proc_cpu(pid) - cpu0) if pid else 0.0
        if used > limit or time.time() - t0 > limit * WALL_FACTOR:
            hung = True
            p.kill()
            break
    out = p.communicate()[0] or ""
    return (p.returncode if p.returncode is not None else -9), out[-20000:], hung


def daemon_session(seed: int, idx: int, corpus: list[Case], steps: int) -> dict[str, Any]:
    rng = random.Random(f"{seed}/daemon/{idx}")
    fg = [c for c in corpus if c.src.startswith("fine-grained")]
    src_list = fg if (fg and rng.random() < 0.6) else corpus
    case = src_list[rng.randrange(len(src_list))]
    d = tempfile.mkdtemp(prefix="c20-dm-")
    sf = os.path.join(d, "status.json")
    wd = os.path.join(d, "w")
    events: list[dict[str, Any]] = []
    flags = [f for f in case.flags if f not in ("--pretty",)]

    clock = [int(time.time()) - 100000]

    def put(files: dict[str, str]) -> None:
        # the daemon's watcher compares (size, mtime rounded to seconds): give every edit its own second
        # (environment assumption of mypy itself, DESIGN section 3) by stamping a strictly increasing logical time
        clock[0] += 7
        for root, ds, fs in os.walk(wd, topdown=False):
            for f in fs:
                os.remove(os.path.join(root, f))
            for d_ in ds:      # an empty directory left behind would be a namespace package: a different program
                shutil.rmtree(os.path.join(root, d_), ignore_errors=True)
        for rel, src in files.items():
            path = os.path.join(wd, rel)
            os.makedirs(os.path.dirname(path), exist_ok=True)
            with open(path, "w", encoding="utf-8", errors="surrogateescape", newline="") as fh:
                fh.write(src)
            os.utime(path, (clock[0], clock[0]))

    def start() -> tuple[int, str, bool]:
        return _dmypy(sf, ["start", "--", "--show-traceback", "--no-error-summary", "--no-color-output", "--cache-dir", os.devnull] + flags, wd)

    def alive() -> bool:
        st, out, _ = _dmypy(sf, ["status"], wd, limit=20)
        return st == 0
    try:
        os.makedirs(wd)
        put(case.files)
        st, out, hung = start()
        if st != 0 and flags:
            # some corpus flags are refused by the daemon (e.g. --follow-imports=silent): not a failure of mypy
            flags.clear()
            _dmypy(sf, ["kill"], wd, limit=20)
            st, out, hung = start()
        if st != 0:
            return {"case": case.name, "events": [{"step": "start", "status": st, "out": out, "hung": hung, "files": case.files, "args": flags}], "steps": 0}
        st0, out0, hung = _dmypy(sf, ["check", "--", "main.py"], wd)
        events.append({"step": "check0", "status": st0, "out": out0, "hung": hung, "files": dict(case.files), "args": flags})
        history = [dict(case.files)]
        n_ok = 0
        for k in range(steps):
            mut = make_mutant(seed * 1000003 + idx, k, [case] if rng.random() < 0.75 else corpus)
            files = mut["files"]
            put(files)
            history.append(files)
            st, out, hung = _dmypy(sf, ["recheck"] if rng.random() < 0.5 else ["check", "--", "main.py"], wd)
            ev = {"step": f"edit{k}:{mut['desc']}", "status": st, "out": out, "hung": hung, "files": files, "args": flags,
                  "history": len(history)}
            events.append(ev)
            if hung or "Daemon crashed" in out or "Traceback (most recent call last)" in out or st not in (0, 1, 2) or not alive():
                ev["dead"] = True
                _dmypy(sf, ["kill"], wd, limit=20)
                put(case.files)
                st2, out2, h2 = start()
                if st2 != 0:
                    break
                _dmypy(sf, ["check", "--", "main.py"], wd)
            else:
                n_ok += 1
        # the daemon must still answer, and answer for the ORIGINAL files as it did at the beginning
        put(case.files)
        st9, out9, hung9 = _dmypy(sf, ["check", "--", "main.py"], wd)
        events.append({"step": "final", "status": st9, "out": out9, "hung": hung9, "files": dict(case.files), "args": flags,
                       "same_as_first": (st9, sorted(out9.splitlines())) == (st0, sorted(out0.splitlines())), "first": out0[-3000:]})
        return {"case": case.name, "events": events, "steps": n_ok}
    finally:
        try:
            _dmypy(sf, ["kill"], d, limit=20)
        except Exception:  # noqa
            pass
        shutil.rmtree(d, ignore_errors=True)


STALE_SEQ: list[dict[str, str]] = [
    {"main.py": "x = 1\n"},
    {"main.py": "import a\n", "a.py": "        pass\nclass A:\n"},          # new module with a syntax error
    {"main.py": "import a\n", "a.py": "class A:\n    pass\n\n\n"},          # ... repaired (different size, later second)
]


NOTES_SEQ: list[dict[str, str]] = [{"main.py": "reveal_type(1)\n"}, {"main.py": "reveal_type(1)\n\n"}]


RECHECK_SEQ: list[dict[str, str]] = [{"main.py": "import m\n", "m.py": "x = 1\n"}, {"main.py": "def f( -> None: pass\n"}]   # 2nd request: `recheck`


def daemon_script(seq: list[dict[str, str]], cmds: list[str] | None = None) -> list[tuple[int, str, bool]]:
    """A fixed edit history against a fresh daemon: `check -- main.py` after every edit (own mtime second each)."""
    d = tempfile.mkdtemp(prefix="c20-dms-")
    sf = os.path.join(d, "status.json")
    wd = os.path.join(d, "w")
    os.makedirs(wd)
    out: list[tuple[int, str, bool]] = []
    clock = int(time.time()) - 100000
    try:
        st, o, h = _dmypy(sf, ["start", "--", "--show-traceback", "--no-error-summary", "--no-color-output", "--cache-dir", os.devnull], wd)
        if st != 0:
            return [(st, o, h)]
        for i, files in enumerate(seq):
            clock += 7
            for f in os.listdir(wd):
                os.remove(os.path.join(wd, f))
            for rel, src in files.items():
                with open(os.path.join(wd, rel), "w") as fh:
                    fh.write(src)
                os.utime(os.path.join(wd, rel), (clock, clock))
            out.append(_dmypy(sf, ["recheck"] if cmds and cmds[i] == "recheck" else ["check", "--", "main.py"], wd))
        return out
    finally:
        try:
            _dmypy(sf, ["kill"], d, limit=20)
        except Exception:  # noqa
            pass
        shutil.rmtree(d, ignore_errors=True)


def daemon_directed(progs: list[dict[str, Any]], slot: int) -> list[dict[str, Any]]:
    """One daemon fed with directed programs as successive edits of main.py (`check -- main.py` after each).
    Returns the failing events; the daemon is restarted when it dies."""
    d = tempfile.mkdtemp(prefix="c20-dd-")
    sf = os.path.join(d, "status.json")
    wd = os.path.join(d, "w")
    os.makedirs(wd)
    bad: list[dict[str, Any]] = []
    clock = int(time.time()) - 200000
    flags = ["--check-untyped-defs"]

    def start() -> int:
        return _dmypy(sf, ["start", "--", "--show-traceback", "--no-error-summary", "--no-color-output", "--cache-dir", os.devnull] + flags, wd)[0]
    try:
        with open(os.path.join(wd, "main.py"), "w") as fh:
            fh.write("x = 1\n")
        if start() != 0:
            return [{"step": "start", "status": -1, "out": "daemon did not start", "hung": False, "files": {}, "args": flags, "name": "start"}]
        _dmypy(sf, ["check", "--", "main.py"], wd)
        answered = 0
        for i, pr in enumerate(progs):
            clock += 7
            for root, ds, fs in os.walk(wd, topdown=False):
                for f in fs:
                    os.remove(os.path.join(root, f))
                for d_ in ds:
                    shutil.rmtree(os.path.join(root, d_), ignore_errors=True)
            for rel, src in pr["files"].items():
                path = os.path.join(wd, rel)
                with open(path, "w", encoding="utf-8", newline="") as fh:
                    fh.write(src)
                os.utime(path, (clock, clock))
            st, out, hung = _dmypy(sf, ["check", "--", "main.py"], wd)
            ev = {"step": "directed:" + pr["name"], "status": st, "out": out, "hung": hung, "files": pr["files"], "args": flags, "name": pr["name"],
                  "history": [q["files"] for q in progs[max(0, i - 2): i + 1]]}
            if hung or "Daemon crashed" in out or "Traceback (most recent call last)" in out or "INTERNAL ERROR" in out or st not in (0, 1, 2):
                bad.append(ev)
                _dmypy(sf, ["kill"], wd, limit=20)
                with open(os.path.join(wd, "main.py"), "w") as fh:
                    fh.write("x = 1\n")
                if start() != 0:
                    break
                _dmypy(sf, ["check", "--", "main.py"], wd)
            else:
                answered += 1
        bad.append({"step": "summary", "answered": answered})
        return bad
    finally:
        try:
            _dmypy(sf, ["kill"], d, limit=20)
        except Exception:  # noqa
            pass
        shutil.rmtree(d, ignore_errors=True)


def daemon_histories(hists: list[dict[str, Any]]) -> list[dict[str, Any]]:
    """One daemon served with scripted file-life-cycle histories one after the other (corpus/C20/histories.json).
    A step maps path -> text (write) or None (delete).  Returns failing events + a summary."""
    d = tempfile.mkdtemp(prefix="c20-dh-")
    sf = os.path.join(d, "status.json")
    wd = os.path.join(d, "w")
    os.makedirs(wd)
    bad: list[dict[str, Any]] = []
    clock = int(time.time()) - 300000

    def start() -> int:
        return _dmypy(sf, ["start", "--", "--show-traceback", "--no-error-summary", "--no-color-output", "--cache-dir", os.devnull], wd)[0]

    def wipe() -> None:
        for root, ds, fs in os.walk(wd, topdown=False):
            for f in fs:
                os.remove(os.path.join(root, f))
            for d_ in ds:
                shutil.rmtree(os.path.join(root, d_), ignore_errors=True)
    try:
        with open(os.path.join(wd, "main.py"), "w") as fh:
            fh.write("x = 1\n")
        if start() != 0:
            return [{"step": "start", "status": -1, "out": "daemon did not start", "hung": False, "name": "start", "files": {}}]
        _dmypy(sf, ["check", "--", "main.py"], wd)
        answered = 0
        first = True
        for h in hists:
            wipe()
            if not first:
                # a FRESH daemon per history: with a reused daemon the outcome of a history depended on which histories
                # it had served before (modules of the same names stay in its graph) -- not reproducible across samples
                _dmypy(sf, ["kill"], wd, limit=20)
                ok_start = False
                for _try in range(20):          # the old daemon may need a moment to release its socket / status file
                    if start() == 0:
                        ok_start = True
                        break
                    time.sleep(0.3)
                    _dmypy(sf, ["kill"], wd, limit=20)
                if not ok_start:
                    return bad + [{"step": "summary", "answered": answered, "start_failed": True}]
            first = False
            state: dict[str, str] = {}
            for i, (step, cmd) in enumerate(zip(h["steps"], h["cmds"])):
                clock += 7
                for rel, src in step.items():
                    path = os.path.join(wd, rel)
                    if src is None:
                        state.pop(rel, None)
                        try:
                            os.remove(path)
                            dd = os.path.dirname(path)
                            while dd != wd and not os.listdir(dd):
                                os.rmdir(dd)
                                dd = os.path.dirname(dd)
                        except OSError:
                            pass
                    else:
                        state[rel] = src
                        os.makedirs(os.path.dirname(path), exist_ok=True)
                        with open(path, "w", encoding="utf-8", newline="") as fh:
                            fh.write(src)
                        os.utime(path, (clock, clock))
                st, out, hung = _dmypy(sf, ["recheck"] if cmd == "recheck" else ["check", "--", "main.py"], wd)
                if hung or "Daemon crashed" in out or "Traceback (most recent call last)" in out or "INTERNAL ERROR" in out or st not in (0, 1, 2):
                    bad.append({"step": f"{h['name']} step {i} ({cmd})", "status": st, "out": out, "hung": hung, "name": h["name"], "files": dict(state),
                                "history": h["steps"][: i + 1], "cmds": h["cmds"][: i + 1], "args": []})
                    break
                answered += 1
        bad.append({"step": "summary", "answered": answered})
        return bad
    finally:
        try:
            _dmypy(sf, ["kill"], d, limit=20)
        except Exception:  # noqa
            pass
        shutil.rmtree(d, ignore_errors=True)


def classify_daemon(ev: dict[str, Any]) -> tuple[str, str] | None:
    out = ev.get("out", "")
    if ev.get("hung"):
        return "hang:daemon", f"daemon did not answer `{ev['step']}` within the CPU limit"
    if "Traceback (most recent call last)" in out or "Daemon crashed" in out or "INTERNAL ERROR" in out:
        if "maximum semantic analysis iteration count reached" in out and "Traceback" not in out:
            return "internal:semanal-max-iterations", "daemon: INTERNAL ERROR: maximum semantic analysis iteration count reached"
        tb = out[out.find("Traceback (most recent call last)"):] if "Traceback (most recent call last)" in out else out
        e, fr = exc_name(tb), mypy_frame(tb)
        return f"crash:{e}:{fr}", f"daemon crashed ({e} at {fr}) on `{ev['step']}`"
    if ev.get("status") not in (0, 1, 2):
        return f"daemon-exit:{ev.get('status')}", f"dmypy client exit status {ev.get('status')} on `{ev['step']}`: {out[-200:]!r}"
    if ev.get("dead"):
        return "daemon-died", f"daemon stopped answering after `{ev['step']}`"
    return None


# ------------------------------------------------------------------ the stage

def stage_S(ctx: vlib.Ctx) -> None:
    t0 = time.time()
    corpus = load_corpus()
    n_mut = int(os.environ.get("VERIF_C20_MUTANTS", ctx.n(96, 3000)))
    budget = float(os.environ.get("VERIF_C20_BUDGET_S", ctx.n(150, 600)))
    root = tempfile.mkdtemp(prefix="c20-pool-")
    pool = Pool(root, vlib.NPROC)
    found: dict[str, Finding] = {}
    known = {k["key"] for k in vlib.load_known() if k.get("property") == "C20" and k.get("status") == "known"}
    kinds: dict[str, int] = {}
    statuses: dict[str, int] = {}
    try:
        # 1. deterministic probes: the known hang (short limit) and the committed corpus of minimised failures
        probes = [{"name": "probe:pow-hang", "desc": "probe", "files": {"main.py": POW_HANG}, "args": [], "targets": ["main.py"],
                   "flagkey": flagkey([]), "timeout": 10.0, "expect": "hang:mypy/constant_fold.py:constant_fold_binary_int_op"}] + corpus_probes(ctx.quick, ctx.seed)
        for i, j in enumerate(probes):
            j["id"] = -1 - i
        rs = pool.run(probes, chunk=30)
        redetected = 0
        try:
            expected_fail: dict[str, str] = json.load(open(os.path.join(CORPUS_DIR, "directed-expected.json")))
        except (OSError, ValueError):
            expected_fail = {}
        directed_unexpected: list[str] = []
        directed_fixed: list[str] = []
        for j, r in zip(probes, rs):
            k = classify(r, j["args"])
            dname = j["name"].split("directed.json:", 1)[1] if "directed.json:" in j["name"] else None
            if k is not None:
                if dname is not None and expected_fail.get(dname) != k[0]:
                    # a directed program that is not known to fail with this key: its own key, so that a regression which
                    # reaches an already listed crash site (e.g. the defer assertion) through a NEW path is not masked
                    directed_unexpected.append(dname)
                    record(found, "directed-new:" + k[0], f"directed program(s) fail that did not before: {k[1]}", j, r, "probe")
                else:
                    record(found, k[0], k[1], j, r, "probe")
                redetected += 1
            elif dname is not None and dname in expected_fail:
                directed_fixed.append(dname)
            elif j.get("expect"):
                ctx.log(f"S: probe {j['name']} no longer fails (expected {j['expect']})")
        ctx.cov["directed_programs"] = sum(1 for j in probes if "directed.json:" in j["name"])
        ctx.cov["directed_expected_failures"] = len(expected_fail)
        ctx.cov["directed_unexpected_failures"] = directed_unexpected[:50]
        ctx.cov["directed_no_longer_failing"] = directed_fixed[:50]
        if os.environ.get("VERIF_C20_WRITE_EXPECTED"):
            exp_new = {}
            for j, r in zip(probes, rs):
                k = classify(r, j["args"])
                if k is not None and "directed.json:" in j["name"]:
                    exp_new[j["name"].split("directed.json:", 1)[1]] = k[0]
            json.dump(exp_new, open(os.environ["VERIF_C20_WRITE_EXPECTED"], "w"), indent=0, sort_keys=True)
        ctx.cov["probes"] = len(probes)
        ctx.cov["probes_failing"] = redetected
        ctx.log(f"S: {len(probes)} probes, {redetected} failing ({time.time()-t0:.1f}s)")
        # 2. mutants, in deterministic blocks until the count or the time budget is reached
        done = 0
        block = 320 if not ctx.quick else n_mut
        cpu = 0.0
        while done < n_mut and (done == 0 or time.time() - t0 < budget):
            jobs = [make_mutant(ctx.seed, i, corpus) for i in range(done, min(n_mut, done + block))]
            rs = pool.run(jobs)
            for j, r in zip(jobs, rs):
                for d_ in j["desc"].split("+"):
                    kinds[d_.split("@")[0]] = kinds.get(d_.split("@")[0], 0) + 1
                statuses[str(r.get("status"))] = statuses.get(str(r.get("status")), 0) + 1
                cpu += float(r.get("cpu", 0) or 0)
                k = classify(r, j["args"])
                if k is not None:
                    if r.get("status") == -2:
                        j["hang_secs"] = 20.0
                    record(found, k[0], k[1], j, r, "batch")
            done += len(jobs)
            ctx.log(f"S: {done} mutants, {len(found)} distinct failure keys, worker cpu {cpu:.0f}s ({time.time()-t0:.1f}s)")
        ctx.add("evaluations", done)
        ctx.cov["mutants"] = done
        ctx.cov["mutants_requested"] = n_mut
        ctx.cov["mutation_kinds"] = dict(sorted(kinds.items()))
        ctx.cov["exit_statuses"] = dict(sorted(statuses.items()))
        ctx.cov["worker_cpu_s"] = round(cpu, 1)
        ctx.cov["worker_restarts"] = pool.restarts
        # 3. subprocess sample: true exit codes of `python -m mypy`, incremental off
        n_sub = ctx.n(16, 48) if n_mut else 0        # (VERIF_C20_MUTANTS=0: developer mode, probes only)
        sub_jobs = [make_mutant(ctx.seed, i, corpus) for i in range(0, n_sub)]
        sub = run_sub_sample(sub_jobs, vlib.NPROC)
        sub_status: dict[str, int] = {}
        for j, (k, r) in zip(sub_jobs, sub):
            sub_status[str(r.get("status"))] = sub_status.get(str(r.get("status")), 0) + 1
            if k is not None:
                record(found, k[0], k[1], j, r, "subprocess")
        ctx.cov["subprocess_runs"] = n_sub
        ctx.cov["subprocess_exit_statuses"] = dict(sorted(sub_status.items()))
        ctx.add("evaluations", n_sub)
        ctx.log(f"S: subprocess sample {n_sub}: {sub_status} ({time.time()-t0:.1f}s)")
        # 4. daemon sample
        n_dm, steps = (ctx.n(8, 24) if n_mut else 0), ctx.n(5, 10)
        from concurrent.futures import ThreadPoolExecutor
        with ThreadPoolExecutor(max_workers=vlib.NPROC) as ex:
            sessions = list(ex.map(lambda i: daemon_session(ctx.seed, i, corpus, steps), range(n_dm)))
        if n_mut or os.environ.get("VERIF_C20_DAEMON_PROBE"):
            rs_ = daemon_script(STALE_SEQ)
            ctx.cov["daemon_probe_stale_new_module"] = [[a, b[-200:]] for a, b, _ in rs_]
            if len(rs_) == len(STALE_SEQ) and rs_[1][0] == 1 and "syntax" in rs_[1][1] and (rs_[2][0] != 0 or rs_[2][1].strip()):
                ctx.violation("daemon:stale-blocking-error-in-new-module",
                              "the daemon keeps reporting the syntax error of a newly imported module after the module was repaired "
                              f"(`dmypy check main.py` answers {rs_[2][1].strip()[-120:]!r}, a fresh run answers nothing)",
                              {"kind": "daemon-history", "history": STALE_SEQ, "answers": [[a, b] for a, b, _ in rs_],
                               "command": "dmypy start; then after each edit: dmypy check -- main.py"})
        if n_mut or os.environ.get("VERIF_C20_DAEMON_PROBE"):
            dprogs = [e for e in json.load(open(os.path.join(CORPUS_DIR, "directed.json")))] if os.path.exists(os.path.join(CORPUS_DIR, "directed.json")) else []
            if ctx.quick:
                dprogs = [e for i, e in enumerate([e for e in dprogs if e.get("q")]) if i % 6 == 0]
            else:
                dprogs = [e for i, e in enumerate(dprogs) if (e.get("q") and i % 2 == 0) or
                          random.Random(f"{ctx.seed}/ddaemon/{e.get('name')}").random() < 0.1]
            # programs that crash in batch mode crash the daemon the same way (one listed finding each): not repeated here
            dprogs = [e for e in dprogs if e["name"] not in expected_fail]
            slices = [dprogs[k::vlib.NPROC] for k in range(vlib.NPROC)]
            with ThreadPoolExecutor(max_workers=vlib.NPROC) as ex:
                dres = list(ex.map(lambda k: daemon_directed(slices[k], k) if slices[k] else [], range(vlib.NPROC)))
            dd_answered = 0
            for evs in dres:
                for ev in evs:
                    if ev.get("step") == "summary":
                        dd_answered += ev["answered"]
                        continue
                    kd = classify_daemon(ev)
                    if kd is not None:
                        jobd = {"name": "daemon-directed:" + ev.get("name", ""), "desc": ev["step"], "files": ev["files"], "args": ev.get("args", []),
                                "targets": ["main.py"], "flagkey": flagkey(ev.get("args", [])), "daemon": True, "history": ev.get("history")}
                        kk = kd[0]
                        if expected_fail.get(ev.get("name", "")) != kk and kk in {v_ for v_ in expected_fail.values()}:
                            kk = "directed-new:" + kk      # reaches a listed crash site from a program that does not do so in batch mode
                        record(found, kk, kd[1], jobd, {"status": ev["status"], "out": ev["out"], "err": ""}, "daemon")
            hp = os.path.join(CORPUS_DIR, "histories.json")
            hists = json.load(open(hp)) if os.path.exists(hp) else []
            if ctx.quick:
                hists = [h for h in hists if h.get("q")]
            else:
                hists = [h for h in hists if h.get("q") or random.Random(f"{ctx.seed}/hist/{h['name']}").random() < 1 / 3]
            hslices = [hists[k::vlib.NPROC] for k in range(vlib.NPROC)]
            with ThreadPoolExecutor(max_workers=vlib.NPROC) as ex:
                hres = list(ex.map(lambda k: daemon_histories(hslices[k]) if hslices[k] else [], range(vlib.NPROC)))
            h_answered = 0
            hist_fail: dict[str, str] = {}
            for evs in hres:
                for ev in evs:
                    if ev.get("step") == "summary":
                        h_answered += ev["answered"]
                        continue
                    kd = classify_daemon(ev)
                    if kd is None:
                        continue
                    hist_fail[ev["name"]] = kd[0]
                    jobd = {"name": "daemon-history:" + ev["name"], "desc": ev["step"], "files": ev["files"], "args": [], "targets": ["main.py"],
                            "flagkey": flagkey([]), "daemon": True, "history": ev.get("history"), "cmds": ev.get("cmds")}
                    kk = kd[0] if expected_fail.get(ev["name"]) == kd[0] else "directed-new:" + kd[0]
                    record(found, kk, kd[1], jobd, {"status": ev["status"], "out": ev["out"], "err": ""}, "daemon")
            ctx.cov["daemon_histories"] = len(hists)
            ctx.cov["daemon_history_requests_answered"] = h_answered
            ctx.cov["daemon_histories_failing"] = dict(sorted(hist_fail.items()))
            ctx.add("evaluations", h_answered)
            ctx.log(f"S: {len(hists)} daemon histories: {h_answered} requests answered, {len(hist_fail)} histories failing ({time.time()-t0:.1f}s)")
            if os.environ.get("VERIF_C20_WRITE_EXPECTED"):
                pth = os.environ["VERIF_C20_WRITE_EXPECTED"]
                cur = json.load(open(pth)) if os.path.exists(pth) else {}
                cur.update(hist_fail)
                json.dump(cur, open(pth, "w"), indent=0, sort_keys=True)
            ctx.cov["daemon_directed_edits"] = len(dprogs)
            ctx.cov["daemon_directed_answered"] = dd_answered
            ctx.add("evaluations", len(dprogs))
            ctx.log(f"S: daemon fed with {len(dprogs)} directed programs: {dd_answered} answered ({time.time()-t0:.1f}s)")
        if n_mut or os.environ.get("VERIF_C20_DAEMON_PROBE"):
            rs3 = daemon_script(RECHECK_SEQ, ["check", "recheck"])
            ctx.cov["daemon_probe_recheck_deleted_import"] = [[a, b[-160:]] for a, b, _ in rs3]
            if rs3:
                ev3 = {"step": "probe: delete an imported module + syntax error in main, then `recheck`", "status": rs3[-1][0], "out": rs3[-1][1], "hung": rs3[-1][2]}
                k3 = classify_daemon(ev3)
                if k3 is not None:
                    record(found, k3[0], k3[1], {"name": "daemon-probe:recheck-deleted-import", "desc": ev3["step"], "files": RECHECK_SEQ[-1], "args": [],
                                                 "targets": ["main.py"], "flagkey": flagkey([]), "daemon": True, "history": RECHECK_SEQ},
                           {"status": ev3["status"], "out": ev3["out"], "err": ""}, "daemon")
            rs2 = daemon_script(NOTES_SEQ)
            ctx.cov["daemon_probe_notes_only_status"] = [[a, b[-120:]] for a, b, _ in rs2]
            if len(rs2) == 2 and rs2[0][1].strip() == rs2[1][1].strip() and ": error:" not in rs2[1][1] and rs2[0][0] != rs2[1][0]:
                ctx.violation("daemon:status-1-for-notes-only-on-recheck",
                              f"dmypy check exits {rs2[0][0]} for a program whose only output is a note, and {rs2[1][0]} for the same output on every later request "
                              "(dmypy_server.check uses count_stats, increment_output uses `1 if messages else 0`)",
                              {"kind": "daemon-history", "history": NOTES_SEQ, "answers": [[a, b] for a, b, _ in rs2],
                               "command": "dmypy start; dmypy check -- main.py (status 0); append a blank line; dmypy check -- main.py (status 1, same text)"})
        dm_steps = 0
        differs = 0
        for s in sessions:
            dm_steps += s["steps"]
            for ev in s["events"]:
                k = classify_daemon(ev)
                if k is not None:
                    job = {"name": "daemon:" + s["case"], "desc": ev["step"], "files": ev["files"], "args": ev.get("args", []),
                           "targets": ["main.py"], "flagkey": flagkey(ev.get("args", [])), "daemon": True,
                           "history": [e2["files"] for e2 in s["events"][: s["events"].index(ev) + 1]]}
                    record(found, k[0], k[1], job, {"status": ev["status"], "out": ev["out"], "err": ""}, "daemon")
                if ev["step"] == "final" and ev.get("same_as_first") is False and classify_daemon(ev) is None:
                    differs += 1
                    if sorted(ev["out"].splitlines()) == sorted(ev.get("first", "").splitlines()) and ": error:" not in ev["out"]:
                        pass      # same text, other exit status: the finding daemon:status-1-for-notes-only-on-recheck (own probe below)
                    elif not any("syntax]" in (e2.get("out") or "") or "invalid syntax" in (e2.get("out") or "") for e2 in s["events"]):
                        # (stale answers that follow a blocking error are the finding daemon:stale-blocking-error-in-new-module;
                        #  any other difference is reported under its own key)
                        ctx.violation("daemon:stale-answer-after-history",
                                      f"daemon answers differently for the same files after a history of edits ({s['case']})",
                                      {"kind": "daemon-history", "history": [e2["files"] for e2 in s["events"]],
                                       "first": ev.get("first", ""), "final": ev["out"][-3000:]})
                    ctx.sample({"daemon_answer_differs": s["case"], "first": ev.get("first", "")[-400:], "final": ev["out"][-400:]})
        ctx.cov["daemon_sessions"] = n_dm
        ctx.cov["daemon_requests_answered"] = dm_steps
        ctx.cov["daemon_final_answer_differs_from_first"] = differs
        ctx.add("evaluations", dm_steps)
        ctx.log(f"S: daemon sample: {n_dm} sessions, {dm_steps} edits answered, {differs} final answers differ ({time.time()-t0:.1f}s)")
        # 5. confirm (fresh process), shrink, report
        unconfirmed = []
        for key in sorted(found):
            f = found[key]
            job = f.job
            if f.mode != "daemon" and not key.startswith("hang:") and f.mode != "subprocess" and not (f.mode == "probe" and key in known):
                k2, r2 = confirm_subprocess(job, timeout=PER_FILE_TIMEOUT * WALL_FACTOR / 3)
                pref = "directed-new:" if key.startswith("directed-new:") else ""
                if k2 is None or pref + k2[0] != key:
                    unconfirmed.append({"key": key, "in_fresh_process": k2[0] if k2 else None, "name": job.get("name")})
                    if k2 is None:
                        continue
                    key, f.what = pref + k2[0], k2[1]
            do_shrink = f.mode in ("batch", "subprocess") and key not in known and os.environ.get("VERIF_C20_SHRINK", "1") == "1"
            if do_shrink:
                try:
                    job = shrink(pool, job, key, budget_s=ctx.n(60, 120), log=ctx.log)
                except Exception as e:  # noqa
                    ctx.log(f"shrink failed for {key}: {e!r}")
            tb = f.res.get("tb") or f.res.get("out", "")
            ctx.violation(key, f"{f.what} [{f.mode}, {f.count} input(s); e.g. {f.job.get('name')} {f.job.get('desc')}]",
                          {"kind": "daemon-history" if (f.mode == "daemon" and job.get("history")) else "mypy-run",
                           "history": job.get("history"), "cmds": job.get("cmds"), "mode": f.mode, "files": job["files"], "args": job["args"], "targets": job.get("targets", ["main.py"]),
                           "command": command_of(job), "count": f.count, "origin": f"{f.job.get('name')} {f.job.get('desc')}",
                           "traceback_tail": tb[-1800:]})
        ctx.cov["unconfirmed_in_fresh_process"] = unconfirmed
        ctx.cov["distinct_failure_keys"] = sorted(found)
    finally:
        pool.close()
        shutil.rmtree(root, ignore_errors=True)
    if os.environ.get("VERIF_C20_WRITE_FINDINGS"):
        outp = os.environ["VERIF_C20_WRITE_FINDINGS"]
        json.dump([{"key": v.key, "what": v.what, **v.replay} for v in ctx.violations], open(outp, "w"), indent=1)


# =====================================================================================
# entry points
# =====================================================================================

def run(ctx: vlib.Ctx) -> None:
    ctx.cov["rule"] = ("S: mutant i of seed s = corpus case (check-*/semanal-*/fine-grained*/pythoneval*.test, [case]/[file] parsed) or generated "
                       "program, transformed by 1-2 structure-aware mutations (delete/duplicate/swap/move statement, rename/cross-wire identifier, "
                       "replace type expression, truncate at token, splice, cyclic classes/aliases/imports, character noise), run with the case's "
                       "flags (+ one of 6 flag profiles); non-trivial = mypy reaches type checking (exit 0/1) rather than a blocking error; "
                       "C: scripted oracles (exhaustive up to length 3, named adversaries, random) driving the real loop functions")
    ctx.assumptions += [
        "PARTIAL: the theorems cover the three fix-point drivers (any oracle) and the index arithmetic of the message pipeline; absence of "
        "exceptions inside the analyser (semanal/checker/typeanal/...) is SEARCHED by mutation, not proved",
        "contract (monitored, not proved): semantic_analyze_target does not defer when final_iteration is set",
        "contract (checked syntactically by T20 on every run + driven through the real guard in stage C): defer_node is only called under pass_num < last_pass",
        "contract (monitored by the --pretty mutant runs): a reported error line is <= number of lines read back from the file (format_messages_default)",
        "propagate_changes_using_dependencies: convergence before MAX_ITER is NOT proved (the report is an uncaught RuntimeError)",
        "contract (monitored by stage S: no `Too many iterations when checking a loop` seen): in checker.accept_loop the number of partial types no longer changes once iter > 3",
        "time limits are CPU seconds of the mypy process (60 s per file), so a loaded machine cannot raise a false hang",
        "oracle for stage S reads stdout/stderr text (INTERNAL ERROR, Traceback) and exit status; key = exception type + innermost mypy frame",
    ]
    from extractors import t20
    stages = os.environ.get("VERIF_C20_STAGES", "TPCS")      # developer switch; the check proper runs all stages
    try:
        vals = t20.extract()
        if "T" in stages:
            t20.generate()
        BOUNDS.update(vals)
        ctx.cov["bounds"] = vals
    except Exception as e:  # noqa
        ctx.broke("T", "t20 extractor", repr(e))
        BOUNDS.update({"CORE_WARMUP": 2})
    if "P" in stages:
        ctx.prove("C20/Properties.v", ["C20", "gen", "lib"])
    if "C" in stages:
        try:
            stage_C(ctx)
        except Exception:  # noqa
            import traceback
            ctx.broke("C", "stage C", traceback.format_exc())
    if "S" in stages:
        stage_S(ctx)
    ok_runs = sum(v for k, v in ctx.cov.get("exit_statuses", {}).items() if k in ("0", "1"))
    ctx.cov["distinct_nontrivial"] = ok_runs + ctx.cov.get("tie_nontrivial", 0)


def replay(ctx: vlib.Ctx, path: str) -> None:
    d = json.load(open(path))
    rep = d.get("replay", d)
    if rep.get("kind") == "daemon-history" and (rep.get("cmds") or any(v is None for st_ in rep["history"] for v in st_.values())):
        # scripted life-cycle history (steps are deltas; None = delete)
        evs = daemon_histories([{"name": "replay", "steps": rep["history"], "cmds": rep.get("cmds") or ["check"] * len(rep["history"])}])
        for ev in evs:
            print(json.dumps({k: v for k, v in ev.items() if k != "history"}, indent=1)[:3000])
            if ev.get("step") != "summary":
                kd = classify_daemon(ev)
                if kd is not None:
                    ctx.violation(kd[0], kd[1], rep)
        if not ctx.violations:
            ctx.log("replay: the daemon now answers every request of the history")
        return
    if rep.get("kind") == "daemon-history":
        rs = daemon_script(rep["history"])
        for files, (st, out, hung) in zip(rep["history"], rs):
            print("--- edit:", {k: v for k, v in files.items()})
            print(f"    dmypy check -- main.py -> status {st}{' (hung)' if hung else ''}: {out.strip()[-400:]!r}")
        fresh = daemon_script(rep["history"][-1:])
        print("fresh daemon on the last file set:", fresh[-1][:2])
        if rs and fresh and (rs[-1][0], sorted(rs[-1][1].splitlines())) != (fresh[-1][0], sorted(fresh[-1][1].splitlines())):
            ctx.violation(d.get("key", "daemon:stale-answer-after-history"), "daemon answer after the history differs from a fresh daemon's answer", rep)
        else:
            ctx.log("replay: the daemon now answers like a fresh daemon")
        return
    if rep.get("kind") != "mypy-run":
        print(json.dumps(d, indent=1)[:3000])
        run(ctx)
        return
    job = {"id": 0, "files": rep["files"], "args": rep.get("args", []), "targets": rep.get("targets", ["main.py"])}
    k, r = confirm_subprocess(job, timeout=PER_FILE_TIMEOUT * WALL_FACTOR / 3)
    print("command:", rep.get("command"))
    for name, src in rep["files"].items():
        print(f"--- {name}\n{src}")
    print("exit status:", r.get("status"))
    print((r.get("out", "") + r.get("err", "") + r.get("tb", ""))[-3000:])
    if k is not None:
        ctx.violation(k[0], k[1], rep)
    else:
        ctx.log("replay: mypy now produces a diagnostic for this input")


if __name__ == "__main__" and len(sys.argv) >= 2 and sys.argv[1] == "--gen-directed":
    progs = gen_directed() + gen_directed_more()
    os.makedirs(CORPUS_DIR, exist_ok=True)
    with open(os.path.join(CORPUS_DIR, "directed.json"), "w") as fh:
        json.dump(progs, fh, indent=0, ensure_ascii=True)
    hs = gen_histories()
    with open(os.path.join(CORPUS_DIR, "histories.json"), "w") as fh:
        json.dump(hs, fh, indent=0, ensure_ascii=True)
    print(len(progs), "directed programs,", sum(1 for e in progs if e.get("q")), "in the quick subset;", len(hs), "daemon histories,", sum(1 for h in hs if h["q"]), "quick")
