"""C13 — error suppression is exact and the exit status tells the truth.

T  tools/extractors/t13.py  -> coq/gen/ErrorsCore.v (is_ignored_error, is_error_code_enabled, count_stats, exit status)
    and copies the exit-status alternative that applies (coq/C13/alt/Exit{Truth,Refuted}{,Proofs}.v.txt) to
    coq/gen/ErrorsExit{,Proofs}.v
P+A C13/Properties.v (always) and gen/ErrorsExit.v (exit_code_truth* when count_stats is position-aware;
    exit_code_refuted on the substring version -> finding F1)
C  (1) translated predicates vs the real methods/functions (self-correspondence);
   (2) real mypy.errors.Errors instances driven with generated ErrorInfo streams vs the Coq model (vm_compute)
S  metamorphic runs of real mypy (in-process build.build, no cache) on programs of test-data/unit/check-*.test:
   un-annotated run A (reported stream recorded from outside) vs runs B with `# type: ignore` comments added /
   --disable-error-code / --enable-error-code; expected error_info_map of B computed from A's stream by the
   declarative specification (Python mirror of Proofs.visible / emit / unused_ignore_one); exit status of every run
   recomputed by the real exit-status block of main(); plus end-to-end mypy.api.run on generated programs.
"""
from __future__ import annotations

import json
import os
import re
import subprocess
import sys
import time
from typing import Any

if __name__ != "__main__":
    import vlib
    from extractors import t13
    from py2gallina import Unsupported

F1_KEY = "F1:exit-status-0-with-error-containing-note-marker"

# ======================================================================================
# encoding of values as Coq terms
# ======================================================================================

def cs(s: str) -> str:
    assert all(32 <= ord(ch) < 127 for ch in s), s
    return '"' + s.replace('"', '""') + '"%string'


def cz(n: int) -> str:
    return f"({n})%Z"


def cb(b: bool) -> str:
    return "true" if b else "false"


def clist(xs: list[str]) -> str:
    return "[" + "; ".join(xs) + "]"


def copt(x: str | None) -> str:
    return "None" if x is None else f"(Some {x})"


def c_code(code: dict | None) -> str:
    if code is None:
        return "None"
    return (f"(Some (mk_ecode {cs(code['name'])} {copt(cs(code['sub']) if code['sub'] else None)} "
            f"{cb(code['dflt'])} {copt(cs(code['orig']) if code['orig'] else None)}))")


def c_info(i: dict) -> str:
    el, ec = i.get("endline", i["line"]), i.get("endcol", i["col"] + 1)
    return (f"(mk_info {cz(i['id'])} {cz(i['line'])} {cz(i['col'])} {cz(el)} {cz(ec)} {clist([cz(x) for x in i['span']])} {c_code(i['code'])} "
            f"{cb(i['error'])} {cb(i['blocker'])} {cb(i['once'])} {cs(i['msg'])} {copt(cz(i['parent']) if i['parent'] is not None else None)} {cs('t')} "
            f"{cz(i.get('ctx', 0))} {cz(i.get('prio', 0))} {cb(i.get('hidden', False))})")


def c_dict(d: list[tuple[int, list[str]]]) -> str:
    return clist([f"({cz(k)}, {clist([cs(x) for x in v])})" for k, v in d])


def c_cfg(c: dict) -> str:
    sub = clist([f"({cs(k)}, {clist([cs(x) for x in v])})" for k, v in c["sub_map"]])
    return (f"(mk_cfg {c_dict(c['ignores'])} {cb(c['has_ignores'])} {cb(c['ignore_all'])} {clist([cz(x) for x in c['skipped']])} "
            f"{clist([cs(x) for x in c['disabled']])} {clist([cs(x) for x in c['enabled']])} {sub})")


COQ_HEADER = """From Coq Require Import ZArith List String Ascii Bool.
From C13 Require Import Types Model Check.
From Gen Require Import ErrorsCore.
Import ListNotations.
Open Scope list_scope.
Open Scope Z_scope.
"""

# ======================================================================================
# the declarative specification, in Python (mirror of coq/C13/Proofs.v: visible, emit, dedup_once,
# and of Model.unused_ignore_one / without_code_one).  Infos are dicts as produced by snap_info.
# ======================================================================================

def code_enabled(code: dict, dis: set[str], en: set[str]) -> bool:
    if code["name"] in dis:
        return False
    if code["name"] in en:
        return True
    if code["sub"] and code["sub"] in dis:
        return False
    return code["dflt"]


MISC = {"name": "misc", "sub": None, "dflt": True, "orig": None}


def codes_match(codes: list[str], i: dict) -> bool:
    if not codes:
        return True
    c = i["code"]
    return c is not None and (c["name"] in codes or (c["sub"] is not None and c["sub"] in codes))


def absorbs(cfg: dict, l: int, i: dict) -> bool:
    c = i["code"]
    if c is not None and not code_enabled(c, cfg["dis"], cfg["en"]):
        return True
    return l in cfg["ign"] and codes_match(cfg["ign"][l], i)


def spec_visible(cfg: dict, i: dict) -> bool:
    if i["blocker"]:
        return True
    sup = cfg["has_ignores"] and any(absorbs(cfg, l, i) for l in i["span"])
    return not sup and not cfg["ignore_all"]


def spec_absorbed_at(cfg: dict, i: dict) -> int | None:
    if i["blocker"] or not cfg["has_ignores"]:
        return None
    for l in i["span"]:
        if absorbs(cfg, l, i):
            return l if code_enabled(i["code"] or MISC, cfg["dis"], cfg["en"]) else None
    return None


def cover_msg(code: dict, codes: list[str]) -> str:
    if code["orig"] and code["orig"] in codes:
        return f'Error code changed to {code["name"]}; "type: ignore" comment may be out of date'
    return f'Error code "{code["name"]}" not covered by "type: ignore[{", ".join(codes)}]" comment'


def spec_file_map(cfgs: dict[str, dict], stream: list[dict]) -> tuple[dict[str, list[tuple]], dict[str, dict[int, list[str]]]]:
    """Expected error_info_map (canonical tuples per file) and used marks, from a global reported stream."""
    once: set[str] = set()
    out: dict[str, list[tuple]] = {}
    used: dict[str, dict[int, list[str]]] = {}
    for i in stream:
        f = i["file"]
        cfg = dict(cfgs[f])
        cfg["dis"], cfg["en"] = set(i["dis"]), set(i["en"])
        if not i.get("has_ign", True):
            # reported before the file's ignore comments were registered (e.g. inline-configuration errors):
            # add_error_info then skips the ignore / disabled-code test altogether (Model: has_ignores = false)
            cfg["has_ignores"] = False
        a = spec_absorbed_at(cfg, i)
        if a is not None:
            used.setdefault(f, {}).setdefault(a, []).append((i["code"] or MISC)["name"])
        if not spec_visible(cfg, i):
            continue
        if i["once"]:
            if i["msg"] in once:
                continue
            once.add(i["msg"])
        out.setdefault(f, []).append(canon(i))
        codes = cfg["ign"].get(i["line"], []) if cfg["has_ignores"] else []
        if codes and i["code"] is not None:
            out[f].append((i["line"], None, "note", canon_msg(cover_msg(i["code"], codes)), False))
    return out, used


def spec_generated(cfg: dict, used: dict[int, list[str]], warn_unused: bool, gen_unused: bool, gen_without: bool,
                   sub_map: dict[str, list[str]]) -> list[tuple]:
    res: list[tuple] = []
    if cfg["ignore_all"]:
        return res
    if gen_unused:
        for line, codes in cfg["ign"].items():
            if line in cfg["skipped"] or "unused-ignore" in codes:
                continue
            usedc = used.get(line, [])
            unused = [c for c in codes if c not in usedc]
            if (not codes and usedc) or (codes and not unused):
                continue
            m = ""
            if len(codes) > 1 and unused:
                m = f"[{', '.join(unused)}]"
            msg = f'Unused "type: ignore{m}" comment'
            for u in unused:
                n = [x for x in sorted(sub_map.get(u, [])) if x in usedc]
                if n:
                    msg += f", use narrower [{', '.join(n)}] instead of [{u}] code"
            res.append((line, "unused-ignore", "error", canon_msg(msg), False))
    if gen_without:
        for line, codes in cfg["ign"].items():
            if line in cfg["skipped"] or codes:
                continue
            usedc = used.get(line, [])
            if warn_unused and not usedc:
                continue
            hint = f' (consider "type: ignore[{", ".join(sorted(set(usedc)))}]" instead)' if usedc else ""
            res.append((line, "ignore-without-code", "error", canon_msg(f'"type: ignore" comment without error code{hint}'), False))
    return res


def canon_msg(m: str) -> str:
    # the suggestion is skipped by semanal when the line carries an ignore comment (an optimisation that does not
    # change which diagnostic is reported): compare without it
    m = re.sub(r"; did you mean .*\?$", "", m)
    mm = re.search(r"use narrower \[([^\]]*)\]", m)
    if mm:
        m = m.replace(mm.group(1), ", ".join(sorted(mm.group(1).split(", "))))
    return m


def canon(i: dict) -> tuple:
    return (i["line"], i["code"]["name"] if i["code"] else None, "error" if i["error"] else "note", canon_msg(i["msg"]), i["blocker"])


# ======================================================================================
# worker: runs inside `PYTHONPATH=<repo> /venv/bin/python tools/harness/C13.py --worker`
# ======================================================================================

def snap_code(c: Any, orig_map: dict) -> dict | None:
    if c is None:
        return None
    o = orig_map.get(c)
    return {"name": c.code, "sub": c.sub_code_of.code if c.sub_code_of is not None else None,
            "dflt": bool(c.default_enabled), "orig": o.code if o is not None else None}


class Recorder:
    """Observe the stream handed to Errors.add_error_info (after the ErrorWatcher stack), from outside."""

    def __init__(self) -> None:
        from mypy import errors as E
        self.E = E
        self.stream: list[dict] = []
        self.ids: dict[int, int] = {}
        self.keep: list[Any] = []
        self.errors_obj: Any = None
        self.main_errors: Any = None
        orig_add = E.Errors.add_error_info
        orig_filter = E.Errors._filter_error
        rec = self

        def _filter_error(self: Any, file: str, info: Any) -> bool:
            r = orig_filter(self, file, info)
            p = getattr(self, "_verif_pending", None)
            if p is not None and p[0] is info and p[1] is None:
                p[1] = r
            return r

        def add_error_info(self: Any, info: Any, *, file: str | None = None) -> None:
            f = file or self.file
            pend = [info, None]
            self._verif_pending = pend
            dis = sorted(c.code for c in self.options.disabled_error_codes)
            en = sorted(c.code for c in self.options.enabled_error_codes)
            has_ign = f in self.ignored_lines      # `if file in self.ignored_lines:` at the time of the report
            watch = bool(self._watchers)           # an ErrorWatcher is active: _add_error_info asks it again, also for the note
            if not isinstance(info.origin_span, (list, tuple)):
                # messages.py passes an itertools.chain: a one-shot iterator.  Replace it by the equal list so that it can
                # be observed here without consuming it (add_error_info iterates it once either way).
                info.origin_span = list(info.origin_span)
            try:
                orig_add(self, info, file=file)
            finally:
                self._verif_pending = None
            if pend[1] is False:
                rec.errors_obj = self
                d = rec.snap_info(info, f)
                d["dis"], d["en"] = dis, en
                d["has_ign"] = has_ign
                d["watch"] = watch
                d["eobj"] = id(self)       # throw-away Errors objects (speculative analysis) are not the build's
                rec.stream.append(d)

        orig_raise = E.Errors.raise_error

        def raise_error(self: Any, use_stdout: bool = True) -> Any:
            rec.main_errors = self     # the object whose messages become the CompileError
            return orig_raise(self, use_stdout)

        E.Errors.raise_error = raise_error  # type: ignore[method-assign]
        E.Errors.add_error_info = add_error_info  # type: ignore[method-assign]
        E.Errors._filter_error = _filter_error  # type: ignore[method-assign]

    def reset(self) -> None:
        self.stream, self.ids, self.keep, self.errors_obj, self.main_errors = [], {}, [], None, None

    def snap_info(self, info: Any, f: str | None = None) -> dict:
        n = self.ids.get(id(info))
        if n is None and f is not None:
            n = len(self.ids)
            self.ids[id(info)] = n
            self.keep.append(info)
        par = info.parent_error
        return {"file": f, "id": -1 if n is None else n, "line": info.line, "col": info.column, "span": list(info.origin_span),
                "code": snap_code(info.code, self.E.original_error_codes), "error": info.severity == "error",
                "blocker": bool(info.blocker), "once": bool(info.only_once), "msg": info.message,
                "parent": None if par is None else self.ids.get(id(par), -2), "hidden": bool(info.hidden)}


def exit_block_code(repo: str) -> Any:
    """The exit-status statements of main(), compiled from the source text of the working tree."""
    import ast
    sys.path.insert(0, os.path.join(os.path.dirname(os.path.dirname(os.path.abspath(__file__)))))
    from extractors import t13 as T
    tree = ast.parse(open(os.path.join(repo, "mypy/main.py"), encoding="utf-8").read())
    main = [n for n in tree.body if isinstance(n, ast.FunctionDef) and n.name == "main"][0]
    mod = ast.Module(body=T.find_exit_block(main), type_ignores=[])
    return compile(ast.fix_missing_locations(mod), "<main.py exit-status block>", "exec")


class MypyCrash(Exception):
    """mypy itself failed on a program (INTERNAL ERROR -> report_internal_error raises SystemExit(2); or any exception)."""


def run_build(rec: Recorder, files: dict[str, str], main_text: str, flag_list: list[str], pyver: tuple[int, int] | None,
              exit_code_obj: Any) -> dict:
    """One in-process build of a test-data style program in the current (temporary) directory."""
    from mypy import build, util
    from mypy.errors import CompileError
    from mypy.main import process_options
    from mypy.modulefinder import BuildSource
    import mypy.errorcodes as codes
    for p, t in files.items():
        os.makedirs(os.path.dirname(p) or ".", exist_ok=True)
        with open(p, "w", encoding="utf-8") as fh:
            fh.write(t)
    with open("main", "w", encoding="utf-8") as fh:
        fh.write(main_text)
    try:
        _, options = process_options(flag_list + ["--no-site-packages"], require_targets=False)
    except BaseException as e:  # noqa: BLE001 - argparse exits on flags the in-process driver cannot take
        if isinstance(e, KeyboardInterrupt):
            raise
        raise MypyCrash(f"options: {type(e).__name__}: {str(e)[:200]}") from None
    options.use_builtins_fixtures = True
    options.show_traceback = True
    options.incremental = False
    options.cache_dir = os.devnull
    options.hide_error_codes = False
    options.error_summary = False
    if pyver is not None and all(f.split("=")[0] != "--python-version" for f in flag_list):
        options.python_version = pyver
    rec.reset()
    messages: list[str] = []
    blockers = False
    res = None
    try:
        res = build.build([BuildSource("main", "__main__", main_text)], options, alt_lib_path="tmp",
                          flush_errors=lambda fn, msgs, serious: messages.extend(msgs))
    except CompileError:
        blockers = True
    except KeyboardInterrupt:
        raise
    except BaseException as e:  # noqa: BLE001 - SystemExit(2) from report_internal_error is not an Exception
        raise MypyCrash(f"{type(e).__name__}: {str(e)[:200]}") from None
    errs = res.manager.errors if res is not None else rec.main_errors
    stream = [d for d in rec.stream if d["eobj"] == id(errs)]
    out: dict[str, Any] = {"messages": messages, "blockers": blockers, "stream": stream, "maps": {}, "cfg": {}, "gen": {}}
    if errs is not None:
        for f, infos in errs.error_info_map.items():
            out["maps"][f] = [rec.snap_info(i) for i in infos]
        for f in set(errs.ignored_lines) | set(errs.error_info_map):
            out["cfg"][f] = {"ign": {int(k): list(v) for k, v in errs.ignored_lines.get(f, {}).items()},
                             "has_ignores": f in errs.ignored_lines, "ignore_all": f in errs.ignored_files,
                             "skipped": sorted(errs.skipped_lines.get(f, set()))}
    if res is not None:
        for st in res.graph.values():
            o = st.options
            gen_unused = ((o.warn_unused_ignores or codes.UNUSED_IGNORE in o.enabled_error_codes)
                          and codes.UNUSED_IGNORE not in o.disabled_error_codes)
            dis = {c.code for c in o.disabled_error_codes}
            en = {c.code for c in o.enabled_error_codes}
            gen_without = code_enabled(snap_code(codes.IGNORE_WITHOUT_CODE, {}), dis, en)  # type: ignore[arg-type]
            typeshed = st.tree is not None and st.tree.is_typeshed_file(o)
            out["gen"][st.xpath] = {"warn": bool(o.warn_unused_ignores), "unused": gen_unused and not typeshed,
                                    "without": gen_without and not typeshed, "dis": sorted(dis), "en": sorted(en)}
    # the process exit status, by the exit-status block of main() itself
    ns: dict[str, Any] = {"util": util, "messages": list(messages), "blockers": blockers}
    exec(exit_code_obj, ns)
    out["exit"] = ns["code"]
    return out


def annotatable_lines(text: str) -> tuple[str, set[int]]:
    """Strip the test-suite's `# E:`/`# N:`/`# W:` expectation comments; return the new text and the physical lines at
    whose end a comment can be appended (a logical or non-logical line ends there, no comment yet)."""
    import io
    import tokenize
    lines = text.split("\n")
    try:
        toks = list(tokenize.generate_tokens(io.StringIO(text).readline))
    except Exception:
        return text, set()
    for t in toks:
        if t.type == tokenize.COMMENT and re.match(r"#\s*(E|N|W)(:\d+)?:", t.string) and t.start[0] == t.end[0]:
            r = t.start[0] - 1
            lines[r] = lines[r][:t.start[1]].rstrip()
    text2 = "\n".join(lines)
    try:
        toks = list(tokenize.generate_tokens(io.StringIO(text2).readline))
    except Exception:
        return text, set()
    ok: set[int] = set()
    commented = {t.start[0] for t in toks if t.type == tokenize.COMMENT}
    for t in toks:
        if t.type in (tokenize.NEWLINE, tokenize.NL) and t.start[0] not in commented:
            row = t.start[0]
            if row <= len(lines) and lines[row - 1].strip() and not lines[row - 1].rstrip().endswith("\\"):
                ok.add(row)
    return text2, ok


def annotate(text: str, ann: dict[int, list[str]]) -> str:
    lines = text.split("\n")
    for l, codes in ann.items():
        lines[l - 1] = lines[l - 1].rstrip() + "  # type: ignore" + (f"[{', '.join(codes)}]" if codes else "")
    return "\n".join(lines)


def cfgs_of(run: dict) -> dict[str, dict]:
    cf: dict[str, dict] = {}
    for f, c in run["cfg"].items():
        cf[f] = {"ign": {int(k): v for k, v in c["ign"].items()}, "has_ignores": c["has_ignores"],
                 "ignore_all": c["ignore_all"], "skipped": set(c["skipped"])}
    return cf


def actual_maps(run: dict) -> tuple[dict[str, list[tuple]], dict[str, list[tuple]]]:
    """(reported infos, generated unused-ignore / ignore-without-code errors) per file, canonical, sorted."""
    rep: dict[str, list[tuple]] = {}
    gen: dict[str, list[tuple]] = {}
    for f, infos in run["maps"].items():
        for i in infos:
            c = canon(i)
            if i["id"] == -1 and c[1] in ("unused-ignore", "ignore-without-code") and i["col"] == -1:
                gen.setdefault(f, []).append(c)
            else:
                rep.setdefault(f, []).append(c)
    return {f: sorted(v, key=repr) for f, v in rep.items()}, {f: sorted(v, key=repr) for f, v in gen.items()}


def expected_maps(run_cfg: dict, stream: list[dict], cfgs: dict[str, dict], sub_map: dict[str, list[str]]) -> tuple[dict, dict]:
    for i in stream:
        if i["file"] not in cfgs:
            cfgs[i["file"]] = {"ign": {}, "has_ignores": False, "ignore_all": False, "skipped": set()}
    rep, used = spec_file_map(cfgs, stream)
    gen: dict[str, list[tuple]] = {}
    if not run_cfg["blockers"]:
        for f, g in run_cfg["gen"].items():
            if f in cfgs and cfgs[f]["has_ignores"]:
                r = spec_generated(cfgs[f], used.get(f, {}), g["warn"], g["unused"], g["without"], sub_map)
                if r:
                    gen[f] = r
    return {f: sorted(v, key=repr) for f, v in rep.items()}, {f: sorted(v, key=repr) for f, v in gen.items()}


def disabled_leaks(run: dict) -> dict[str, list[tuple]]:
    """Non-blocking infos whose code is disabled but which were reported before the file's ignored_lines entry existed,
    so that add_error_info never consulted is_ignored_error: they are shown although their code is disabled."""
    res: dict[str, list[tuple]] = {}
    cfgs = cfgs_of(run)
    for i in run["stream"]:
        c = i["code"]
        if (not i["blocker"] and c is not None and not code_enabled(c, set(i["dis"]), set(i["en"])) and not i.get("has_ign", True)
                and not cfgs.get(i["file"], {}).get("ignore_all", False)):
            res.setdefault(i["file"], []).append(canon(i))
    return res


COVER = re.compile(r'^(Error code "[^"]*" not covered by "type: ignore\[|Error code changed to )')


def drop_cover(maps: dict[str, list[tuple]], run: dict) -> dict[str, list[tuple]]:
    """ErrorWatchers are not modelled: while one is active, _add_error_info consults it a second time and the
    "not covered" note (code None) may be filtered, collected and re-added later, or dropped.  In files where some info
    was added under an active watcher the notes are therefore left out of the comparison (they are tied in C)."""
    files = {i["file"] for i in run["stream"] if i.get("watch")}
    return {f: ([c for c in v if not (c[1] is None and c[2] == "note" and COVER.match(c[3]))] if f in files else v)
            for f, v in maps.items()}


def exit_oracle(run: dict) -> tuple[int, bool]:
    has_error = any(i["error"] and not i["hidden"] for infos in run["maps"].values() for i in infos)
    return (2 if run["blockers"] else (1 if has_error else 0)), has_error


def worker_case(rec: Recorder, job: dict, exit_obj: Any, sub_map: dict[str, list[str]]) -> dict:
    import random
    import tempfile
    import shutil
    rng = random.Random(job["seed"])
    res: dict[str, Any] = {"name": job["name"], "runs": 0, "variants": [], "problems": [], "skipped": None, "nontrivial": 0,
                           "suppressed": 0, "kinds": {}}
    text, ok_lines = annotatable_lines(job["main"])
    cwd = os.getcwd()
    tmp = tempfile.mkdtemp(prefix="c13-")
    os.chdir(tmp)
    try:
        flags = job["flags"]
        pyver = tuple(job["pyver"]) if job["pyver"] else None

        def build(main_text: str, extra: list[str]) -> dict:
            res["runs"] += 1
            return run_build(rec, job["files"], main_text, flags + extra, pyver, exit_obj)  # type: ignore[arg-type]

        def check_exit(r: dict, label: str) -> None:
            want, has_error = exit_oracle(r)
            if r["exit"] != want:
                f1 = r["exit"] == 0 and has_error and any(": error:" in m and ": note:" in m for m in r["messages"])
                res["problems"].append({"kind": "exit", "f1": f1, "label": label, "exit": r["exit"], "expected": want,
                                        "json_notes": label == "output-json" and r["exit"] == 1 and want == 0,
                                        "messages": r["messages"][:6]})

        try:
            A = build(text, [])
        except Exception as e:  # noqa: BLE001 - a crash of mypy on a corpus program is not this property's business
            res["skipped"] = "mypy fails on the un-annotated program (not a C13 matter)"
            res["skip_detail"] = repr(e)[:200]
            return res
        check_exit(A, "base")
        if any(i["hidden"] or i["msg"].startswith("(Skipping most remaining errors") for v in A["maps"].values() for i in v):
            res["skipped"] = "many-errors limiter triggered (modelled and tied in C; S does not recompute it)"
            return res
        if len(A["stream"]) >= 150:
            res["skipped"] = "too many messages (many_errors_threshold region not modelled)"
            return res
        cfA = cfgs_of(A)
        # the output format does not change which messages are reported, and the exit status stays truthful
        for label, extra in (("output-json", ["--output=json"]), ("pretty", ["--pretty"])):
            try:
                R = build(text, extra)
            except Exception as e:  # noqa: BLE001
                res["problems"].append({"kind": "crash", "label": label, "exc": repr(e)[:300], "program": text[:2500], "flags": flags + extra})
                continue
            check_exit(R, label)
            res["kinds"][label] = res["kinds"].get(label, 0) + 1
            if actual_maps(R) != actual_maps(A) or R["blockers"] != A["blockers"]:
                res["problems"].append({"kind": "render-changes-messages", "label": label,
                                        "diff": diff_maps(actual_maps(R)[0], actual_maps(A)[0]), "program": text[:2000]})
        # self-consistency of the base run: actual map = spec(own cfg, own stream)
        repA, genA = actual_maps(A)
        expA, expgA = expected_maps(A, A["stream"], cfgs_of(A), sub_map)
        repA, expA = drop_cover(repA, A), drop_cover(expA, A)
        if repA != expA or genA != expgA:
            res["problems"].append({"kind": "inexact-own-stream", "label": "base", "actual": diff_maps(repA, expA), "gen": [genA, expgA]})
            return res
        main_cfg = cfA.get("main")
        if main_cfg is None or A["blockers"] or main_cfg["ignore_all"] or "type: ignore" in text:
            res["skipped"] = "no ignore variants (blocker / file-level ignore / program has its own ignore comments)"
            vis = []
        else:
            vis = [i for i in A["stream"] if i["file"] == "main" and not i["blocker"]
                   and spec_visible({**main_cfg, "dis": set(i["dis"]), "en": set(i["en"])}, i)]
        by_line: dict[int, list[dict]] = {}
        for i in vis:
            for l in i["span"]:
                if l in ok_lines:
                    by_line.setdefault(l, []).append(i)
        lines = sorted(by_line)
        variants: list[tuple[str, dict[int, list[str]]]] = []
        if lines:
            def right(l: int) -> list[str]:
                return sorted({(i["code"] or MISC)["name"] for i in by_line[l]})
            present = {(i["code"] or MISC)["name"] for i in vis} | {(i["code"] or MISC)["sub"] for i in vis}
            wrong = [c for c in ("override", "attr-defined", "arg-type", "index") if c not in present][0]
            sub_lines = {l: sorted({i["code"]["sub"] for i in by_line[l] if i["code"] and i["code"]["sub"]}) for l in lines}
            child_lines = {l: sorted({sorted(sub_map[i["code"]["name"]])[0] for i in by_line[l]
                                      if i["code"] and sub_map.get(i["code"]["name"])}) for l in lines}
            clean = [l for l in sorted(ok_lines) if l not in by_line and l > min(lines)]
            variants.append(("bare-all", {l: [] for l in lines}))
            if len(lines) > 1:
                sub = [l for l in lines if rng.random() < 0.5] or [lines[0]]
                variants.append(("bare-subset", {l: [] for l in sub}))
                variants.append(("bare-one", {rng.choice(lines): []}))
            variants.append(("coded-right", {l: right(l) for l in lines}))
            variants.append(("coded-first-only", {l: right(l)[:1] for l in lines}))
            variants.append(("wrong-coded", {l: [wrong] for l in lines}))
            variants.append(("right+wrong", {l: right(l)[:1] + [wrong] for l in lines}))
            if any(sub_lines.values()):
                variants.append(("parent-coded", {l: (sub_lines[l] or right(l)) for l in lines}))
            if any(child_lines.values()):
                variants.append(("sub-coded", {l: (child_lines[l] or right(l)) for l in lines}))
            if clean:
                variants.append(("clean-line", {clean[0]: [], lines[0]: right(lines[0])}))
            mixed = {}
            for l in lines:
                k = rng.choice(["bare", "right", "wrong", "none"])
                if k != "none":
                    mixed[l] = [] if k == "bare" else (right(l) if k == "right" else [wrong])
            if mixed:
                variants.append(("mixed", mixed))
        for kind, ann in variants[: job["max_variants"]]:
            textB = annotate(text, ann)
            try:
                B = build(textB, ["--warn-unused-ignores"])
            except Exception as e:  # noqa: BLE001
                res["problems"].append({"kind": "crash", "label": kind, "exc": repr(e)[:300], "program": textB[:2500], "flags": flags + ["--warn-unused-ignores"]})
                continue
            check_exit(B, kind)
            cfB = cfgs_of(B)
            want_ign = dict(main_cfg["ign"])
            want_ign.update(ann)
            if "main" not in cfB or cfB["main"]["ign"] != want_ign or cfB["main"]["ignore_all"]:
                res["kinds"]["unparsable"] = res["kinds"].get("unparsable", 0) + 1
                continue
            # expected from A's stream under B's configuration (other files: B's own, identical program text)
            cfX = cfgs_of(B)
            streamA = [dict(i, dis=i["dis"], en=i["en"]) for i in A["stream"]]
            expB, expgB = expected_maps(B, streamA, cfX, sub_map)
            repB, genB = actual_maps(B)
            repB, expB = drop_cover(repB, B), drop_cover(expB, B)
            nsup = sum(len(v) for v in repA.values()) - sum(len(v) for v in repB.values())
            res["kinds"][kind] = res["kinds"].get(kind, 0) + 1
            if nsup > 0:
                res["nontrivial"] += 1
                res["suppressed"] += nsup
            if repB != expB or genB != expgB:
                ownB, owngB = expected_maps(B, B["stream"], cfgs_of(B), sub_map)
                ownB = drop_cover(ownB, B)
                # known cause of a changed stream: the "not covered" note emitted for a [deprecated] warning on a line whose
                # ignore lists other codes trips an active ErrorWatcher (has_new_errors), the checker takes its failure path
                dep_cover = any(i["code"] and i["code"]["name"] == "deprecated"
                                and any(l in ann and ann[l] and not codes_match(ann[l], i) for l in i["span"])
                                for i in B["stream"] if i["file"] == "main")
                res["problems"].append({
                    "deprecated_cover": dep_cover,
                    "kind": "inexact-own-stream" if (repB != ownB or genB != owngB) else "stream-depends-on-ignore",
                    "label": kind, "ann": {str(k): v for k, v in ann.items()}, "diff": diff_maps(repB, expB),
                    "gen": [genB, expgB], "program": textB[:3000]})
            res["variants"].append(kind)
        # --disable-error-code / --enable-error-code
        errs_main = [i for i in A["stream"] if not i["blocker"] and i["code"]]
        shown = {f: [c for c in v if c[2] == "error"] for f, v in repA.items()}
        codes_present = sorted({c[1] for v in shown.values() for c in v if c[1]})
        off_codes = sorted({i["code"]["name"] for i in errs_main if not i["code"]["dflt"] and i["error"]
                            and not code_enabled(i["code"], set(i["dis"]), set(i["en"]))})
        rng.shuffle(codes_present)
        for x in codes_present[: job["max_codes"]]:
            try:
                B = build(text, ["--disable-error-code", x])
            except Exception as e:  # noqa: BLE001
                res["problems"].append({"kind": "crash", "label": "disable " + x, "exc": repr(e)[:300], "program": text[:2500], "flags": flags + ["--disable-error-code", x]})
                continue
            check_exit(B, "disable " + x)
            repB, genB = actual_maps(B)
            ownB, owngB = expected_maps(B, B["stream"], cfgs_of(B), sub_map)
            repB, ownB = drop_cover(repB, B), drop_cover(ownB, B)
            res["kinds"]["disable"] = res["kinds"].get("disable", 0) + 1
            if repB != ownB or genB != owngB:
                res["problems"].append({"kind": "inexact-own-stream", "label": "disable " + x, "diff": diff_maps(repB, ownB)})
                continue

            codeof = {(f, canon(i)): i["code"] for f, infos in A["maps"].items() for i in infos if i["code"]}

            def still_enabled(f: str, c: tuple) -> bool:
                # two ErrorCode objects may share a name (CALL_ARG / CALL_ARG_MISC, the latter a sub-code of misc):
                # decide with the code record the info really carried
                g = B["gen"].get(f)
                cd = codeof.get((f, c))
                if c[4] or cd is None:
                    return True
                if g is None:
                    return not (cd["name"] == x or cd["sub"] == x)
                return code_enabled(cd, set(g["dis"]), set(g["en"]))

            def still_enabled_by_name(f: str, c: tuple) -> bool:
                # options.process_error_codes: "Enabling an error code always overrides disabling" (per module, too):
                # decide with the options the module really had in run B
                g = B["gen"].get(f)
                if c[4] or c[1] is None or c[1] not in CODES or g is None:
                    return True if (c[4] or c[1] is None or c[1] not in CODES) else not (c[1] == x or x in PARENTS.get(c[1], ()))
                return code_enabled(CODES[c[1]], set(g["dis"]), set(g["en"]))
            keepA = {f: [c for c in v if still_enabled(f, c)] for f, v in shown.items()}
            errB = {f: [c for c in v if c[2] == "error"] for f, v in repB.items()}
            leaks = disabled_leaks(B)
            if leaks:
                res["problems"].append({"kind": "disabled-code-leak", "label": "disable " + x, "leaks": {f: v[:5] for f, v in leaks.items()},
                                        "program": text[:1500], "files": {k: v[:600] for k, v in job["files"].items() if not k.endswith(".pyi")}})
                for f, v in leaks.items():
                    for c in v:
                        if c in errB.get(f, []):
                            errB[f].remove(c)
            keepA = {f: v for f, v in keepA.items() if v}
            errB = {f: v for f, v in errB.items() if v}
            if A["blockers"] == B["blockers"] and keepA != errB:
                res["problems"].append({"kind": "disable-not-exact", "label": "disable " + x, "diff": diff_maps(errB, keepA),
                                        "program": text[:3000]})
            else:
                res["nontrivial"] += 1
        for y in off_codes[: job["max_codes"]]:
            try:
                B = build(text, ["--enable-error-code", y])
            except Exception as e:  # noqa: BLE001
                res["problems"].append({"kind": "crash", "label": "enable " + y, "exc": repr(e)[:300], "program": text[:2500], "flags": flags + ["--enable-error-code", y]})
                continue
            check_exit(B, "enable " + y)
            repB, genB = actual_maps(B)
            ownB, owngB = expected_maps(B, B["stream"], cfgs_of(B), sub_map)
            repB, ownB = drop_cover(repB, B), drop_cover(ownB, B)
            res["kinds"]["enable"] = res["kinds"].get("enable", 0) + 1
            if repB != ownB or genB != owngB:
                res["problems"].append({"kind": "inexact-own-stream", "label": "enable " + y, "diff": diff_maps(repB, ownB)})
                continue
            errB = {f: [c for c in v if c[2] == "error"] for f, v in repB.items()}
            for f, v in shown.items():
                missing = [c for c in v if c not in errB.get(f, [])]
                if missing and A["blockers"] == B["blockers"]:
                    res["problems"].append({"kind": "enable-removed", "label": "enable " + y, "missing": missing[:5], "program": text[:3000]})
            extra = [c for f, v in errB.items() for c in v if c not in shown.get(f, []) and c[1] != y and y not in PARENTS.get(c[1] or "", ())]
            if extra and A["blockers"] == B["blockers"]:
                res["problems"].append({"kind": "enable-added-other-code", "label": "enable " + y, "extra": extra[:5], "program": text[:3000]})
        return res
    finally:
        os.chdir(cwd)
        shutil.rmtree(tmp, ignore_errors=True)


PARENTS: dict[str, tuple[str, ...]] = {}
CODES: dict[str, dict] = {}


def diff_maps(actual: dict, expected: dict) -> dict:
    from collections import Counter
    d = {}
    for f in sorted(set(actual) | set(expected)):
        a, e = Counter(map(tuple, actual.get(f, []))), Counter(map(tuple, expected.get(f, [])))
        if a != e:
            d[f] = {"only_actual": [list(x) + [n] for x, n in (a - e).items()][:8],
                    "only_expected": [list(x) + [n] for x, n in (e - a).items()][:8]}
    return d


def worker_api_run(job: dict) -> dict:
    """End-to-end: mypy.api.run on a generated program with the real typeshed; severities observed structurally."""
    import tempfile
    import shutil
    from mypy import api
    from mypy import errors as E
    sev: list[str] = []
    raised: list[bool] = []
    orig_fmt = E.Errors.format_messages
    orig_ce = E.CompileError.__init__

    def fmt(self: Any, path: str, error_tuples: Any, formatter: Any = None) -> list[str]:
        sev.extend(t[5] for t in error_tuples)
        return orig_fmt(self, path, error_tuples, formatter)

    def ce(self: Any, *a: Any, **k: Any) -> None:
        raised.append(True)
        orig_ce(self, *a, **k)
    E.Errors.format_messages = fmt  # type: ignore[method-assign]
    E.CompileError.__init__ = ce  # type: ignore[method-assign]
    tmp = tempfile.mkdtemp(prefix="c13-api-")
    cwd = os.getcwd()
    os.chdir(tmp)
    try:
        with open("prog.py", "w") as fh:
            fh.write(job["text"])
        out, err, status = api.run(["--no-incremental", "--cache-dir=" + os.devnull, "--no-error-summary"] + job["flags"] + ["prog.py"])
        has_error = "error" in sev
        want = 2 if raised else (1 if has_error else 0)
        return {"name": job["name"], "status": status, "expected": want, "stdout": out.splitlines()[:8], "stderr": err.splitlines()[:4],
                "f1": status == 0 and has_error and any(": error:" in l and ": note:" in l for l in out.splitlines())}
    finally:
        E.Errors.format_messages = orig_fmt  # type: ignore[method-assign]
        E.CompileError.__init__ = orig_ce  # type: ignore[method-assign]
        os.chdir(cwd)
        shutil.rmtree(tmp, ignore_errors=True)


def worker_main() -> None:
    jobs = json.load(sys.stdin)
    result_out = os.fdopen(os.dup(1), "w")     # results go here; anything mypy prints on fd 1 is sent to stderr
    os.dup2(2, 1)
    sys.stdout = sys.stderr
    repo = os.environ["PYTHONPATH"].split(os.pathsep)[0]
    import mypy.errorcodes as codes
    sub_map = {k: sorted(v) for k, v in codes.sub_code_map.items()}
    for c in codes.error_codes.values():
        CODES[c.code] = snap_code(c, {})  # type: ignore[assignment]
        if c.sub_code_of is not None:
            PARENTS[c.code] = (c.sub_code_of.code,)
    rec = Recorder()
    exit_obj = exit_block_code(repo)
    out = []
    for job in jobs:
        try:
            if job["type"] == "case":
                out.append(worker_case(rec, job, exit_obj, sub_map))
            else:
                out.append(worker_api_run(job))
        except KeyboardInterrupt:
            raise
        except BaseException:  # noqa: BLE001 - reported by the parent as a broken harness step, with the job name
            import traceback
            out.append({"name": job["name"], "harness_error": traceback.format_exc()[-1500:], "runs": 0, "variants": [], "problems": [],
                        "skipped": "harness error", "nontrivial": 0, "suppressed": 0, "kinds": {}})
    json.dump(out, result_out)
    result_out.flush()


# ======================================================================================
# corpus: programs of test-data/unit/check-*.test
# ======================================================================================

SECTION = re.compile(r"^\[([a-zA-Z_0-9-]+)(?: +(.*))?\]\s*$")
BAD_SECTIONS = re.compile(r"^(out\d+|stale\d*|rechecked\d*|targets\d*|delete\d*|triggered\d*|outfile|outfile-re|fixture)$")


def parse_test_file(path: str) -> list[dict]:
    cases: list[dict] = []
    cur: dict | None = None
    sec: tuple[str, str | None] | None = None
    buf: list[str] = []

    def close_sec() -> None:
        nonlocal buf
        if cur is not None and sec is not None:
            cur["sections"].append((sec[0], sec[1], buf))
        buf = []

    for raw in open(path, encoding="utf-8").read().split("\n"):
        if raw.startswith("--") :
            continue
        m = SECTION.match(raw)
        if m and m.group(1) == "case":
            close_sec()
            cur = {"name": m.group(2), "sections": []}
            cases.append(cur)
            sec = ("main", None)
        elif m and cur is not None and not raw.startswith("[["):
            close_sec()
            sec = (m.group(1), m.group(2))
        else:
            buf.append(raw[1:] if raw.startswith("\\[") else raw)
    close_sec()
    return cases


def corpus(repo: str) -> list[dict]:
    base = os.path.join(repo, "test-data", "unit")
    jobs: list[dict] = []
    for fn in sorted(os.listdir(base)):
        if not (fn.startswith("check-") and fn.endswith(".test")):
            continue
        if any(k in fn for k in ("incremental", "fine-grained", "serialize", "parallel", "reports", "custom-plugin", "modules-case", "python2")):
            continue
        m = re.search(r"python3(\d+)", fn)
        pyver = (3, int(m.group(1))) if m else None
        for c in parse_test_file(os.path.join(base, fn)):
            name = c["name"]
            if re.search(r"-(skip|xfail|windows|posix|writescache|only_when_cache|only_when_nocache)", name) or name.endswith("_no_native_parse"):
                continue
            main = None
            files: dict[str, str] = {}
            bad = False
            for sid, arg, lines in c["sections"]:
                body = "\n".join(lines).rstrip("\n") + "\n"
                if sid == "main":
                    main = body
                elif sid == "file" and arg:
                    if re.search(r"\.\d+$", arg) or arg.endswith((".ini", ".toml", ".cfg")):
                        bad = True
                    files[os.path.join("tmp", arg)] = body.replace("<ROOT>", ".")
                elif sid in ("builtins", "typing", "_typeshed") and arg:
                    p = os.path.join(base, arg)
                    if not os.path.exists(p):
                        bad = True
                    else:
                        files[os.path.join("tmp", {"builtins": "builtins.pyi", "typing": "typing.pyi", "_typeshed": "_typeshed.pyi"}[sid])] = open(p, encoding="utf-8").read()
                elif sid == "out":
                    pass
                elif BAD_SECTIONS.match(sid) or sid not in ("out",):
                    bad = True
            if bad or main is None or "# cmd:" in main or "# flags2" in main:
                continue
            fl = re.search("# flags: (.*)$", main, flags=re.MULTILINE)
            flags = fl.group(1).split() if fl else []
            if any(f.startswith(("--config-file", "--shadow-file", "--package", "-p", "-m", "--num-workers", "--junit", "--output", "-O",
                                 "--cache", "--incremental", "--sqlite", "--install-types", "--non-interactive", "--pretty",
                                 "--show-error-context", "--show-error-code-links", "--many-errors", "--soft-error-limit", "--ignore-errors", "--verbose", "-v", "--dump")) for f in flags):
                continue
            jobs.append({"type": "case", "name": fn + "::" + name, "main": main, "files": files, "flags": flags,
                         "pyver": list(pyver) if pyver else None})
    return jobs


PINNED = {"check-inline-config.test::testInlineInvert2", "check-inline-config.test::testInlineError1",
          "check-deprecated.test::testDeprecatedSpecialMethods"}

API_PROGRAMS = [
    ("typeddict-key-note-marker", 'from typing import TypedDict\nclass D(TypedDict):\n    x: int\nd: D = {"x": 1}\nd[": note:"]\n', []),
    ("literal-note-marker", 'from typing import Literal\nx: Literal[": note:"] = 1\n', []),
    ("attr-note-marker-and-plain-error", 'class C: pass\nC().y\nd = {"a": 1}\nd[": note:"] = "x"\n', []),
    ("only-notes-with-error-marker", 'reveal_type(": error:")\n', []),
    ("clean", "x: int = 1\n", []),
    ("plain-error", "x: int = 'a'\n", []),
    ("blocker-syntax", "def f(:\n", []),
    ("ignored-error", "x: int = 'a'  # type: ignore[assignment]\n", ["--warn-unused-ignores"]),
    ("unused-ignore", "x: int = 1  # type: ignore\n", ["--warn-unused-ignores"]),
    ("disabled-code", "x: int = 'a'\n", ["--disable-error-code", "assignment"]),
    ("json-plain-error", "x: int = 'a'\n", ["--output", "json"]),
    ("json-error-and-note", "x: int = 'a'\nreveal_type(x)\n", ["--output", "json"]),
    ("json-only-notes", "reveal_type(1)\n", ["--output", "json"]),
    ("json-clean", "x: int = 1\n", ["--output", "json"]),
    ("json-blocker-syntax", "def f(:\n", ["--output", "json"]),
    ("pretty-plain-error", "x: int = 'a'\n", ["--pretty"]),
    ("pretty-only-notes", "reveal_type(1)\n", ["--pretty"]),
]


def run_workers(ctx: Any, jobs: list[dict], nproc: int, timeout: float) -> list[dict]:
    chunks: list[list[dict]] = [[] for _ in range(nproc)]
    for k, j in enumerate(jobs):
        chunks[k % nproc].append(j)
    procs = []
    for ch in chunks:
        if not ch:
            continue
        p = subprocess.Popen([vlib.PY, os.path.abspath(__file__), "--worker"], stdin=subprocess.PIPE, stdout=subprocess.PIPE,
                             stderr=subprocess.PIPE, text=True, env=vlib.py_env(), cwd=vlib.VERIF)
        procs.append((p, ch))
    import threading
    results: list[dict] = []
    outs: dict[int, tuple[str, str]] = {}

    def feed(k: int, p: Any, ch: list[dict]) -> None:
        try:
            outs[k] = p.communicate(json.dumps(ch), timeout=timeout)
        except subprocess.TimeoutExpired:
            p.kill()
            outs[k] = ("", "timeout")
    ths = [threading.Thread(target=feed, args=(k, p, ch)) for k, (p, ch) in enumerate(procs)]
    for t in ths:
        t.start()
    for t in ths:
        t.join()
    for k, (p, ch) in enumerate(procs):
        o, e = outs[k]
        try:
            results += json.loads(o)
        except Exception:  # noqa: BLE001
            ctx.broke("S", "worker", f"worker failed (status {p.returncode}): {e[-1500:]}")
    return results


# ======================================================================================
# stage C
# ======================================================================================

POOL = ["deprecated", "attr-defined", "arg-type", "assignment", "method-assign", "misc", "typeddict-item", "typeddict-unknown-key",
        "import", "import-not-found", "import-untyped", "truthy-bool", "redundant-expr", "literal-required",
        "type-abstract", "override", "unused-ignore", "ignore-without-code", "call-arg", "unused-coroutine"]
MSGS = ["bad thing", "other thing", 'has no key ": note:"', "x: error: y", "third", "defined here"]


def gen_case(rng: Any, codes_mod: Any, orig_map: dict) -> dict:
    pool = [c for c in POOL if c in codes_mod.error_codes]
    names = pool + ["nonexistent"]
    nlines = 6
    ign: list[tuple[int, list[str]]] = []
    for l in rng.sample(range(1, nlines + 1), rng.randint(0, 4)):
        k = rng.random()
        ign.append((l, [] if k < 0.35 else rng.sample(names, 1 if k < 0.8 else 2)))
    cfg = {"ignores": ign, "has_ignores": rng.random() < 0.93, "ignore_all": rng.random() < 0.08,
           "skipped": rng.sample(range(1, nlines + 1), rng.choice([0, 0, 1, 2])),
           "disabled": rng.sample(pool, rng.choice([0, 0, 1, 2])), "enabled": rng.sample(pool, rng.choice([0, 0, 1, 2]))}
    infos = []
    for k in range(rng.randint(0, 8)):
        line = rng.randint(1, nlines)
        r = rng.random()
        span = [line] if r < 0.6 else (list(range(max(1, line - 2), line + 1)) if r < 0.8 else sorted(rng.sample(range(1, nlines + 1), 2), reverse=rng.random() < 0.5))
        blocker = rng.random() < 0.1
        code = None if rng.random() < (0.5 if blocker else 0.08) else (rng.choice(["import", "import-not-found", "import-untyped"]) if rng.random() < 0.2 else rng.choice(pool))
        error = blocker or rng.random() < 0.65
        parent = None
        if not error and infos and rng.random() < 0.4:
            cands = [j for j in infos if j["error"]]
            if cands:
                parent = rng.choice(cands)["id"]
        col = rng.choice([-1, 0, 4])
        infos.append({"id": k, "line": line, "col": col, "endline": line + rng.choice([0, 0, 1]), "endcol": col + rng.choice([1, 1, 3]),
                      "span": span, "codename": code, "error": error, "ctx": rng.choice([0, 0, 0, 1]),
                      "prio": rng.choice([0, 0, 0, 20, -1]),
                      "blocker": blocker, "once": rng.random() < 0.15, "msg": rng.choice(MSGS), "parent": parent})
    return {"cfg": cfg, "infos": infos, "warn": rng.random() < 0.5, "thr": rng.choice([200, 200, -1, 0, 1, 2, 3, 5])}


def drive_impl(case: dict, E: Any, codes_mod: Any, Options: Any) -> dict:
    cfg = case["cfg"]
    o = Options()
    o.disabled_error_codes = {codes_mod.error_codes[c] for c in cfg["disabled"]}
    o.enabled_error_codes = {codes_mod.error_codes[c] for c in cfg["enabled"]}
    o.many_errors_threshold = case["thr"]
    errs = E.Errors(o)
    f = "f.py"
    errs.set_file(f, "m", o)
    if cfg["has_ignores"]:
        errs.set_file_ignored_lines(f, {l: list(cs_) for l, cs_ in cfg["ignores"]}, cfg["ignore_all"])
    elif cfg["ignore_all"]:
        errs.ignored_files.add(f)
    errs.set_skipped_lines(f, set(cfg["skipped"]))
    objs: dict[int, Any] = {}
    ids: dict[int, int] = {}
    for i in case["infos"]:
        info = E.ErrorInfo(import_ctx=[("imp.py", i["ctx"])] if i["ctx"] else [], local_ctx=(None, None), line=i["line"],
                           column=i["col"], end_line=i["endline"],
                           end_column=i["endcol"], severity="error" if i["error"] else "note", message=i["msg"],
                           code=codes_mod.error_codes[i["codename"]] if i["codename"] else None, blocker=i["blocker"],
                           only_once=i["once"], module="m", target="t", origin_span=list(i["span"]), priority=i["prio"],
                           parent_error=objs[i["parent"]] if i["parent"] is not None else None)
        objs[i["id"]] = info
        ids[id(info)] = i["id"]
        errs.add_error_info(info)

    def snap(lst: list) -> list[dict]:
        res = []
        for x in lst:
            res.append({"id": ids.get(id(x), -1), "line": x.line, "col": x.column, "endline": x.end_line, "endcol": x.end_column,
                        "ctx": x.import_ctx[0][1] if x.import_ctx else 0, "prio": x.priority, "hidden": bool(x.hidden),
                        "span": list(x.origin_span),
                        "code": snap_code(x.code, E.original_error_codes), "error": x.severity == "error", "blocker": bool(x.blocker),
                        "once": bool(x.only_once), "msg": canon_msg(x.message),
                        "parent": ids.get(id(x.parent_error), -1) if x.parent_error is not None else None})
        return res
    out = snap(errs.error_info_map.get(f, []))
    used = [(l, list(v)) for l, v in sorted(errs.used_ignored_lines[f].items()) if v]
    once = sorted(errs.only_once_messages)
    if cfg["has_ignores"]:
        errs.generate_unused_ignore_errors(f)
        errs.generate_ignore_without_code_errors(f, case["warn"])
    final_objs = list(errs.error_info_map.get(f, []))
    final = snap(final_objs)
    dedup = snap(errs.remove_duplicates(final_objs))
    sorted_objs = errs.sort_messages([x for x in final_objs if not x.hidden])
    return {"out": out, "used": used, "once": once, "final": final, "dedup": dedup, "sorted": snap(sorted_objs),
            "printed": snap(errs.remove_duplicates(sorted_objs))}


def full_code(name: str | None, codes_mod: Any, orig_map: dict) -> dict | None:
    return snap_code(codes_mod.error_codes[name], orig_map) if name else None


def stage_C(ctx: Any) -> None:
    sys.path.insert(0, vlib.REPO)
    from mypy import errors as E
    from mypy import util
    from mypy.options import Options
    import mypy.errorcodes as codes_mod
    rng = vlib.Rng(ctx.seed, "C13-C")
    okc, outc = vlib.coq_make(["C13/Check.vo"])     # the comparison functions used by the cases below
    if not okc:
        ctx.broke("C", "C13/Check.v", "model / comparison functions do not build:\n" + outc[-1500:])
        return
    sub_map = sorted((k, sorted(v)) for k, v in codes_mod.sub_code_map.items())
    # ---- (1) translator self-correspondence
    exprs: list[str] = []
    meta: list[str] = []
    pool = [c for c in POOL if c in codes_mod.error_codes]
    sets = [[], ["misc"], ["method-assign"], ["import", "truthy-bool", "assignment"]]
    o = Options()
    errs = E.Errors(o)
    n_pred = 0
    for dis in sets:
        for en in sets:
            o.disabled_error_codes = {codes_mod.error_codes[c] for c in dis}
            o.enabled_error_codes = {codes_mod.error_codes[c] for c in en}
            d, e = clist([cs(x) for x in dis]), clist([cs(x) for x in en])
            for c in pool:
                got = errs.is_error_code_enabled(codes_mod.error_codes[c])
                code = c_code(full_code(c, codes_mod, E.original_error_codes))[6:-1]
                exprs.append(f"Bool.eqb (is_error_code_enabled {d} {e} {code}) {cb(got)}")
                meta.append(f"is_error_code_enabled dis={dis} en={en} code={c}")
            for ign in ([], [(3, [])], [(3, ["assignment"])], [(3, ["misc", "import"])], [(2, []), (3, ["typeddict-item"])]):
                for c in pool[:9] + [None]:
                    for blocker in (False, True):
                        info = E.ErrorInfo(import_ctx=[], local_ctx=(None, None), line=3, column=0, end_line=3, end_column=1,
                                           severity="error", message="m", code=codes_mod.error_codes[c] if c else None,
                                           blocker=blocker, only_once=False, module="m", target=None)
                        for line in (2, 3):
                            got = errs.is_ignored_error(line, info, dict(ign))
                            ii = {"id": 0, "line": 3, "col": 0, "span": [3], "code": full_code(c, codes_mod, E.original_error_codes),
                                  "error": True, "blocker": blocker, "once": False, "msg": "m", "parent": None}
                            exprs.append(f"Bool.eqb (is_ignored_error {d} {e} {cz(line)} {c_info(ii)} {c_dict(list(ign))}) {cb(got)}")
                            meta.append(f"is_ignored_error dis={dis} en={en} line={line} code={c} blocker={blocker} ignores={ign}")
    # the code table regenerated from errorcodes.py = the real ErrorCode objects; every table code against own / parent /
    # unrelated names in a coded ignore (sub_code_of is honoured exactly one level)
    try:
        table = t13.code_table()
    except Exception as e:  # noqa: BLE001
        table = []
        ctx.broke("T", "t13 code table", repr(e))
    real_objs = {(v.code, v.sub_code_of.code if v.sub_code_of else None, bool(v.default_enabled)): v
                 for v in vars(codes_mod).values() if isinstance(v, codes_mod.ErrorCode)}
    if table and set(table) != set(real_objs):
        ctx.broke("C", "code table vs mypy.errorcodes", f"only in table: {sorted(set(table) - set(real_objs), key=str)[:5]}; "
                  f"only in mypy: {sorted(set(real_objs) - set(table), key=str)[:5]}")
    o.disabled_error_codes, o.enabled_error_codes = set(), {v for v in real_objs.values() if not v.default_enabled}
    en_all = clist([cs(k[0]) for k in real_objs if not k[2]])
    children: dict[str, str] = {k[1]: k[0] for k in real_objs if k[1]}
    for key in sorted(set(table) & set(real_objs), key=str):
        obj = real_objs[key]
        info = E.ErrorInfo(import_ctx=[], local_ctx=(None, None), line=3, column=0, end_line=3, end_column=1, severity="error",
                           message="m", code=obj, blocker=False, only_once=False, module="m", target=None)
        names = [key[0], key[1] or "misc", children.get(key[0], "override"), real_objs.get((key[1], None, True), obj).sub_code_of and "x" or "syntax"]
        for nm in dict.fromkeys(names):
            got = errs.is_ignored_error(3, info, {3: [nm]})
            cd = {"name": key[0], "sub": key[1], "dflt": key[2], "orig": None}
            ii = {"id": 0, "line": 3, "col": 0, "span": [3], "code": cd, "error": True, "blocker": False, "once": False, "msg": "m", "parent": None}
            exprs.append(f"Bool.eqb (is_ignored_error [] {en_all} {cz(3)} {c_info(ii)} {c_dict([(3, [nm])])}) {cb(got)}")
            meta.append(f"is_ignored_error table code={key} ignore=[{nm}]")
    ctx.cov["code_table_size"] = len(table)
    n_pred = len(exprs)
    # count_stats + exit status on generated message lists
    import ast
    tree = ast.parse(vlib.read_repo("mypy/main.py"))
    main_fn = [n for n in tree.body if isinstance(n, ast.FunctionDef) and n.name == "main"][0]
    exit_obj = compile(ast.fix_missing_locations(ast.Module(body=t13.find_exit_block(main_fn), type_ignores=[])), "<exit>", "exec")
    frags = ["a.py:1: error: x", "a.py:2: note: y", 'b.py:3: error: no key ": note:"  [typeddict-item]', 'c.py:4: note: Revealed ": error:"',
             "    x = 1", "    ^~~", ": note:", ": error:", "plain text", 'C:\\d\\e.py:7:3: error: z  [misc]', "a.py:1: error: x", ""]
    for _ in range(ctx.n(250, 1500)):
        msgs = [rng.choice(frags) for _ in range(rng.randint(0, 5))]
        blockers = rng.random() < 0.3
        a, b, c3 = util.count_stats(list(msgs))
        ns: dict[str, Any] = {"util": util, "messages": list(msgs), "blockers": blockers}
        exec(exit_obj, ns)
        ml = clist([cs(m) for m in msgs])
        exprs.append(f"z3_eqb (count_stats {ml}) ({cz(a)}, {cz(b)}, {cz(c3)}) && (exit_code {ml} {cb(blockers)} =? {cz(ns['code'])})")
        meta.append(f"count_stats/exit_code {msgs} blockers={blockers} impl=({a},{b},{c3}) code={ns['code']}")
    res = ctx.eval_cases("self", COQ_HEADER, exprs)
    if res is not None:
        bad = [m for m, r in zip(meta, res) if r != "true"]
        for m in bad[:5]:
            ctx.broke("C", "translator self-correspondence", m)
        ctx.add("evaluations", len(exprs))
        ctx.cov["self_correspondence_cases"] = len(exprs)
    # ---- (2) driven Errors vs model
    n = ctx.n(800, 2500)
    cases = [gen_case(rng, codes_mod, E.original_error_codes) for _ in range(n)]
    exprs = []
    impls = []
    nontriv = 0
    feat: dict[str, int] = {}
    for case in cases:
        impl = drive_impl(case, E, codes_mod, Options)
        impls.append(impl)
        infos = [dict(i, code=full_code(i["codename"], codes_mod, E.original_error_codes)) for i in case["infos"]]
        cfg = dict(case["cfg"], sub_map=sub_map)
        obs = (f"(mk_obs {clist([c_info(x) for x in impl['out']])} {c_dict(impl['used'])} {clist([cs(x) for x in impl['once']])} "
               f"{clist([c_info(x) for x in impl['final']])} {clist([c_info(x) for x in impl['dedup']])} "
               f"{clist([c_info(x) for x in impl['sorted']])} {clist([c_info(x) for x in impl['printed']])})")
        exprs.append(f"check_case {c_cfg(cfg)} (mk_lim {cz(case['thr'])} 0 0) 0 {clist([c_info(x) for x in infos])} {cb(case['warn'])} "
                     f"{clist([cz(l) for l in range(0, 8)])} {obs}")
        if any(x["hidden"] for x in impl["out"]):
            feat["limiter_hid_infos"] = feat.get("limiter_hid_infos", 0) + 1
        if [x["id"] for x in impl["sorted"]] != [x["id"] for x in impl["final"] if not x["hidden"]]:
            feat["sort_reordered"] = feat.get("sort_reordered", 0) + 1
        if impl["used"]:
            feat["ignore_used"] = feat.get("ignore_used", 0) + 1
        if len(impl["out"]) < len(infos):
            nontriv += 1
        if any(x["id"] == -1 for x in impl["out"]):
            feat["cover_note"] = feat.get("cover_note", 0) + 1
        if len(impl["final"]) > len(impl["out"]):
            feat["unused_or_without_code_reported"] = feat.get("unused_or_without_code_reported", 0) + 1
        if len(impl["dedup"]) < len(impl["final"]):
            feat["duplicates_removed"] = feat.get("duplicates_removed", 0) + 1
    res = ctx.eval_cases("driven", COQ_HEADER, exprs, per_file=150)
    if res is not None:
        nbad = 0
        for case, impl, r in zip(cases, impls, res):
            if r != "[true; true; true; true; true; true; true]":
                nbad += 1
                if nbad <= 3:
                    ctx.broke("C", "driven Errors vs model", f"check_case = {r} (out, used, once, final, dedup, sorted, printed)", {"case": case, "impl": impl})
        ctx.add("evaluations", len(cases))
        ctx.log(f"C: {len(cases)} driven streams, {nbad} disagreements; {n_pred} predicate cases")
        ctx.add("traces_validated_against_impl", len(cases))
        ctx.cov["driven_streams"] = len(cases)
        ctx.cov["driven_streams_with_suppression"] = nontriv
        ctx.cov["driven_features"] = feat
        ctx.sample({"driven_case": cases[3], "impl": impls[3]})
    stage_C_watch_render(ctx, rng, E, codes_mod, Options, sub_map)


PREDS = {"false": ("false", lambda f, i: False), "true": ("true", lambda f, i: True),
         "even": ("Z.even (iline i)", lambda f, i: i.line % 2 == 0), "error": ("ierror i", lambda f, i: i.severity == "error")}


def stage_C_watch_render(ctx: Any, rng: Any, E: Any, codes_mod: Any, Options: Any, sub_map: Any) -> None:
    """(3) real Errors with a stack of real ErrorWatchers vs Model.run_w (at the regenerated watcher shape);
    (4) real create_errors / JSONFormatter and format_messages_default(--pretty) vs Model.create_errors / format_text."""
    import json as _json
    exprs: list[str] = []
    metas: list[Any] = []
    n = ctx.n(500, 2000)
    wfeat = {"note_filtered_by_watcher": 0, "info_filtered": 0, "has_new_errors": 0}
    for _ in range(n):
        case = gen_case(rng, codes_mod, E.original_error_codes)
        case["thr"] = -1
        for i in case["infos"]:
            if rng.random() < 0.25:
                i["codename"] = "deprecated"
        if rng.random() < 0.7 and "deprecated" not in case["cfg"]["enabled"]:
            case["cfg"]["enabled"] = case["cfg"]["enabled"] + ["deprecated"]
        stack = [(rng.choice(list(PREDS)), rng.random() < 0.5, rng.random() < 0.3) for _ in range(rng.randint(1, 3))]
        cfg = case["cfg"]
        o = Options()
        o.disabled_error_codes = {codes_mod.error_codes[c] for c in cfg["disabled"]}
        o.enabled_error_codes = {codes_mod.error_codes[c] for c in cfg["enabled"]}
        o.many_errors_threshold = -1
        errs = E.Errors(o)
        f = "f.py"
        errs.set_file(f, "m", o)
        if cfg["has_ignores"]:
            errs.set_file_ignored_lines(f, {l: list(c_) for l, c_ in cfg["ignores"]}, cfg["ignore_all"])
        elif cfg["ignore_all"]:
            errs.ignored_files.add(f)
        ws = []
        for kind, save, fdep in reversed(stack):     # the head of the model's list is the top of the stack
            w = E.ErrorWatcher(errs, filter_errors=(PREDS[kind][1] if kind not in ("true", "false") else kind == "true"),
                               save_filtered_errors=save, filter_deprecated=fdep)
            w.__enter__()
            ws.append(w)
        ws.reverse()
        objs: dict[int, Any] = {}
        ids: dict[int, int] = {}
        for i in case["infos"]:
            info = E.ErrorInfo(import_ctx=[("imp.py", i["ctx"])] if i["ctx"] else [], local_ctx=(None, None), line=i["line"],
                               column=i["col"], end_line=i["endline"], end_column=i["endcol"],
                               severity="error" if i["error"] else "note", message=i["msg"],
                               code=codes_mod.error_codes[i["codename"]] if i["codename"] else None, blocker=i["blocker"],
                               only_once=i["once"], module="m", target="t", origin_span=list(i["span"]), priority=i["prio"],
                               parent_error=objs[i["parent"]] if i["parent"] is not None else None)
            objs[i["id"]] = info
            ids[id(info)] = i["id"]
            errs.add_error_info(info)
        out = []
        for x in errs.error_info_map.get(f, []):
            out.append({"id": ids.get(id(x), -1), "line": x.line, "col": x.column, "endline": x.end_line, "endcol": x.end_column,
                        "ctx": x.import_ctx[0][1] if x.import_ctx else 0, "prio": x.priority, "hidden": bool(x.hidden),
                        "span": list(x.origin_span), "code": snap_code(x.code, E.original_error_codes), "error": x.severity == "error",
                        "blocker": bool(x.blocker), "once": bool(x.only_once), "msg": canon_msg(x.message),
                        "parent": ids.get(id(x.parent_error), -1) if x.parent_error is not None else None})
        wobs = [(w.has_new_errors(), [ids.get(id(x), -1) for x in (w._filtered or [])]) for w in ws]
        if any(-1 in fl for _, fl in wobs):
            wfeat["note_filtered_by_watcher"] += 1
        if any(fl for _, fl in wobs):
            wfeat["info_filtered"] += 1
        if any(h for h, _ in wobs):
            wfeat["has_new_errors"] += 1
        infos = [dict(i, code=full_code(i["codename"], codes_mod, E.original_error_codes)) for i in case["infos"]]
        cws = clist([f"(mk_w (fun i => {PREDS[k][0]}) {cb(sv)} {cb(fd)} false false [])" for k, sv, fd in stack])
        cobs = clist([f"({cb(h)}, {clist([cz(x) for x in fl])})" for h, fl in wobs])
        exprs.append(f"check_watch {c_cfg(dict(cfg, sub_map=sub_map))} {cws} {clist([c_info(x) for x in infos])} "
                     f"{clist([c_info(x) for x in out])} {cobs}")
        metas.append({"case": case, "stack": stack, "out": out, "wobs": wobs})
    res = ctx.eval_cases("watch", COQ_HEADER, exprs, per_file=150)
    if res is not None:
        nbad = 0
        for m, r in zip(metas, res):
            if r != "[true; true]":
                nbad += 1
                if nbad <= 3:
                    ctx.broke("C", "driven Errors + ErrorWatchers vs model", f"check_watch = {r} (out, watcher observations)", m)
        ctx.add("evaluations", len(exprs))
        ctx.add("traces_validated_against_impl", len(exprs))
        ctx.cov["watcher_streams"] = len(exprs)
        ctx.cov["watcher_features"] = wfeat
        ctx.log(f"C: {len(exprs)} streams under ErrorWatcher stacks, {nbad} disagreements")
    # ---- renderers
    from mypy.error_formatter import JSONFormatter
    exprs = []
    metas = []
    bad_py = 0
    m_render = ctx.n(400, 2000)
    fmt = JSONFormatter()
    for _ in range(m_render):
        ts = []
        for _k in range(rng.randint(0, 7)):
            sev = "error" if rng.random() < 0.5 else "note"
            ts.append((rng.choice([None, "a.py", "a.py", "b.py"]), rng.randint(1, 3), rng.choice([0, 4]), rng.randint(1, 3), rng.choice([1, 5]),
                       sev, rng.choice(MSGS), rng.choice([None, "misc", "arg-type"])))
        mes = E.create_errors(list(ts))
        def c_et(t: tuple) -> str:
            return (f"(mk_et {copt(cs(t[0]) if t[0] is not None else None)} {cz(t[1])} {cz(t[2])} {cz(t[3])} {cz(t[4])} "
                    f"{cb(t[5] == 'error')} {cs(t[6])} {copt(cs(t[7]) if t[7] is not None else None)})")
        obs = clist([f"(mk_me {c_et((e.file_path, e.line, e.column, e.end_line, e.end_column, e.severity, e.message, e.errorcode))} "
                     f"{clist([cs(h) for h in e.hints])})" for e in mes])
        exprs.append(f"check_create_errors {clist([c_et(t) for t in ts])} {obs}")
        metas.append(ts)
        # JSONFormatter: one JSON object per MypyError carrying exactly its fields
        for e in mes:
            d = _json.loads(fmt.report_error(e))
            if (d["file"], d["line"], d["column"], d["end_line"], d["end_column"], d["severity"], d["message"], d["code"]) != \
                    (e.file_path, e.line, e.column, e.end_line, e.end_column, e.severity, e.message, e.errorcode) or \
                    d["hint"] != (None if not e.hints else "\n".join(e.hints)):
                bad_py += 1
        # text: --pretty output minus the indented lines == plain output, one line per tuple
        src = ["x = 1", "  y = f(2)", "z"]
        for cols in (False, True):
            o1, o2 = Options(), Options()
            o1.pretty, o2.pretty = True, False
            o1.show_column_numbers = o2.show_column_numbers = cols
            p_lines = E.Errors(o1, hide_error_codes=False).format_messages_default(list(ts), src)
            n_lines = E.Errors(o2, hide_error_codes=False).format_messages_default(list(ts), src)
            want_extra = sum(2 for t in ts if t[5] == "error" and t[1] > 0)
            if [l for l in p_lines if not l.startswith("    ")] != n_lines or len(n_lines) != len(ts) or len(p_lines) != len(ts) + want_extra:
                bad_py += 1
    res = ctx.eval_cases("render", COQ_HEADER, exprs, per_file=200)
    if res is not None:
        nbad = sum(1 for r in res if r != "true")
        for ts, r in zip(metas, res):
            if r != "true":
                ctx.broke("C", "create_errors vs model", "check_create_errors = " + r, {"tuples": ts})
                break
        if bad_py:
            ctx.broke("C", "JSONFormatter / format_messages_default shape", f"{bad_py} rendered lists do not have the modelled shape")
        ctx.add("evaluations", 3 * len(exprs))
        ctx.cov["render_cases"] = len(exprs)
        ctx.log(f"C: {len(exprs)} tuple lists through create_errors / JSONFormatter / format_messages_default, {nbad + bad_py} disagreements")


# ======================================================================================
# P + A with the exit-status alternative
# ======================================================================================

def prove_alternative(ctx: Any, rel: str, variant: str | None, variants: tuple[str, str], place: Any, labels: dict[str, str],
                      what: str) -> str:
    """Build coq/gen/<rel>, which t13 copied from coq/C13/alt/ for the variant that applies to the working tree (decided on
    its syntax).  If it does not build, the other alternative is tried silently so that the evidence says which theorem
    holds; if neither builds the obligation is broken."""
    if variant is None:
        ctx.cov[what] = "translator failed: no theorem"
        return "broken"
    order = [variant, variants[1] if variant == variants[0] else variants[0]]
    for k, v in enumerate(order):
        if k:
            place(v)
        vlib.coq_make(vlib.coq_deps_of(rel))
        st, out = vlib.coqc_file(rel)
        if st == 0:
            ctx.prove(rel, ["C13", "lib"])
            ctx.cov[what] = labels[v]
            if k:
                ctx.log(f"note: the syntactic choice for {rel} was `{variant}` but only `{v}` builds")
            return v
        ctx.log(f"{rel} (variant {v}) does not build: " + (out.strip().splitlines() or ["?"])[-1][:200])
    place(variant)
    ctx.prove(rel, ["C13", "lib"])      # records the broken obligation with its error
    ctx.cov[what] = "no alternative builds"
    return "broken"


def stage_P(ctx: Any, variant: str | None, wvariant: str | None) -> tuple[str, str]:
    ctx.prove("C13/Properties.v", ["C13", "lib"])
    v1 = prove_alternative(ctx, "gen/ErrorsExit.v", variant, ("truth", "refuted"), t13.place_exit, {
        "truth": "exit_code_truth, exit_code_truth_final, exit_code_truth_limiter (count_stats is position-aware)",
        "refuted": "exit_code_refuted (count_stats classifies by substring: finding F1)"}, "exit_status_theorem")
    v2 = prove_alternative(ctx, "gen/ErrorsWatch.v", wvariant, ("reentry", "bypass"), t13.place_watch, {
        "reentry": "watcher_reentry_refuted_current (attached notes go through _filter_error again)",
        "bypass": "ignore_exact_with_watchers_current, watchers_independent_of_ignores_current"}, "watcher_theorem")
    return v1, v2


# ======================================================================================
# run
# ======================================================================================

def run(ctx: Any) -> None:
    ctx.cov["rule"] = ("C: random configurations (ignore comments bare/coded/2 codes, disabled/enabled sets, ignore_all, skipped lines) x "
                       "streams of 0-7 ErrorInfos (multi-line origin spans, sub-codes, blockers, only_once, parent notes, duplicate "
                       "messages) driven through real Errors objects; non-trivial = the stream loses at least one info.  "
                       "S: programs of test-data/unit/check-*.test (seeded sample) x {bare-all, bare-subset, bare-one, coded-right, "
                       "coded-first-only, wrong-coded, right+wrong, parent-coded, sub-coded, clean-line, mixed} ignore annotations of their "
                       "error lines x disable/enable of codes present; non-trivial = the variant suppresses at least one reported info")
    ctx.assumptions += [
        "model scope: one file's Errors state (the many-errors limiter with the other files' counts as parameters); ErrorWatchers, "
        "show_error_code_links, columns/--pretty/--show-error-context/--output=json rendering are not modelled "
        "(S skips runs reaching 150 messages and those flags); exit_code_truth_limiter assumes import-coded infos are errors",
        "exit-status theorem is about printed lines `srcloc: severity: text` whose srcloc contains no ': ' (file names without colon-space)",
        "the reported stream is observed by wrapping Errors.add_error_info/_filter_error from outside (no change to /repo)",
        "test-data programs are built like mypy/test/testcheck.py does (lib-stub fixtures, in-process build.build, no cache)",
        "S compares messages modulo the '; did you mean ...?' suffix that semanal omits on lines carrying an ignore comment, and the "
        "hash-order of the code list in 'use narrower [...]'",
        "translator tools/extractors/t13.py + tools/py2gallina.py (checked by self-correspondence on every run); vm_compute for the model",
    ]
    variant = wvariant = None
    try:
        t13.generate()
        variant = t13.exit_variant()
        wvariant = t13.watch_variant()
    except (Unsupported, Exception) as e:  # noqa: BLE001
        ctx.broke("T", "t13 translator", repr(e))
    verdict, wverdict = stage_P(ctx, variant, wvariant)
    stage_C(ctx)
    stage_S(ctx, verdict, wverdict)


def stage_S(ctx: Any, verdict: str, wverdict: str = "reentry") -> None:
    rng = vlib.Rng(ctx.seed, "C13-S")
    jobs = corpus(vlib.REPO)
    ctx.cov["corpus_programs"] = len(jobs)
    rng.shuffle(jobs)
    pinned = [j for j in jobs if j["name"] in PINNED]           # past findings: always in the sample
    jobs = pinned + [j for j in jobs if j["name"] not in PINNED][: int(os.environ.get("VERIF_C13_PROGRAMS", ctx.n(260, 1800)))]
    for k, j in enumerate(jobs):
        j["seed"] = f"{ctx.seed}/{j['name']}"
        j["max_variants"] = ctx.n(6, 12)
        j["max_codes"] = ctx.n(2, 4)
    api_jobs = [{"type": "api", "name": n, "text": t, "flags": f} for n, t, f in API_PROGRAMS]
    t0 = time.time()
    results = run_workers(ctx, api_jobs + jobs, vlib.NPROC, timeout=ctx.n(1200, 3000))
    ctx.log(f"S: {len(results)} jobs in {time.time()-t0:.1f}s")
    runs = 0
    kinds: dict[str, int] = {}
    nontrivial = 0
    suppressed = 0
    skipped: dict[str, int] = {}
    f1_seen = None
    json_notes_seen = None
    dep_seen = False
    for r in results:
        if "status" in r:   # api run
            runs += 1
            if r["status"] != r["expected"]:
                if r["f1"]:
                    f1_seen = f1_seen or {"kind": "api.run", **r}
                elif r["name"].startswith("json-") and r["status"] == 1 and r["expected"] == 0:
                    json_notes_seen = json_notes_seen or {"kind": "api.run", **r}
                else:
                    ctx.violation(f"exit-status:{r['name']}", f"mypy exits {r['status']} but the printed messages imply {r['expected']}", r)
            continue
        if r.get("harness_error"):
            ctx.broke("S", "harness", f"{r['name']}: {r['harness_error'][-600:]}")
        if r.get("skip_detail"):
            ctx.cov.setdefault("programs_mypy_fails_on", []).append({"program": r["name"], "error": r["skip_detail"]})
        runs += r["runs"]
        nontrivial += r["nontrivial"]
        suppressed += r["suppressed"]
        for k, v in r["kinds"].items():
            kinds[k] = kinds.get(k, 0) + v
        if r["skipped"]:
            skipped[r["skipped"]] = skipped.get(r["skipped"], 0) + 1
        for p in r["problems"]:
            if p["kind"] == "exit":
                if p["f1"]:
                    f1_seen = f1_seen or {"program": r["name"], **p}
                elif p.get("json_notes"):
                    json_notes_seen = json_notes_seen or {"program": r["name"], **p}
                else:
                    ctx.violation(f"exit-status:{r['name']}:{p['label']}", f"exit status {p['exit']} but messages imply {p['expected']}", {"case": r["name"], **p})
            elif p["kind"] == "disabled-code-leak":
                ctx.violation("disabled-code-still-reported:error-reported-before-file-ignores-registered",
                              "--disable-error-code X does not remove an [X] diagnostic that is reported before the file's ignore "
                              "comments are registered (e.g. inline `# mypy:` configuration errors): add_error_info only consults "
                              "is_ignored_error `if file in self.ignored_lines`", {"case": r["name"], **p})
            elif p["kind"] == "render-changes-messages":
                ctx.violation(f"render-changes-messages:{r['name']}:{p['label']}", "the output format changed which messages are reported",
                              {"case": r["name"], **p})
            elif p["kind"] == "stream-depends-on-ignore" and p.get("deprecated_cover"):
                dep_seen = True
                ctx.violation("non-matching-ignore-adds-diagnostics:deprecated-not-covered-note-trips-error-watcher",
                              "a `# type: ignore[other-code]` comment on a line with a [deprecated] warning makes mypy report additional, bogus "
                              "diagnostics (e.g. 'Unsupported operand types for +'): the 'not covered' note emitted inside add_error_info is "
                              "seen by the active ErrorWatcher as a new error", {"case": r["name"], **p})
            elif p["kind"] == "crash":
                # the un-annotated run of the same program in the same worker succeeded: the failure is caused by the variant
                fam = p["label"].split(" ")[0]
                ctx.violation(f"variant-crashes-mypy:{r['name']}:{fam}",
                              f"mypy fails ({p['exc'][:160]}) on a program that checks fine without the variant `{p['label']}` "
                              "(ignore comment / --disable-error-code / --enable-error-code / output format)", {"case": r["name"], **p})
            else:
                ctx.violation(f"{p['kind']}:{r['name']}:{p['label']}",
                              {"inexact-own-stream": "error_info_map differs from reported stream minus exactly the matching non-blocking infos",
                               "stream-depends-on-ignore": "adding ignore comments changed a diagnostic other than those they match",
                               "disable-not-exact": "disabling a code changed error diagnostics not carrying it",
                               "enable-removed": "enabling a code removed a diagnostic",
                               "enable-added-other-code": "enabling a code added an error with another code"}[p["kind"]],
                              {"case": r["name"], **p})
    if f1_seen is not None:
        ctx.violation(F1_KEY, "an error message whose text contains ': note:' is counted as a note by util.count_stats: mypy prints the "
                      "error (and 'Found 1 error') but exits with status 0", f1_seen)
    if json_notes_seen is not None:
        ctx.violation("exit-status-1-without-error:output-json-notes-only",
                      "with --output json a run that reports only notes exits with status 1 (text output: 0): the JSON lines carry no "
                      "': note:' marker, so util.count_stats counts no note and main() takes `n_notes < len(messages)`", json_notes_seen)
    pinned_ran = any(r.get("name") == "check-deprecated.test::testDeprecatedSpecialMethods" and not r.get("skipped") for r in results)
    if wverdict == "reentry" and pinned_ran and not dep_seen:
        ctx.broke("C", "watcher_reentry_refuted witness", "the model refutes watcher independence for this code shape but the pinned "
                  "program did not reproduce the effect on real mypy")
    if wverdict == "bypass" and dep_seen:
        ctx.broke("C", "watchers_independent_of_ignores", "the positive theorem builds but real mypy still shows the re-entry effect")
    if verdict == "refuted" and f1_seen is None:
        ctx.broke("C", "exit_code_refuted witness", "the model refutes exit_code_truth but the witness program did not reproduce on real mypy")
    if verdict == "truth" and f1_seen is not None:
        ctx.broke("C", "exit_code_truth", "the positive theorem builds but real mypy still shows the F1 behaviour")
    ctx.add("evaluations", runs)
    ctx.add("traces_validated_against_impl", runs)
    ctx.cov["mypy_runs"] = runs
    ctx.cov["variant_kinds"] = kinds
    ctx.cov["skipped_programs"] = skipped
    ctx.cov["suppressed_infos_total"] = suppressed
    ctx.cov["distinct_nontrivial"] = nontrivial + ctx.cov.get("driven_streams_with_suppression", 0)
    ctx.sample({"S_programs": [r["name"] for r in results if "variants" in r and r["variants"]][:3]})


def replay(ctx: Any, path: str) -> None:
    d = json.load(open(path))
    print(json.dumps(d, indent=1)[:6000])
    run(ctx)


if __name__ == "__main__":
    if "--worker" in sys.argv:
        worker_main()
