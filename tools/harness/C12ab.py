"""C12 parts (a) call binding / arity and (b) MRO: Coq models (C12/Bind.v, C12/Mro.v) proved equal to the
transcribed CPython rule; correspondence of both transcriptions with the real mypy and the real CPython.

Run from harness/C12.py (`C12ab.run(ctx)`).
"""
from __future__ import annotations

import itertools
import os
import shutil
import subprocess
import sys
import tempfile
from concurrent.futures import ProcessPoolExecutor
from typing import Any

import vlib

sys.path.insert(0, vlib.REPO)


MAX_REPORTED = 8   # violations reported (replay files written) per stage; the total is in the coverage record


def run_driver(exe: str, lines: list[str]) -> list[str]:
    p = subprocess.run([exe], input="\n".join(lines) + "\n", text=True, capture_output=True, timeout=1800)
    out = p.stdout.splitlines()
    if len(out) != len(lines):
        raise RuntimeError(f"driver returned {len(out)} lines for {len(lines)} inputs: {p.stderr[-500:]}")
    return out


# ====================================================================== (b) MRO

def _mkinfo(name: str, bases: list[Any]) -> Any:
    from mypy.nodes import Block, ClassDef, SymbolTable, TypeInfo
    from mypy.types import Instance
    cd = ClassDef(name, Block([]))
    info = TypeInfo(SymbolTable(), cd, "m")
    cd.info = info
    info._fullname = name
    info.bases = [Instance(b, []) for b in bases]
    return info


def _res(names: list[int] | None) -> str:
    return "fail" if names is None else "ok:" + ",".join(map(str, names))


def tbl_str(table: list[tuple[int, ...]]) -> str:
    return ";".join(",".join(map(str, bs)) for bs in table)


def mro_subtree(args: tuple[list[tuple[int, ...]], int, bool, int]) -> list[tuple[str, str, str]]:
    """Depth-first enumeration of every hierarchy extending `prefix` (whose classes are all creatable) up to
    `maxn` user classes.  Class 0 is `object`; class k picks an ordered subset of the earlier classes as its bases
    (of classes 1..k-1 only unless with_object).  Every class is created for real on both sides:
    mypy.mro.calculate_mro on a fresh TypeInfo (as semanal does, in definition order, earlier MROs cached) and
    CPython type(name, bases, {}).  Returns (table, mypy result, cpython result) per node; a subtree below a
    class that either side rejects is not explored (the class does not exist at run time)."""
    prefix, maxn, with_object, stop_depth = args
    from mypy import mro as M
    from mypy.types import Instance
    obj = _mkinfo("builtins.object", [])
    M.calculate_mro(obj, None)
    objinst = lambda: Instance(obj, [])  # noqa
    infos: list[Any] = [obj]
    pys: list[Any] = [object]
    table: list[tuple[int, ...]] = [()]
    out: list[tuple[str, str, str]] = []

    def create(bs: tuple[int, ...]) -> tuple[Any, Any, list[int] | None, list[int] | None]:
        k = len(infos)
        info = _mkinfo(f"C{k}", [infos[b] for b in bs])
        try:
            M.calculate_mro(info, objinst)
            mm: list[int] | None = [k if x is info else next(i for i, y in enumerate(infos) if y is x) for x in info.mro]
        except M.MroError:
            mm = None
        try:
            t = type(f"C{k}", tuple(pys[b] for b in bs), {})
            pm: list[int] | None = [k if x is t else next(i for i, y in enumerate(pys) if y is x) for x in t.__mro__]
        except TypeError as e:
            t = None
            pm = None
            if "MRO" not in str(e) and "duplicate base" not in str(e):
                raise
        return info, t, mm, pm

    for bs in prefix[1:]:
        info, t, mm, pm = create(bs)
        assert mm is not None and pm is not None
        infos.append(info)
        pys.append(t)
        table.append(bs)

    def rec() -> None:
        k = len(infos)
        cl = list(range(k) if with_object else range(1, k))
        for r in range(len(cl) + 1):
            for bs in itertools.permutations(cl, r):
                info, t, mm, pm = create(bs)
                out.append((tbl_str(table + [bs]), _res(mm), _res(pm)))
                if mm is not None and pm is not None and k < maxn and k < stop_depth:
                    infos.append(info)
                    pys.append(t)
                    table.append(bs)
                    rec()
                    infos.pop()
                    pys.pop()
                    table.pop()
    if len(infos) <= maxn:
        rec()
    return out


def parse_tbl(s: str) -> list[tuple[int, ...]]:
    return [tuple(int(x) for x in part.split(",")) if part else () for part in s.split(";")]


def mro_enumerate(maxn: int, with_object: bool) -> list[tuple[str, str, str]]:
    """All hierarchies of up to maxn user classes (see mro_subtree), in parallel below depth 2."""
    split = min(2, maxn)
    top = mro_subtree(([()], maxn, with_object, split))
    if maxn <= split:
        return top
    prefixes = [parse_tbl(t) for t, m, c in top if m != "fail" and c != "fail" and t.count(";") == split]
    with ProcessPoolExecutor(max_workers=vlib.NPROC) as ex:
        subs = list(ex.map(mro_subtree, [(p, maxn, with_object, maxn) for p in prefixes], chunksize=1))
    return top + [x for s in subs for x in s]


def mro_semanal(ctx: vlib.Ctx, tables: list[str]) -> dict[str, list[str]]:
    """The same hierarchies through a REAL semantic analysis: one module defining every hierarchy under
    distinct names; read TypeInfo.mro and the "Cannot determine consistent method resolution order" errors."""
    from mypy import build as B
    from mypy.modulefinder import BuildSource
    from mypy.options import Options
    lines = []
    for h, t in enumerate(tables):
        for k, bs in enumerate(parse_tbl(t)):
            if k == 0:
                continue
            bl = ", ".join("object" if b == 0 else f"H{h}_{b}" for b in bs)
            lines.append(f"class H{h}_{k}({bl}): pass" if bs else f"class H{h}_{k}: pass")
    src = "\n".join(lines) + "\n"
    o = Options()
    o.incremental = False
    o.cache_dir = os.devnull
    o.show_traceback = True
    tmp = tempfile.mkdtemp(prefix="c12ab_")
    try:
        o.cache_dir = os.path.join(tmp, "cache")
        r = B.build([BuildSource(None, "mrom", src)], o)
    finally:
        shutil.rmtree(tmp, ignore_errors=True)
    bad = set()
    for e in r.errors:
        if "method resolution order" in e:
            bad.add(e.split('"')[1])
        elif "error:" in e:
            ctx.broke("C", "mro semanal glue", f"unexpected diagnostic {e}")
    names = r.files["mrom"].names
    out: dict[str, list[str]] = {}
    for h, t in enumerate(tables):
        res = []
        failed = False
        for k, bs in enumerate(parse_tbl(t)):
            if k == 0:
                res.append("ok:0")
                continue
            nm = f"H{h}_{k}"
            if failed:
                res.append("fail")       # a class deriving (transitively or not) after a failure: not compared
                continue
            if nm in bad:
                failed = True
                res.append("fail")
                continue
            info = names[nm].node
            idx = []
            for x in info.mro:  # type: ignore[union-attr]
                idx.append(0 if x.fullname == "builtins.object" else int(x.name.split("_")[1]))
            res.append(_res(idx))
        out[t] = res
    return out


def mro_stage(ctx: vlib.Ctx, exe: str | None) -> None:
    # quick: every hierarchy of object + up to 4 classes with `object` also nameable as an explicit base,
    #        and of up to 5 classes over implicit object; thorough: one more class each.
    plans = [(4, True), (5, False)] if ctx.quick else [(5, True), (6, False)]
    nodes: dict[str, tuple[str, str]] = {}
    for maxn, wo in plans:
        for t, m, c in mro_enumerate(maxn, wo):
            nodes[t] = (m, c)
    tables = sorted(nodes, key=lambda s: (s.count(";"), s))
    ctx.log(f"(b) {len(tables)} class hierarchies (plans {plans})")
    rejected = 0
    nviol = 0
    for t in tables:
        m, c = nodes[t]
        if m == "fail" or c == "fail":
            rejected += 1
        # S: mypy's linearization against CPython's actual __mro__ / TypeError
        if m != c:
            nviol += 1
            if nviol > MAX_REPORTED:
                continue
            ctx.violation(f"mro:{t}", f"class table {t}: mypy.mro gives {m} for the last class, CPython type() gives {c}",
                          {"kind": "mro", "table": t, "mypy": m, "cpython": c})
    ctx.add("evaluations", len(tables))
    ctx.cov["mro_hierarchies"] = len(tables)
    ctx.cov["mro_rejected_by_cpython"] = rejected
    ctx.cov["mro_disagreements_mypy_vs_cpython"] = nviol
    ctx.sample({"mro_table": tables[len(tables) // 2], "mypy": nodes[tables[len(tables) // 2]][0], "cpython": nodes[tables[len(tables) // 2]][1]})
    if exe:
        out = run_driver(exe, [f"mrolast {t}" for t in tables])
        bad = 0
        for t, o in zip(tables, out):
            w = o.split()
            # "M <res> C <res> W <wf>"
            if len(w) != 6 or w[5] != "1":
                ctx.broke("C", "mro driver", f"{t}: {o}")
                break
            if w[1] != nodes[t][0]:
                bad += 1
                if bad <= 5:
                    ctx.broke("C", "Mro.mypy_mro vs mypy.mro.calculate_mro", f"table {t}: model {w[1]} impl {nodes[t][0]}", {"table": t})
            if w[3] != nodes[t][1]:
                bad += 1
                if bad <= 5:
                    ctx.broke("C", "Mro.cpython_mro vs CPython type()", f"table {t}: model {w[3]} CPython {nodes[t][1]}", {"table": t})
        ctx.add("traces_validated_against_impl", len(tables))
    # through the real semantic analyzer (semanal.calculate_class_mro + mro.calculate_mro)
    rng = vlib.Rng(ctx.seed, "mro-semanal")
    small = [t for t in tables if t.count(";") <= 3]
    big = [t for t in tables if t.count(";") > 3]
    pick = small + rng.sample(big, min(len(big), ctx.n(300, 3000)))
    sem = mro_semanal(ctx, pick)
    if exe:
        out = run_driver(exe, [f"mro {t}" for t in pick])
        bad = 0
        for t, o in zip(pick, out):
            model = o.split()[1].split("|")
            # the model propagates failure of a base; semanal gives such classes a dummy MRO: compare up to the first failure
            got = sem[t]
            for k, (a, b) in enumerate(zip(model, got)):
                if a != b:
                    bad += 1
                    if bad <= 5:
                        ctx.broke("C", "Mro.mypy_mro vs semantic analysis (TypeInfo.mro)", f"table {t} class {k}: model {a} semanal {b}", {"table": t})
                if a == "fail":
                    break
        ctx.add("traces_validated_against_impl", len(pick))
    ctx.add("evaluations", len(pick))
    ctx.cov["mro_through_semanal"] = len(pick)



# ====================================================================== (a) call binding / arity

PNAMES = "abcde"
UNKNOWN_KW = "z"


def gen_sigs(maxp: int) -> list[list[tuple[str, str, bool]]]:
    """Every `def` parameter list with at most maxp parameters: (kind letter, name, positional-only).
    Kind letters as in the driver: P O S N M K.  Grammar of Python: pos-only, positional (no required one
    after one with a default), optional *args, keyword-only (any mix of defaults), optional **kwargs."""
    out = []
    for npo in range(maxp + 1):
        for nreg in range(maxp + 1 - npo):
            npp = npo + nreg
            for ndef in range(npp + 1):                      # the last ndef positional ones have defaults
                for star in (False, True):
                    for nkw in range(maxp + 1 - npp - star):
                        for kwdefs in itertools.product((False, True), repeat=nkw):
                            for star2 in (False, True):
                                if npp + star + nkw + star2 > maxp:
                                    continue
                                sig = []
                                names = iter(PNAMES)
                                for i in range(npp):
                                    sig.append(("O" if i >= npp - ndef else "P", next(names), i < npo))
                                if star:
                                    sig.append(("S", "args", False))
                                for d in kwdefs:
                                    sig.append(("M" if d else "N", next(names), False))
                                if star2:
                                    sig.append(("K", "kw", False))
                                out.append(sig)
    return out


def sig_src(name: str, sig: list[tuple[str, str, bool]]) -> str:
    parts = []
    npo = sum(1 for _, _, po in sig if po)
    seen_star = False
    for i, (k, n, po) in enumerate(sig):
        if k in "NM" and not seen_star:
            parts.append("*")
            seen_star = True
        if k == "S":
            seen_star = True
            parts.append("*" + n)
        elif k == "K":
            parts.append("**" + n)
        else:
            parts.append(n + ("=0" if k in "OM" else ""))
        if po and i == npo - 1:
            parts.append("/")
    return f"def {name}({', '.join(parts)}) -> None: ..."


def name_id(n: str) -> int:
    return {"a": 1, "b": 2, "c": 3, "d": 4, "e": 5, "args": 6, "kw": 7, UNKNOWN_KW: 9}[n]


def sig_enc(sig: list[tuple[str, str, bool]]) -> str:
    return ",".join(k + ("_" if po else str(name_id(n))) for k, n, po in sig) or "-"


def gen_calls(sig: list[tuple[str, str, bool]], maxa: int) -> list[tuple[int, tuple[str, ...]]]:
    """npos positional arguments followed by keyword arguments: every set of <= maxa - npos distinct keyword names out of
    the parameter names (pos-only, *args and **kwargs names included) and one unknown name; the first call shape with
    >= 2 keywords is also tried in reverse keyword order."""
    universe = [n for _, n, _ in sig] + [UNKNOWN_KW]
    out = []
    for npos in range(maxa + 1):
        for nk in range(maxa - npos + 1):
            for ks in itertools.combinations(universe, nk):
                out.append((npos, ks))
                if nk >= 2 and npos == 0:
                    out.append((npos, tuple(reversed(ks))))
    return out


def call_src(fname: str, npos: int, ks: tuple[str, ...]) -> str:
    return f"{fname}({', '.join(['0'] * npos + [k + '=0' for k in ks])})"


ARITY_CODES = {"call-arg", "misc"}


def bind_stage(ctx: vlib.Ctx, exe: str | None) -> None:
    from mypy import build as B
    from mypy import nodes
    from mypy.argmap import map_actuals_to_formals
    from mypy.modulefinder import BuildSource
    from mypy.options import Options
    from mypy.types import AnyType, TypeOfAny
    maxp, maxa = (3, 4) if ctx.quick else (4, 4)
    sigs = gen_sigs(maxp)
    cases: list[tuple[int, int, tuple[str, ...]]] = []
    src_lines: list[str] = []
    line_of: list[int] = []
    for si, sig in enumerate(sigs):
        src_lines.append(sig_src(f"f{si}", sig))
        for npos, ks in gen_calls(sig, maxa):
            cases.append((si, npos, ks))
            src_lines.append(call_src(f"f{si}", npos, ks))
            line_of.append(len(src_lines))
    ctx.log(f"(a) {len(sigs)} signatures (<= {maxp} parameters) x call shapes (<= {maxa} arguments) = {len(cases)} calls")
    # (i) real mypy: one in-process build over all call lines
    o = Options()
    o.incremental = False
    o.show_error_codes = True
    o.hide_error_codes = False
    o.error_summary = False
    tmp = tempfile.mkdtemp(prefix="c12ab_")
    try:
        o.cache_dir = os.path.join(tmp, "cache")
        r = B.build([BuildSource(None, "bindm", "\n".join(src_lines) + "\n")], o)
    finally:
        shutil.rmtree(tmp, ignore_errors=True)
    err_lines: dict[int, list[str]] = {}
    import re
    for e in r.errors:
        m = re.match(r"^[^:]+:(\d+): (error|note): (.*?)(?:\s+\[([a-z-]+)\])?$", e)
        if not m:
            ctx.broke("C", "bind glue", f"cannot parse diagnostic {e!r}")
            continue
        if m.group(2) == "note":
            continue
        if m.group(4) not in ARITY_CODES:
            ctx.broke("C", "bind glue", f"unexpected error code in {e!r}")
        err_lines.setdefault(int(m.group(1)), []).append(m.group(3))
    mypy_ok = [ln not in err_lines for ln in line_of]
    # (ii) real CPython
    ns: dict[str, Any] = {}
    exec("\n".join(sig_src(f"f{si}", sig) for si, sig in enumerate(sigs)), ns)
    cp_ok: list[bool] = []
    cp_msg: list[str] = []
    for si, npos, ks in cases:
        try:
            ns[f"f{si}"](*([0] * npos), **{k: 0 for k in ks})
            cp_ok.append(True)
            cp_msg.append("")
        except TypeError as e:
            cp_ok.append(False)
            cp_msg.append(str(e))
    # real argmap.map_actuals_to_formals on the same (kinds, names)
    KIND = {"P": nodes.ARG_POS, "O": nodes.ARG_OPT, "S": nodes.ARG_STAR, "N": nodes.ARG_NAMED, "M": nodes.ARG_NAMED_OPT, "K": nodes.ARG_STAR2}
    real_f2a: list[str] = []
    for si, npos, ks in cases:
        sig = sigs[si]
        f2a = map_actuals_to_formals([nodes.ARG_POS] * npos + [nodes.ARG_NAMED] * len(ks), [None] * npos + list(ks),
                                     [KIND[k] for k, _, _ in sig], [None if po else n for _, n, po in sig],
                                     lambda i: AnyType(TypeOfAny.special_form))
        real_f2a.append("".join(",".join(map(str, l)) + ";" for l in f2a))
    # (iii) S: mypy against CPython directly
    rejected = 0
    nviol = 0
    for i, (si, npos, ks) in enumerate(cases):
        if not cp_ok[i]:
            rejected += 1
        if mypy_ok[i] != cp_ok[i]:
            nviol += 1
            if nviol > MAX_REPORTED:
                continue
            d = sig_src("f", sigs[si])
            cs = call_src("f", npos, ks)
            ctx.violation(f"bind:{d}:{cs}",
                          f"`{d}` called as `{cs}`: mypy {'accepts' if mypy_ok[i] else 'rejects ' + repr(err_lines.get(line_of[i]))}, "
                          f"CPython {'binds' if cp_ok[i] else 'raises TypeError: ' + cp_msg[i]}",
                          {"kind": "bind", "def": d, "call": cs})
    ctx.add("evaluations", len(cases))
    ctx.cov["bind_signatures"] = len(sigs)
    ctx.cov["bind_calls"] = len(cases)
    ctx.cov["bind_rejected_by_cpython"] = rejected
    ctx.cov["bind_disagreements_mypy_vs_cpython"] = nviol
    k = len(cases) // 2
    ctx.sample({"def": sig_src("f", sigs[cases[k][0]]), "call": call_src("f", cases[k][1], cases[k][2]), "mypy_ok": mypy_ok[k], "cpython_ok": cp_ok[k]})
    if exe:
        out = run_driver(exe, [f"bind {sig_enc(sigs[si])} {npos} {','.join(str(name_id(x)) for x in ks) or '-'}" for si, npos, ks in cases])
        bad = 0
        for i, (o_, (si, npos, ks)) in enumerate(zip(out, cases)):
            w = o_.split()
            if len(w) != 8 or w[5] != "1":
                ctx.broke("C", "bind driver", f"{sig_enc(sigs[si])} {npos} {ks}: {o_}")
                break
            what = f"`{sig_src('f', sigs[si])}` called as `{call_src('f', npos, ks)}`"
            for label, got, want in (("Bind.mypy_accepts vs mypy diagnostics (mypy.build)", w[1] == "1", mypy_ok[i]),
                                     ("Bind.cpython_bind vs a real CPython call", w[3] == "1", cp_ok[i]),
                                     ("Bind.map_actuals_to_formals vs mypy.argmap.map_actuals_to_formals", w[7], "=" + real_f2a[i])):
                if got != want:
                    bad += 1
                    if bad <= 6:
                        ctx.broke("C", label, f"{what}: model {got} real {want}", {"def": sig_src("f", sigs[si]), "call": call_src("f", npos, ks)})
        ctx.add("traces_validated_against_impl", len(cases))


# ====================================================================== (a') star actuals: *tuple, **TypedDict

def gen_pshapes(max_flat: int) -> list[tuple[str, ...]]:
    """Positional part with at least one star item: sequences over P (plain positional) and S0..S3 (a `*` tuple of that
    known length), at most 3 items, at most 2 stars, at most max_flat values after expansion."""
    out = []
    toks = ["P", "S0", "S1", "S2", "S3"]
    for n in range(1, 4):
        for seq in itertools.product(toks, repeat=n):
            stars = [t for t in seq if t != "P"]
            flat = sum(1 if t == "P" else int(t[1]) for t in seq)
            if 1 <= len(stars) <= 2 and flat <= max_flat:
                out.append(seq)
    return out


def gen_tds(universe: list[str]) -> list[tuple[tuple[str, ...], tuple[str, ...]]]:
    """TypedDicts with 0-2 required and 0-1 optional keys over the given names: (required, optional)."""
    out = []
    for r in range(0, 3):
        for req in itertools.combinations(universe, r):
            out.append((req, ()))
            for o in universe:
                if o not in req:
                    out.append((req, (o,)))
    return out


def td_name(td: tuple[tuple[str, ...], tuple[str, ...]]) -> str:
    return "r_" + "_".join(td[0]) + "__o_" + "_".join(td[1])


def pitem_src(t: str, var: bool) -> str:
    if t == "P":
        return "0"
    n = int(t[1])
    if var and n >= 1:
        return f"*tv{n}"
    return "*(" + "".join("0, " for _ in range(n)) + ")"


def star_call_src(fname: str, ps: tuple[str, ...], ks: tuple[str, ...], td: Any, td_first: bool, kw_first: bool, var: bool) -> str:
    pos = [pitem_src(t, var) for t in ps]
    kw = [k + "=0" for k in ks]
    tdl = [f"**td_{td_name(td)}"] if td is not None else []
    kwpart = (tdl + kw) if td_first else (kw + tdl)
    if kw_first and kw and pos and ps[-1] != "P" and not td_first:
        # a star tuple may follow keyword arguments: f(a=0, *(0,)); the **TypedDict stays last
        return f"{fname}({', '.join(pos[:-1] + kw + pos[-1:] + tdl)})"
    return f"{fname}({', '.join(pos + kwpart)})"


def gen_star_calls(sig: list[tuple[str, str, bool]], rng: vlib.Rng, cap: int) -> list[tuple[tuple[str, ...], tuple[str, ...], Any, bool, bool]]:
    """(positional items, explicit keywords, TypedDict or None, td_first, kw_first)"""
    universe = [n for _, n, _ in sig] + [UNKNOWN_KW]
    nparams = len(sig)
    pshapes = gen_pshapes(min(4, nparams + 2))
    plain = [tuple(["P"] * n) for n in range(0, 3)]
    tds = gen_tds(universe)
    kw1 = [()] + [(k,) for k in universe]
    out: list[tuple[tuple[str, ...], tuple[str, ...], Any, bool, bool]] = []
    # A: star tuples x at most one explicit keyword (also written before the last star tuple)
    for ps in pshapes:
        for ks in kw1:
            out.append((ps, ks, None, False, False))
            if ks and ps[-1] != "P":
                out.append((ps, ks, None, False, True))
    # B: **TypedDict x plain positionals or one star tuple x at most one explicit keyword
    some_stars = [("S1",), ("S2",), ("P", "S1"), ("S1", "S1"), ("S0",)]
    for td in tds:
        for ps in plain + some_stars:
            for ks in kw1:
                out.append((ps, ks, td, len(out) % 2 == 0, False))
    if len(out) > cap:
        out = rng.sample(out, cap)
    return out


def star_stage(ctx: vlib.Ctx, exe: str | None) -> None:
    import re
    from mypy import build as B
    from mypy.modulefinder import BuildSource
    from mypy.options import Options
    rng = vlib.Rng(ctx.seed, "bind-star")
    maxp = 3 if ctx.quick else 4
    sigs = gen_sigs(maxp)
    cap = (lambda n: 10 ** 9 if n <= 2 else 110) if ctx.quick else (lambda n: 10 ** 9 if n <= 3 else 400)
    all_tds: dict[str, tuple[tuple[str, ...], tuple[str, ...]]] = {}
    cases: list[tuple[int, tuple[str, ...], tuple[str, ...], Any, bool, bool, bool]] = []
    for si, sig in enumerate(sigs):
        for j, (ps, ks, td, tdf, kwf) in enumerate(gen_star_calls(sig, rng, cap(len(sig)))):
            if td is not None:
                all_tds[td_name(td)] = td
            cases.append((si, ps, ks, td, tdf, kwf, j % 3 == 0))
    head = ["from typing import TypedDict, NotRequired", "tv1: tuple[int]", "tv2: tuple[int, int]", "tv3: tuple[int, int, int]"]
    for nm, (req, opt) in sorted(all_tds.items()):
        body = [f"    {k}: int" for k in req] + [f"    {k}: NotRequired[int]" for k in opt] or ["    pass"]
        head.append(f"class TD_{nm}(TypedDict):")
        head += body
        head.append(f"td_{nm}: TD_{nm}")
    src_lines = list(head)
    for si, sig in enumerate(sigs):
        src_lines.append(sig_src(f"f{si}", sig))
    line_of = []
    srcs = []
    for si, ps, ks, td, tdf, kwf, var in cases:
        cs = star_call_src(f"f{si}", ps, ks, td, tdf, kwf, var)
        srcs.append(cs)
        src_lines.append(cs)
        line_of.append(len(src_lines))
    ctx.log(f"(a') {len(cases)} calls with *tuple / **TypedDict actuals over {len(sigs)} signatures, {len(all_tds)} TypedDicts")
    o = Options()
    o.incremental = False
    o.hide_error_codes = False
    o.error_summary = False
    tmp = tempfile.mkdtemp(prefix="c12ab_")
    try:
        o.cache_dir = os.path.join(tmp, "cache")
        r = B.build([BuildSource(None, "bindstar", "\n".join(src_lines) + "\n")], o)
    finally:
        shutil.rmtree(tmp, ignore_errors=True)
    err_lines: dict[int, list[str]] = {}
    for e in r.errors:
        m = re.match(r"^[^:]+:(\d+): (error|note): (.*?)(?:\s+\[([a-z-]+)\])?$", e)
        if not m:
            ctx.broke("C", "bind-star glue", f"cannot parse diagnostic {e!r}")
            continue
        if m.group(2) == "note":
            continue
        if m.group(4) not in ARITY_CODES or int(m.group(1)) <= len(head) + len(sigs):
            ctx.broke("C", "bind-star glue", f"unexpected diagnostic {e!r}")
        err_lines.setdefault(int(m.group(1)), []).append(m.group(3))
    mypy_ok = [ln not in err_lines for ln in line_of]
    # real CPython: evaluate the very same call text; optional TypedDict keys present / absent
    ns_full: dict[str, Any] = {"tv1": (0,), "tv2": (0, 0), "tv3": (0, 0, 0)}
    exec("\n".join(sig_src(f"f{si}", sig) for si, sig in enumerate(sigs)), ns_full)
    ns_abs = dict(ns_full)
    for nm, (req, opt) in all_tds.items():
        ns_full[f"td_{nm}"] = {k: 0 for k in req + opt}
        ns_abs[f"td_{nm}"] = {k: 0 for k in req}

    def rt(cs: str, ns: dict[str, Any]) -> tuple[bool, str]:
        try:
            eval(cs, ns)
            return True, ""
        except TypeError as e:
            return False, str(e)
    cp_full = [rt(cs, ns_full) for cs in srcs]
    cp_abs = [rt(cs, ns_abs) if (c[3] is not None and c[3][1]) else cp_full[i] for i, (cs, c) in enumerate(zip(srcs, cases))]
    flags = star_model(ctx, exe, sigs, cases, srcs, mypy_ok, cp_full)
    nother = 0
    rejected = 0
    scen_dep = 0
    nviol = 0
    classes: dict[str, int] = {}
    for i, c in enumerate(cases):
        si, ps, ks, td, tdf, kwf, var = c
        if not cp_full[i][0]:
            rejected += 1
        if cp_full[i][0] != cp_abs[i][0]:
            scen_dep += 1     # the outcome depends on whether the optional key is present: no verdict can match both
        if mypy_ok[i] == cp_full[i][0] or mypy_ok[i] == cp_abs[i][0]:
            continue
        nviol += 1
        d = sig_src("f", sigs[si])
        cs = srcs[i].replace(f"f{si}(", "f(", 1)
        cls = star_class(sigs[si], ps, ks, td, mypy_ok[i], cp_full[i][1], flags[i] if flags else None)
        classes[cls] = classes.get(cls, 0) + 1
        key = f"bind-star:{cls}" if cls != "other" else f"bind-star:{d}:{cs}"
        if cls == "other":
            nother += 1
            if nother > MAX_REPORTED:
                continue
        ctx.violation(key,
                      f"`{d}` called as `{cs}`" + (f" (TypedDict required {td[0]}, optional {td[1]})" if td else "") +
                      f": mypy {'accepts' if mypy_ok[i] else 'rejects ' + repr(err_lines.get(line_of[i]))}, "
                      f"CPython {'binds' if cp_full[i][0] else 'raises TypeError: ' + cp_full[i][1]}",
                      {"kind": "bind-star", "class": cls, "def": d, "call": cs, "typeddict": td})
    ctx.add("evaluations", len(cases))
    ctx.cov["bind_star_calls"] = len(cases)
    ctx.cov["bind_star_rejected_by_cpython"] = rejected
    ctx.cov["bind_star_outcome_depends_on_optional_key"] = scen_dep
    ctx.cov["bind_star_disagreements_by_class"] = classes
    ctx.cov["bind_star_disagreements_outside_known_classes"] = nother
    k = len(cases) // 2
    ctx.sample({"def": sig_src("f", sigs[cases[k][0]]), "call": srcs[k], "mypy_ok": mypy_ok[k], "cpython_ok": cp_full[k][0]})


L1 = "L1:TypedDict-key-named-like-*args-parameter"
L2 = "L2:star-tuple-item-and-TypedDict-key-for-the-same-parameter"
L3 = "L3:keyword-supplied-twice-after-expanding-TypedDict"


def star_class(sig: list[tuple[str, str, bool]], ps: tuple[str, ...], ks: tuple[str, ...], td: Any, mypy_ok: bool, cpmsg: str,
               flags: str | None) -> str:
    """Name of the leniency class of a disagreement (stable finding keys), or 'other'.  With the extracted model: the class
    is the one whose exclusion (Bind.no_L1/no_L2/no_L3) fails; a disagreement on a plain_like call contradicts
    arity_agrees_star and is always 'other'."""
    if td is None or not mypy_ok:
        return "other"
    if flags is not None:
        # flags = shape, no_L1, no_L2, no_L3
        return L3 if flags[3] == "0" else L2 if flags[2] == "0" else L1 if flags[1] == "0" else "other"
    keys = td[0] + td[1]
    star_names = [n for k, n, _ in sig if k == "S"]
    has_kw = any(k == "K" for k, _, _ in sig)
    if "multiple values for keyword argument" in cpmsg and any(k in keys for k in ks):
        return L3
    if "multiple values for argument" in cpmsg and any(t != "P" for t in ps):
        return L2
    if any(k in star_names for k in keys) and not has_kw:
        return L1
    return "other"


def star_model(ctx: vlib.Ctx, exe: str | None, sigs: Any, cases: Any, srcs: list[str], mypy_ok: list[bool], cp_full: list[tuple[bool, str]]) -> list[str] | None:
    if not exe:
        return None
    lines = []
    for si, ps, ks, td, tdf, kwf, var in cases:
        pe = ",".join(ps) or "-"
        kitems = ["N" + str(name_id(k)) for k in ks]
        if td is not None:
            t = "T" + ".".join(str(name_id(k)) for k in td[0] + td[1])
            kitems = [t] + kitems if tdf else kitems + [t]
        lines.append(f"binds {sig_enc(sigs[si])} {pe} {','.join(kitems) or '-'}")
    out = run_driver(exe, lines)
    real = star_real_f2a(sigs, cases)
    bad = 0
    for i, (o_, c) in enumerate(zip(out, cases)):
        si, ps, ks, td, tdf, kwf, var = c
        w = o_.split()
        if len(w) != 8 or w[5][0] != "1":
            ctx.broke("C", "bind-star driver", f"{lines[i]}: {o_}")
            break
        what = f"`{sig_src('f', sigs[si])}` called as `{srcs[i]}`"
        checks = [("BindStar.mypy_accepts_s vs mypy diagnostics (mypy.build)", w[1] == "1", mypy_ok[i]),
                  ("BindStar.cpython_bind_s vs a real CPython call", w[3] == "1", cp_full[i][0])]
        if not kwf:
            checks.append(("BindStar.map_actuals_to_formals_s vs mypy.argmap.map_actuals_to_formals", w[7], "=" + real[i]))
        for label, got, want in checks:
            if got != want:
                bad += 1
                if bad <= 6:
                    ctx.broke("C", label, f"{what}: model {got} real {want}", {"def": sig_src("f", sigs[si]), "call": srcs[i], "typeddict": td})
    ctx.add("traces_validated_against_impl", len(cases))
    fl = [o_.split()[5] if len(o_.split()) == 8 else "1111" for o_ in out]
    ctx.cov["bind_star_plain_like_calls"] = sum(1 for f in fl if f == "1111")
    return fl


def star_real_f2a(sigs: Any, cases: Any) -> list[str]:
    from mypy import nodes
    from mypy.argmap import map_actuals_to_formals
    from mypy.types import AnyType, Instance, TupleType, TypedDictType, TypeOfAny
    KIND = {"P": nodes.ARG_POS, "O": nodes.ARG_OPT, "S": nodes.ARG_STAR, "N": nodes.ARG_NAMED, "M": nodes.ARG_NAMED_OPT, "K": nodes.ARG_STAR2}
    fb = Instance(_mkinfo("builtins.tuple", []), [])
    anyt = AnyType(TypeOfAny.special_form)
    out = []
    for si, ps, ks, td, tdf, kwf, var in cases:
        sig = sigs[si]
        kinds: list[Any] = []
        names: list[Any] = []
        types: list[Any] = []
        for t in ps:
            if t == "P":
                kinds.append(nodes.ARG_POS); names.append(None); types.append(anyt)
            else:
                kinds.append(nodes.ARG_STAR); names.append(None); types.append(TupleType([anyt] * int(t[1]), fb))
        kpart: list[tuple[Any, Any, Any]] = [(nodes.ARG_NAMED, k, anyt) for k in ks]
        if td is not None:
            keys = td[0] + td[1]
            tdt = TypedDictType({k: anyt for k in keys}, set(td[0]), set(), fb)
            kpart = [(nodes.ARG_STAR2, None, tdt)] + kpart if tdf else kpart + [(nodes.ARG_STAR2, None, tdt)]
        for kd, nm, ty in kpart:
            kinds.append(kd); names.append(nm); types.append(ty)
        f2a = map_actuals_to_formals(kinds, names, [KIND[k] for k, _, _ in sig], [None if po else n for _, n, po in sig], lambda i: types[i])
        out.append("".join(",".join(map(str, l)) + ";" for l in f2a))
    return out

# ====================================================================== entry point

def run(ctx: vlib.Ctx) -> None:
    ctx.cov["rule"] = ctx.cov.get("rule", "") + (
        "; (b) every class hierarchy (class k picks an ordered subset of the earlier classes as bases), created for real "
        "on both sides (non-trivial = CPython rejects the class); (a) every def parameter list up to N parameters x every call of "
        "<= 4 positional/keyword arguments over the parameter names and one unknown name (non-trivial = CPython raises TypeError); "
        "(a') positional parts of <= 3 items with 1-2 `*tuple`s of length 0-3 (literal or typed variable) x <= 1 keyword (also before the last "
        "star), and **TypedDict (0-2 required, 0-1 optional keys over the parameter names + one unknown) x plain positionals / star tuples x <= 1 keyword")
    ctx.assumptions += [
        "(b) CPython's pmerge/mro_implementation (Objects/typeobject.c) transcribed by hand into C12/Mro.v; tied to the running "
        "CPython 3.12 by exhaustive comparison with type(name, bases, {}).__mro__ / TypeError",
        "(b) duplicate bases are outside the fragment (rejected before MRO computation by both: semanal 'Duplicate base class', check_duplicates)",
        "(a) CPython's initialize_locals (Python/ceval.c) transcribed by hand into C12/Bind.v (per-slot form); tied to the running "
        "CPython 3.12 by calling real functions; star actuals = *tuple of known length, **TypedDict (a call whose outcome depends "
        "on a NotRequired key being present is counted, and is a violation only if mypy's verdict matches neither outcome); "
        "*iterable / **dict of unknown shape are indeterminate and not generated",
        "(a) mypy's verdict = absence of call-arg/misc diagnostics on the call line in a real in-process mypy.build of generated source",
        "extraction: ExtrOcamlBasic only; OCaml driver tools/ocaml/c12ab_driver.ml (I/O only)",
    ]
    ctx.prove("C12/PropertiesAB.v", ["C12", "gen", "lib"])
    exe = vlib.build_extracted("c12ab", "C12/ExtractAB.v", "tools/ocaml/c12ab_driver.ml")
    if exe is None:
        ctx.broke("C", "extraction", "extracted model c12ab does not build")
    mro_stage(ctx, exe)
    bind_stage(ctx, exe)
    star_stage(ctx, exe)
    ctx.cov["ab_nontrivial"] = (ctx.cov.get("mro_rejected_by_cpython", 0) + ctx.cov.get("bind_rejected_by_cpython", 0)
                                + ctx.cov.get("bind_star_rejected_by_cpython", 0))
