"""C12 parts (a) call binding / arity and (b) MRO: Coq models (C12/Bind.v, C12/Mro.v) proved equal to the
transcribed CPython rule; correspondence of both transcriptions with the real mypy and the real CPython.

Run from harness/C12.py (`C12ab.run(ctx)`).
"""
from __future__ import annotations

import itertools
import os
import shutil
import subprocess
import sys
import tempfile
from concurrent.futures import ProcessPoolExecutor
from typing import Any

import vlib

sys.path.insert(0, vlib.REPO)


MAX_REPORTED = 8   # violations reported (replay files written) per stage; the total is in the coverage record


def run_driver(exe: str, lines: list[str]) -> list[str]:
    p = subprocess.run([exe], input="\n".join(lines) + "\n", text=True, capture_output=True, timeout=1800)
    out = p.stdout.splitlines()
    if len(out) != len(lines):
        raise RuntimeError(f"driver returned {len(out)} lines for {len(lines)} inputs: {p.stderr[-500:]}")
    return out


# ====================================================================== (b) MRO

def _mkinfo(name: str, bases: list[Any]) -> Any:
    from mypy.nodes import Block, ClassDef, SymbolTable, TypeInfo
    from mypy.types import Instance
    cd = ClassDef(name, Block([]))
    info = TypeInfo(SymbolTable(), cd, "m")
    cd.info = info
    info._fullname = name
    info.bases = [Instance(b, []) for b in bases]
    return info


def _res(names: list[int] | None) -> str:
    return "fail" if names is None else "ok:" + ",".join(map(str, names))


def tbl_str(table: list[tuple[int, ...]]) -> str:
    return ";".join(",".join(map(str, bs)) for bs in table)


def mro_subtree(args: tuple[list[tuple[int, ...]], int, bool, int]) -> list[tuple[str, str, str]]:
    """Depth-first enumeration of every hierarchy extending `prefix` (whose classes are all creatable) up to
    `maxn` user classes.  Class 0 is `object`; class k picks an ordered subset of the earlier classes as its bases
    (of classes 1..k-1 only unless with_object).  Every class is created for real on both sides:
    mypy.mro.calculate_mro on a fresh TypeInfo (as semanal does, in definition order, earlier MROs cached) and
    CPython type(name, bases, {}).  Returns (table, mypy result, cpython result) per node; a subtree below a
    class that either side rejects is not explored (the class does not exist at run time)."""
    prefix, maxn, with_object, stop_depth = args
    from mypy import mro as M
    from mypy.types import Instance
    obj = _mkinfo("builtins.object", [])
    M.calculate_mro(obj, None)
    objinst = lambda: Instance(obj, [])  # noqa
    infos: list[Any] = [obj]
    pys: list[Any] = [object]
    table: list[tuple[int, ...]] = [()]
    out: list[tuple[str, str, str]] = []

    def create(bs: tuple[int, ...]) -> tuple[Any, Any, list[int] | None, list[int] | None]:
        k = len(infos)
        info = _mkinfo(f"C{k}", [infos[b] for b in bs])
        try:
            M.calculate_mro(info, objinst)
            mm: list[int] | None = [k if x is info else next(i for i, y in enumerate(infos) if y is x) for x in info.mro]
        except M.MroError:
            mm = None
        try:
            t = type(f"C{k}", tuple(pys[b] for b in bs), {})
            pm: list[int] | None = [k if x is t else next(i for i, y in enumerate(pys) if y is x) for x in t.__mro__]
        except TypeError as e:
            t = None
            pm = None
            if "MRO" not in str(e) and "duplicate base" not in str(e):
                raise
        return info, t, mm, pm

    for bs in prefix[1:]:
        info, t, mm, pm = create(bs)
        assert mm is not None and pm is not None
        infos.append(info)
        pys.append(t)
        table.append(bs)

    def rec() -> None:
        k = len(infos)
        cl = list(range(k) if with_object else range(1, k))
        for r in range(len(cl) + 1):
            for bs in itertools.permutations(cl, r):
                info, t, mm, pm = create(bs)
                out.append((tbl_str(table + [bs]), _res(mm), _res(pm)))
                if mm is not None and pm is not None and k < maxn and k < stop_depth:
                    infos.append(info)
                    pys.append(t)
                    table.append(bs)
                    rec()
                    infos.pop()
                    pys.pop()
                    table.pop()
    if len(infos) <= maxn:
        rec()
    return out


def parse_tbl(s: str) -> list[tuple[int, ...]]:
    return [tuple(int(x) for x in part.split(",")) if part else () for part in s.split(";")]


def mro_enumerate(maxn: int, with_object: bool) -> list[tuple[str, str, str]]:
    """All hierarchies of up to maxn user classes (see mro_subtree), in parallel below depth 2."""
    split = min(2, maxn)
    top = mro_subtree(([()], maxn, with_object, split))
    if maxn <= split:
        return top
    prefixes = [parse_tbl(t) for t, m, c in top if m != "fail" and c != "fail" and t.count(";") == split]
    with ProcessPoolExecutor(max_workers=vlib.NPROC) as ex:
        subs = list(ex.map(mro_subtree, [(p, maxn, with_object, maxn) for p in prefixes], chunksize=1))
    return top + [x for s in subs for x in s]


def mro_semanal(ctx: vlib.Ctx, tables: list[str]) -> dict[str, list[str]]:
    """The same hierarchies through a REAL semantic analysis: one module defining every hierarchy under
    distinct names; read TypeInfo.mro and the "Cannot determine consistent method resolution order" errors."""
    from mypy import build as B
    from mypy.modulefinder import BuildSource
    from mypy.options import Options
    lines = []
    for h, t in enumerate(tables):
        for k, bs in enumerate(parse_tbl(t)):
            if k == 0:
                continue
            bl = ", ".join("object" if b == 0 else f"H{h}_{b}" for b in bs)
            lines.append(f"class H{h}_{k}({bl}): pass" if bs else f"class H{h}_{k}: pass")
    src = "\n".join(lines) + "\n"
    o = Options()
    o.incremental = False
    o.cache_dir = os.devnull
    o.show_traceback = True
    tmp = tempfile.mkdtemp(prefix="c12ab_")
    try:
        o.cache_dir = os.path.join(tmp, "cache")
        r = B.build([BuildSource(None, "mrom", src)], o)
    finally:
        shutil.rmtree(tmp, ignore_errors=True)
    bad = set()
    for e in r.errors:
        if "method resolution order" in e:
            bad.add(e.split('"')[1])
        elif "error:" in e:
            ctx.broke("C", "mro semanal glue", f"unexpected diagnostic {e}")
    names = r.files["mrom"].names
    out: dict[str, list[str]] = {}
    for h, t in enumerate(tables):
        res = []
        failed = False
        for k, bs in enumerate(parse_tbl(t)):
            if k == 0:
                res.append("ok:0")
                continue
            nm = f"H{h}_{k}"
            if failed:
                res.append("fail")       # a class deriving (transitively or not) after a failure: not compared
                continue
            if nm in bad:
                failed = True
                res.append("fail")
                continue
            info = names[nm].node
            idx = []
            for x in info.mro:  # type: ignore[union-attr]
                idx.append(0 if x.fullname == "builtins.object" else int(x.name.split("_")[1]))
            res.append(_res(idx))
        out[t] = res
    return out


def mro_stage(ctx: vlib.Ctx, exe: str | None) -> None:
    # quick: every hierarchy of object + up to 4 classes with `object` also nameable as an explicit base,
    #        and of up to 5 classes over implicit object; thorough: one more class each.
    plans = [(4, True), (5, False)] if ctx.quick else [(5, True), (6, False)]
    nodes: dict[str, tuple[str, str]] = {}
    for maxn, wo in plans:
        for t, m, c in mro_enumerate(maxn, wo):
            nodes[t] = (m, c)
    tables = sorted(nodes, key=lambda s: (s.count(";"), s))
    ctx.log(f"(b) {len(tables)} class hierarchies (plans {plans})")
    rejected = 0
    nviol = 0
    for t in tables:
        m, c = nodes[t]
        if m == "fail" or c == "fail":
            rejected += 1
        # S: mypy's linearization against CPython's actual __mro__ / TypeError
        if m != c:
            nviol += 1
            if nviol > MAX_REPORTED:
                continue
            ctx.violation(f"mro:{t}", f"class table {t}: mypy.mro gives {m} for the last class, CPython type() gives {c}",
                          {"kind": "mro", "table": t, "mypy": m, "cpython": c})
    ctx.add("evaluations", len(tables))
    ctx.cov["mro_hierarchies"] = len(tables)
    ctx.cov["mro_rejected_by_cpython"] = rejected
    ctx.cov["mro_disagreements_mypy_vs_cpython"] = nviol
    ctx.sample({"mro_table": tables[len(tables) // 2], "mypy": nodes[tables[len(tables) // 2]][0], "cpython": nodes[tables[len(tables) // 2]][1]})
    if exe:
        out = run_driver(exe, [f"mrolast {t}" for t in tables])
        bad = 0
        for t, o in zip(tables, out):
            w = o.split()
            # "M <res> C <res> W <wf>"
            if len(w) != 6 or w[5] != "1":
                ctx.broke("C", "mro driver", f"{t}: {o}")
                break
            if w[1] != nodes[t][0]:
                bad += 1
                if bad <= 5:
                    ctx.broke("C", "Mro.mypy_mro vs mypy.mro.calculate_mro", f"table {t}: model {w[1]} impl {nodes[t][0]}", {"table": t})
            if w[3] != nodes[t][1]:
                bad += 1
                if bad <= 5:
                    ctx.broke("C", "Mro.cpython_mro vs CPython type()", f"table {t}: model {w[3]} CPython {nodes[t][1]}", {"table": t})
        ctx.add("traces_validated_against_impl", len(tables))
    # through the real semantic analyzer (semanal.calculate_class_mro + mro.calculate_mro)
    rng = vlib.Rng(ctx.seed, "mro-semanal")
    small = [t for t in tables if t.count(";") <= 3]
    big = [t for t in tables if t.count(";") > 3]
    pick = small + rng.sample(big, min(len(big), ctx.n(300, 3000)))
    sem = mro_semanal(ctx, pick)
    if exe:
        out = run_driver(exe, [f"mro {t}" for t in pick])
        bad = 0
        for t, o in zip(pick, out):
            model = o.split()[1].split("|")
            # the model propagates failure of a base; semanal gives such classes a dummy MRO: compare up to the first failure
            got = sem[t]
            for k, (a, b) in enumerate(zip(model, got)):
                if a != b:
                    bad += 1
                    if bad <= 5:
                        ctx.broke("C", "Mro.mypy_mro vs semantic analysis (TypeInfo.mro)", f"table {t} class {k}: model {a} semanal {b}", {"table": t})
                if a == "fail":
                    break
        ctx.add("traces_validated_against_impl", len(pick))
    ctx.add("evaluations", len(pick))
    ctx.cov["mro_through_semanal"] = len(pick)



# ====================================================================== (a) call binding / arity

PNAMES = "abcde"
UNKNOWN_KW = "z"


def gen_sigs(maxp: int) -> list[list[tuple[str, str, bool]]]:
    """Every `def` parameter list with at most maxp parameters: (kind letter, name, positional-only).
    Kind letters as in the driver: P O S N M K.  Grammar of Python: pos-only, positional (no required one
    after one with a default), optional *args, keyword-only (any mix of defaults), optional **kwargs."""
    out = []
    for npo in range(maxp + 1):
        for nreg in range(maxp + 1 - npo):
            npp = npo + nreg
            for ndef in range(npp + 1):                      # the last ndef positional ones have defaults
                for star in (False, True):
                    for nkw in range(maxp + 1 - npp - star):
                        for kwdefs in itertools.product((False, True), repeat=nkw):
                            for star2 in (False, True):
                                if npp + star + nkw + star2 > maxp:
                                    continue
                                sig = []
                                names = iter(PNAMES)
                                for i in range(npp):
                                    sig.append(("O" if i >= npp - ndef else "P", next(names), i < npo))
                                if star:
                                    sig.append(("S", "args", False))
                                for d in kwdefs:
                                    sig.append(("M" if d else "N", next(names), False))
                                if star2:
                                    sig.append(("K", "kw", False))
                                out.append(sig)
    return out


def sig_src(name: str, sig: list[tuple[str, str, bool]]) -> str:
    parts = []
    npo = sum(1 for _, _, po in sig if po)
    seen_star = False
    for i, (k, n, po) in enumerate(sig):
        if k in "NM" and not seen_star:
            parts.append("*")
            seen_star = True
        if k == "S":
            seen_star = True
            parts.append("*" + n)
        elif k == "K":
            parts.append("**" + n)
        else:
            parts.append(n + ("=0" if k in "OM" else ""))
        if po and i == npo - 1:
            parts.append("/")
    return f"def {name}({', '.join(parts)}) -> None: ..."


def name_id(n: str) -> int:
    return {"a": 1, "b": 2, "c": 3, "d": 4, "e": 5, "args": 6, "kw": 7, UNKNOWN_KW: 9}[n]


def sig_enc(sig: list[tuple[str, str, bool]]) -> str:
    return ",".join(k + ("_" if po else str(name_id(n))) for k, n, po in sig) or "-"


def gen_calls(sig: list[tuple[str, str, bool]], maxa: int) -> list[tuple[int, tuple[str, ...]]]:
    """npos positional arguments followed by keyword arguments: every set of <= maxa - npos distinct keyword names out of
    the parameter names (pos-only, *args and **kwargs names included) and one unknown name; the first call shape with
    >= 2 keywords is also tried in reverse keyword order."""
    universe = [n for _, n, _ in sig] + [UNKNOWN_KW]
    out = []
    for npos in range(maxa + 1):
        for nk in range(maxa - npos + 1):
            for ks in itertools.combinations(universe, nk):
                out.append((npos, ks))
                if nk >= 2 and npos == 0:
                    out.append((npos, tuple(reversed(ks))))
    return out


def call_src(fname: str, npos: int, ks: tuple[str, ...]) -> str:
    return f"{fname}({', '.join(['0'] * npos + [k + '=0' for k in ks])})"


ARITY_CODES = {"call-arg", "misc"}


def bind_stage(ctx: vlib.Ctx, exe: str | None) -> None:
    from mypy import build as B
    from mypy import nodes
    from mypy.argmap import map_actuals_to_formals
    from mypy.modulefinder import BuildSource
    from mypy.options import Options
    from mypy.types import AnyType, TypeOfAny
    maxp, maxa = (3, 4) if ctx.quick else (4, 4)
    sigs = gen_sigs(maxp)
    cases: list[tuple[int, int, tuple[str, ...]]] = []
    src_lines: list[str] = []
    line_of: list[int] = []
    for si, sig in enumerate(sigs):
        src_lines.append(sig_src(f"f{si}", sig))
        for npos, ks in gen_calls(sig, maxa):
            cases.append((si, npos, ks))
            src_lines.append(call_src(f"f{si}", npos, ks))
            line_of.append(len(src_lines))
    ctx.log(f"(a) {len(sigs)} signatures (<= {maxp} parameters) x call shapes (<= {maxa} arguments) = {len(cases)} calls")
    # (i) real mypy: one in-process build over all call lines
    o = Options()
    o.incremental = False
    o.show_error_codes = True
    o.hide_error_codes = False
    o.error_summary = False
    tmp = tempfile.mkdtemp(prefix="c12ab_")
    try:
        o.cache_dir = os.path.join(tmp, "cache")
        r = B.build([BuildSource(None, "bindm", "\n".join(src_lines) + "\n")], o)
    finally:
        shutil.rmtree(tmp, ignore_errors=True)
    err_lines: dict[int, list[str]] = {}
    import re
    for e in r.errors:
        m = re.match(r"^[^:]+:(\d+): (error|note): (.*?)(?:\s+\[([a-z-]+)\])?$", e)
        if not m:
            ctx.broke("C", "bind glue", f"cannot parse diagnostic {e!r}")
            continue
        if m.group(2) == "note":
            continue
        if m.group(4) not in ARITY_CODES:
            ctx.broke("C", "bind glue", f"unexpected error code in {e!r}")
        err_lines.setdefault(int(m.group(1)), []).append(m.group(3))
    mypy_ok = [ln not in err_lines for ln in line_of]
    # (ii) real CPython
    ns: dict[str, Any] = {}
    exec("\n".join(sig_src(f"f{si}", sig) for si, sig in enumerate(sigs)), ns)
    cp_ok: list[bool] = []
    cp_msg: list[str] = []
    for si, npos, ks in cases:
        try:
            ns[f"f{si}"](*([0] * npos), **{k: 0 for k in ks})
            cp_ok.append(True)
            cp_msg.append("")
        except TypeError as e:
            cp_ok.append(False)
            cp_msg.append(str(e))
    # real argmap.map_actuals_to_formals on the same (kinds, names)
    KIND = {"P": nodes.ARG_POS, "O": nodes.ARG_OPT, "S": nodes.ARG_STAR, "N": nodes.ARG_NAMED, "M": nodes.ARG_NAMED_OPT, "K": nodes.ARG_STAR2}
    real_f2a: list[str] = []
    for si, npos, ks in cases:
        sig = sigs[si]
        f2a = map_actuals_to_formals([nodes.ARG_POS] * npos + [nodes.ARG_NAMED] * len(ks), [None] * npos + list(ks),
                                     [KIND[k] for k, _, _ in sig], [None if po else n for _, n, po in sig],
                                     lambda i: AnyType(TypeOfAny.special_form))
        real_f2a.append("".join(",".join(map(str, l)) + ";" for l in f2a))
    # (iii) S: mypy against CPython directly
    rejected = 0
    nviol = 0
    for i, (si, npos, ks) in enumerate(cases):
        if not cp_ok[i]:
            rejected += 1
        if mypy_ok[i] != cp_ok[i]:
            nviol += 1
            if nviol > MAX_REPORTED:
                continue
            d = sig_src("f", sigs[si])
            cs = call_src("f", npos, ks)
            ctx.violation(f"bind:{d}:{cs}",
                          f"`{d}` called as `{cs}`: mypy {'accepts' if mypy_ok[i] else 'rejects ' + repr(err_lines.get(line_of[i]))}, "
                          f"CPython {'binds' if cp_ok[i] else 'raises TypeError: ' + cp_msg[i]}",
                          {"kind": "bind", "def": d, "call": cs})
    ctx.add("evaluations", len(cases))
    ctx.cov["bind_signatures"] = len(sigs)
    ctx.cov["bind_calls"] = len(cases)
    ctx.cov["bind_rejected_by_cpython"] = rejected
    ctx.cov["bind_disagreements_mypy_vs_cpython"] = nviol
    k = len(cases) // 2
    ctx.sample({"def": sig_src("f", sigs[cases[k][0]]), "call": call_src("f", cases[k][1], cases[k][2]), "mypy_ok": mypy_ok[k], "cpython_ok": cp_ok[k]})
    if exe:
        out = run_driver(exe, [f"bind {sig_enc(sigs[si])} {npos} {','.join(str(name_id(x)) for x in ks) or '-'}" for si, npos, ks in cases])
        bad = 0
        for i, (o_, (si, npos, ks)) in enumerate(zip(out, cases)):
            w = o_.split()
            if len(w) != 8 or w[5] != "1":
                ctx.broke("C", "bind driver", f"{sig_enc(sigs[si])} {npos} {ks}: {o_}")
                break
            what = f"`{sig_src('f', sigs[si])}` called as `{call_src('f', npos, ks)}`"
            for label, got, want in (("Bind.mypy_accepts vs mypy diagnostics (mypy.build)", w[1] == "1", mypy_ok[i]),
                                     ("Bind.cpython_bind vs a real CPython call", w[3] == "1", cp_ok[i]),
                                     ("Bind.map_actuals_to_formals vs mypy.argmap.map_actuals_to_formals", w[7], "=" + real_f2a[i])):
                if got != want:
                    bad += 1
                    if bad <= 6:
                        ctx.broke("C", label, f"{what}: model {got} real {want}", {"def": sig_src("f", sigs[si]), "call": call_src("f", npos, ks)})
        ctx.add("traces_validated_against_impl", len(cases))

# ====================================================================== entry point

def run(ctx: vlib.Ctx) -> None:
    ctx.cov["rule"] = ctx.cov.get("rule", "") + (
        "; (b) every class hierarchy (class k picks an ordered subset of the earlier classes as bases), created for real "
        "on both sides (non-trivial = CPython rejects the class); (a) every def parameter list up to N parameters x every call of "
        "<= 4 positional/keyword arguments over the parameter names and one unknown name (non-trivial = CPython raises TypeError)")
    ctx.assumptions += [
        "(b) CPython's pmerge/mro_implementation (Objects/typeobject.c) transcribed by hand into C12/Mro.v; tied to the running "
        "CPython 3.12 by exhaustive comparison with type(name, bases, {}).__mro__ / TypeError",
        "(b) duplicate bases are outside the fragment (rejected before MRO computation by both: semanal 'Duplicate base class', check_duplicates)",
        "(a) CPython's initialize_locals (Python/ceval.c) transcribed by hand into C12/Bind.v (per-slot form); tied to the running "
        "CPython 3.12 by calling real functions; *tuple / **TypedDict actuals are outside the modelled fragment",
        "(a) mypy's verdict = absence of call-arg/misc diagnostics on the call line in a real in-process mypy.build of generated source",
        "extraction: ExtrOcamlBasic only; OCaml driver tools/ocaml/c12ab_driver.ml (I/O only)",
    ]
    ctx.prove("C12/PropertiesAB.v", ["C12", "gen", "lib"])
    exe = vlib.build_extracted("c12ab", "C12/ExtractAB.v", "tools/ocaml/c12ab_driver.ml")
    if exe is None:
        ctx.broke("C", "extraction", "extracted model c12ab does not build")
    mro_stage(ctx, exe)
    bind_stage(ctx, exe)
    ctx.cov["ab_nontrivial"] = ctx.cov.get("mro_rejected_by_cpython", 0) + ctx.cov.get("bind_rejected_by_cpython", 0)
