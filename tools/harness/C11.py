"""C11 — cache serialization is faithful in both formats.

T  tools/extractors/t11.py regenerates coq/gen/Schemas.v (writer/reader field-op schemas) from /repo text
P+A coq/C11/Properties.v: primitive codec round trip for all Z / byte strings, generic schema theorem,
   `ops_match` of every extracted pair closed by vm_compute
C  byte-exact tie of the Coq model with the installed librt (boundary values, random, huge ints, strings),
   model decode of real bytes, extracted helper schemas run against the real write_X / read_X
S  structural round trip on the implementation: cold build -> warm build (trees reloaded + fixup) in the
   binary and in the JSON format; fresh vs reloaded-binary vs reloaded-JSON dumps; determinism across
   PYTHONHASHSEED; data files = re-serialisation of the final trees
"""
from __future__ import annotations

import json
import os
import re
import shutil
import subprocess
import sys
import tempfile
from concurrent.futures import ThreadPoolExecutor
from typing import Any

import vlib
from extractors import t11

HEADER = """From Coq Require Import ZArith List Bool String.
From C11 Require Import Prim Schema Json Types ProofsSchema JsonText JsonSchema JsonObj Fixup ProofsGen.
From Gen Require Import Schemas.
Import ListNotations.
Open Scope Z_scope.
"""

QUICK_MODULES = ("collections dataclasses enum typing_extensions unittest email.message http.client json logging os "
                 "pathlib re subprocess sqlite3 argparse concurrent.futures contextlib ctypes datetime decimal functools "
                 "itertools importlib.metadata inspect io multiprocessing numbers operator pickle queue random shutil socket "
                 "statistics string tempfile threading types urllib.request xml.etree.ElementTree zipfile ast ssl").split()

# multi-module programs exercising every symbol kind / flag the cache stores
PROGRAMS: dict[str, dict[str, str]] = {
    "kinds": {
        "pa.py": '''
from __future__ import annotations
import abc, enum, dataclasses
from typing import (Any, Callable, ClassVar, Final, Generic, Literal, NamedTuple, NewType, Protocol, TypedDict, TypeVar,
                    overload, runtime_checkable, final, Awaitable, Iterator, AsyncIterator, Type, Union, Optional)
from typing_extensions import ParamSpec, TypeVarTuple, Unpack, Concatenate, TypeAlias, Self, TypeGuard, TypeIs, deprecated, dataclass_transform, NotRequired, ReadOnly, Required
T = TypeVar("T")
K = TypeVar("K", bound="Base")
V = TypeVar("V", int, str)
C = TypeVar("C", covariant=True)
D = TypeVar("D", default=int)
P = ParamSpec("P")
Ts = TypeVarTuple("Ts")
UserId = NewType("UserId", int)
Alias: TypeAlias = "dict[str, list[Base]]"
GenAlias = dict[T, list[T]]
Rec = Union[int, list["Rec"]]
FINAL_I: Final = 3
FINAL_BIG: Final = 2 ** 70
FINAL_NEG: Final = -12345678901
FINAL_S: Final = "é\\u4e2d"
FINAL_B: Final = True
FINAL_F: Final = 1.5
class TD(TypedDict):
    zeta: int
    alpha: str
    mid: NotRequired[bytes]
    ro: ReadOnly[int]
class TD2(TD, total=False):
    beta: "list[TD]"
class NT(NamedTuple):
    x: int
    y: str = "a"
class Color(enum.Enum):
    RED = 1
    GREEN = "g"
class Flag(enum.IntFlag):
    A = 1
    B = 2
@runtime_checkable
class Proto(Protocol[C]):
    attr: int
    def meth(self) -> C: ...
class Base(abc.ABC):
    cv: ClassVar[int] = 1
    __slots__ = ("a", "b")
    def __init__(self) -> None:
        self.a = 1
        self.b: Final = "x"
    @abc.abstractmethod
    def am(self) -> int: ...
    @property
    def prop(self) -> int: return 1
    @prop.setter
    def prop(self, v: int) -> None: ...
    @property
    @abc.abstractmethod
    def aprop(self) -> str: ...
    @staticmethod
    def sm(x: int) -> int: return x
    @classmethod
    def cm(cls) -> Self: return cls()
    @final
    def fin(self) -> None: ...
    @overload
    def ov(self, x: int) -> int: ...
    @overload
    def ov(self, x: str) -> str: ...
    def ov(self, x: Any) -> Any: return x
    async def co(self) -> int: return 1
    def gen(self) -> Iterator[int]: yield 1
    async def agen(self) -> AsyncIterator[int]: yield 1
    @deprecated("use other")
    def old(self) -> None: ...
@final
class Leaf(Base, Generic[T, Unpack[Ts]]):
    def am(self) -> int: return 0
    @property
    def aprop(self) -> str: return ""
    def f(self, cb: Callable[Concatenate[int, P], T], *a: P.args, **k: P.kwargs) -> T: return cb(1, *a, **k)
    def tup(self, *args: Unpack[Ts]) -> tuple[int, Unpack[Ts]]: ...
    def kw(self, **kw: Unpack[TD]) -> None: ...
@dataclasses.dataclass(frozen=True, order=True)
class DC(Generic[T]):
    x: T
    y: int = 0
    z: list[int] = dataclasses.field(default_factory=list, kw_only=True)
@dataclass_transform(kw_only_default=True, field_specifiers=(dataclasses.field,))
def model(cls: type[T]) -> type[T]: return cls
class Meta(type):
    def mm(cls) -> int: return 1
class WithMeta(metaclass=Meta): ...
def guard(x: object) -> TypeGuard[int]: return True
def isit(x: object) -> TypeIs[str]: return True
def lit(x: Literal[1, "a", True, None]) -> Literal[Color.RED]: ...
def opt(x: Optional[int] = None, *, y: "Leaf[int, str] | None" = None) -> Type[Base]: ...
def deco(f: Callable[P, T]) -> Callable[P, list[T]]: ...
@deco
def decorated(a: int, /, b: str, *c: bytes, d: float = 1.0, **e: Any) -> int: return 1
def defaulted(x: D) -> D: return x
var_any: Any = 1
var_none = None
var_inferred = [1, 2]
var_tuple = (1, "a")
var_callable: Callable[..., Awaitable[None]]
def untyped(a, b=1): return a
if int():
    def cond() -> int: return 1
else:
    def cond() -> int: return 2
''',
        "pb.py": '''
from pa import *
from pa import Base as B2, TD, NT, Color
import pa as mod
import collections.abc
class Sub(B2):
    def am(self) -> int: return 1
    @property
    def aprop(self) -> str: return "s"
    nested: "Sub.Inner"
    class Inner:
        z: TD
        def m(self, n: NT = NT(1)) -> Color: return Color.RED
x = mod.Leaf[int, str]()
td: TD = {"zeta": 1, "alpha": "a", "ro": 1}
def __getattr__(name: str) -> int: ...
__all__ = ["Sub", "x"]
''',
        "pc/__init__.py": "from .sub import thing as thing\nfrom . import sub\n",
        "pc/sub.py": "import pb\nthing: 'pb.Sub' = pb.Sub()\nclass Cyc:\n    other: 'Cyc2'\nclass Cyc2(Cyc): ...\n",
    },
}

PROGRAMS["optional"] = {
    "qa.py": "name: str = 'x'\nversion: int = 1\ndef run(x: int) -> int: return x\n",
    "qsub/__init__.py": "from . import inner as inner\n",
    "qsub/inner.py": "name: str = 'inner'\ndef run(x: int) -> int: return x + 1\n",
    "qb.py": '''
from __future__ import annotations
import qa
import qsub.inner
from typing import (Any, Callable, Final, Generic, Literal, NamedTuple, NoReturn, Optional, Protocol, TypedDict, TypeVar, Union, overload)
from typing_extensions import (Concatenate, NotRequired, ParamSpec, ReadOnly, Required, TypeGuard, TypeIs, TypeVarTuple, Unpack)
class HasName(Protocol):
    name: str
    def run(self, x: int) -> int: ...
def use(m: HasName) -> str: return m.name
# module objects (types.ModuleType instances carrying ExtraAttrs) as protocol implementation and inside containers
used = use(qa)
pair = (qa, 1)
triple = (qsub.inner, "s", None)
table = {"k": qa}
holder = [qa, qsub.inner]
either = qa if int() else 1
opt_mod = qa if int() else None
class K:
    mod = qa
    pairs = (qa, qsub.inner)
    def m(self, d=qa, t=(qa, 2)) -> None: ...
def dflt(m=qa, n=(qa, 1)): return m
def typed_dflt(m: HasName = qa) -> HasName: return m
# rarely set optional fields of types: one symbol per field
FIN: Final = 3
FINS: Final = "lit"
FINB: Final = True
T = TypeVar("T")
D = TypeVar("D", default=int)
Bd = TypeVar("Bd", bound=int)
Vs = TypeVar("Vs", int, str)
Co = TypeVar("Co", covariant=True)
P = ParamSpec("P")
PD = ParamSpec("PD", default=[int, str])
Ts = TypeVarTuple("Ts")
TsD = TypeVarTuple("TsD", default=Unpack[tuple[int, str]])
class GD(Generic[D]): ...
class GP(Generic[P]): ...
class GPD(Generic[PD]): ...
class GT(Generic[Unpack[Ts]]): ...
class GTD(Generic[Unpack[TsD]]): ...
class GC(Generic[Co]): ...
def bounded(x: Bd, y: Vs) -> tuple[Bd, Vs]: ...
def conc(f: Callable[Concatenate[int, P], T]) -> Callable[P, T]: ...
def prefixed(x: GP[Concatenate[int, str, P]]) -> GP[P]: ...
def guard(x: object) -> TypeGuard[int]: ...
def isit(x: object) -> TypeIs[str]: ...
class TD(TypedDict, total=False):
    a: Required[int]
    b: ReadOnly[str]
    c: int
class TDR(TypedDict):
    r: ReadOnly[int]
    n: NotRequired[str]
def kw(**k: Unpack[TD]) -> None: ...
@overload
def ov(x: int) -> int: ...
@overload
def ov(x: str) -> str: ...
def ov(x: Any) -> Any: return x
ovref = ov
RG = Union[T, list["RG[T]"]]
rg_use: RG[int]
# classes whose special_alias / fallbacks / promotions are REBUILT by fixup (not deserialised)
class Row(TypedDict, Generic[Unpack[Ts]]):
    cols: tuple[Unpack[Ts]]
    tag: str
row_use: Row[str, int, bytes]
class RowD(TypedDict, Generic[D]):
    v: D
rowd_use: RowD
class RowT(TypedDict, Generic[T, Vs]):
    a: T
    b: Vs
class NTT(NamedTuple, Generic[Unpack[Ts]]):
    items: tuple[Unpack[Ts]]
ntt_use: NTT[int, str]
class NTG(NamedTuple, Generic[T, D]):
    x: T
    y: D
ntg_use: NTG[int]
VarAlias = tuple[int, Unpack[Ts]]
va_use: VarAlias[str, bytes]
type NewStyle[X] = list[X] | None
ns_use: NewStyle[int]
class MetaB(type): ...
class WithMetaB(metaclass=MetaB): ...
class SubMetaB(WithMetaB): ...
# (mypy_extensions.i64 is deliberately not used: analysing it appends a backward promotion to the already cached
#  builtins.int._promote, see notes/C11.md "promotion hack")
def nr() -> NoReturn: ...
def none() -> None: ...
ell: Callable[..., int]
tt: type[K]
lit: Literal[1, "a", True]
pep: int | str
old: Union[int, str]
tup_var: tuple[int, ...]
tup_unpack: tuple[int, Unpack[tuple[str, ...]]]
missing_any: Any
from nonexistent_mod_c11 import Thing  # type: ignore
thing_var: Thing
''',
}

# optional fields that must be NON-default somewhere in the fresh trees of the program corpus (own modules only);
# checked on every run so that the corpus cannot silently stop covering a field
REQUIRED_FEATURES = [
    "Instance.args", "Instance.last_known_value", "Instance.extra_attrs", "ExtraAttrs.mod_name", "ExtraAttrs.attrs",
    "Instance.extra_attrs@tuple", "Instance.extra_attrs@union",
    "TypeVarType.values", "TypeVarType.upper_bound", "TypeVarType.default", "TypeVarType.variance",
    "ParamSpecType.prefix", "ParamSpecType.default", "ParamSpecType.flavor", "TypeVarTupleType.default",
    "CallableType.type_guard", "CallableType.type_is", "CallableType.unpack_kwargs", "CallableType.from_concatenate",
    "CallableType.is_ellipsis_args", "CallableType.variables", "CallableType.name",
    "TypedDictType.readonly_keys", "TypedDictType.required_keys", "Overloaded", "TypeAliasType.args", "NoneType",
    "UninhabitedType", "TupleType", "UnionType.uses_pep604_syntax", "UnionType", "LiteralType", "TypeType", "UnpackType",
    "AnyType.missing_import_name", "Parameters",
    "Var.final_value", "Var.setter_type", "FuncDef.deprecated", "OverloadedFuncDef.setter_index", "TypeInfo.slots",
    "TypeInfo.tuple_type", "TypeInfo.typeddict_type", "TypeInfo.declared_metaclass", "TypeInfo.abstract_attributes",
    "TypeInfo.dataclass_transform_spec|FuncDef.dataclass_transform_spec", "TypeInfo.metadata", "TypeInfo.is_protocol",
    # rebuilt by fixup
    "TypeInfo.special_alias", "special_alias.alias_tvars@typeddict", "special_alias.alias_tvars@tuple",
    "special_alias.tvar_tuple_index@typeddict", "special_alias.tvar_tuple_index@tuple", "TypeInfo.metaclass_type",
    "TypeInfo.promote", "TypeAlias.alias_tvars", "TypeAlias.tvar_tuple_index",
    "TypeAlias.python_3_12_type_alias", "TypeAliasType",
]

CHILD = r'''
import sys, os, json, time, hashlib, glob
sys.setrecursionlimit(10000)
from mypy import build
from mypy.options import Options
from mypy.modulefinder import BuildSource
from mypy.cache import WriteBuffer
from mypy.fscache import FileSystemCache
from mypy import nodes as N, types as T

spec = json.load(open(sys.argv[1]))
root = spec["root"]

def opts(cache_dir, ff):
    o = Options()
    o.incremental = True
    o.cache_dir = cache_dir
    o.fixed_format_cache = ff
    o.sqlite_cache = False          # one file per module: the data files are compared byte for byte
    o.show_traceback = True
    o.python_version = (3, 12)
    o.mypy_path = spec.get("mypy_path", [])
    return o

def sources():
    s = [BuildSource(None, m, None) for m in spec["modules"]]
    s += [BuildSource(p, m, None) for m, p in spec.get("files", {}).items()]
    return s

def norm_td(x):
    """canonicalise TypedDictType items order (classification of the known item-order difference)"""
    if isinstance(x, dict):
        y = {k: norm_td(v) for k, v in x.items()}
        if x.get(".class") == "TypedDictType" and isinstance(y.get("items"), list):
            y["items"] = sorted(y["items"], key=lambda kv: kv[0])
        return y
    if isinstance(x, list):
        return [norm_td(v) for v in x]
    return x

def diff(x, y, path, out):
    if len(out) >= 6:
        return
    if type(x) != type(y):
        out.append([path, repr(x)[:120], repr(y)[:120]]); return
    if isinstance(x, dict):
        for k in sorted(set(x) | set(y)):
            if k not in x or k not in y:
                out.append([path + "/" + k, repr(x.get(k))[:120], repr(y.get(k))[:120]])
            else:
                diff(x[k], y[k], path + "/" + k, out)
    elif isinstance(x, list):
        if len(x) != len(y):
            out.append([path, "len %d %s" % (len(x), repr(x)[:100]), "len %d %s" % (len(y), repr(y)[:100])]); return
        for i, (p, q) in enumerate(zip(x, y)):
            diff(p, q, path + "[%d]" % i, out)
    elif x != y:
        out.append([path, repr(x)[:120], repr(y)[:120]])

# by design not part of the cached interface (see notes/C11.md): only stubtest reads it, and stubtest never uses the cache
#   def_or_infer_vars: set while checking a function body; bodies are not cached and the flag is only read by the body checker
SKIP_BOOL = {"is_type_check_only", "def_or_infer_vars"}

def attrs_of(node):
    d = {}
    for k in dir(type(node)):
        pass
    names = set(getattr(node, "__dict__", {}).keys())
    for c in type(node).__mro__:
        names |= set(getattr(c, "__slots__", ()) or ())
    for k in sorted(names):
        if k in SKIP_BOOL or k.startswith("__") or (k.startswith("_") and k not in ("_fullname", "_name")):
            continue   # private attributes are lazily computed caches (_is_recursive, _is_trivial_self, ...)
        try:
            v = getattr(node, k)
        except Exception:
            continue
        if isinstance(v, bool) or (isinstance(v, (int, str)) and k in ("kind", "abstract_status", "variance", "_fullname", "_name", "deprecated", "setter_index", "original_first_arg")):
            d[k] = v
    return d

def tstr(t):
    if t is None:
        return None
    if isinstance(t, T.Instance) and t.type_ref is not None:
        return "<unresolved %s>" % t.type_ref       # TypeFixer.visit_instance did not run
    return str(t)

def defn_of(t):
    """CallableType.definition (re-linked by NodeFixer.visit_func_def / visit_decorator / visit_overloaded_func_def)"""
    d = getattr(t, "definition", None) if t is not None else None
    # fresh trees link a decorated function's type to the Decorator, reloaded ones to its FuncDef: same definition
    return None if d is None else getattr(d, "fullname", "?")

def alias_rec(a):
    if a is None:
        return None
    return {"fullname": a.fullname, "target": tstr(a.target) if "TypedDict(" not in str(a.target) else ["<TypedDict>", type_detail(a.target)],
            "alias_tvars": [tstr(v) for v in a.alias_tvars], "tvar_tuple_index": a.tvar_tuple_index,
            "no_args": a.no_args, "normalized": a.normalized, "python_3_12_type_alias": a.python_3_12_type_alias}

def walk_flags(tree):
    """independent attribute-wise walk: every bool attribute of every symbol / node reachable through symbol tables"""
    out = {}
    seen = set()
    def table(names, prefix, modname):
        for name in sorted(names):
            if name == "__builtins__":
                continue
            sym = names[name]
            if sym.no_serialize:
                continue
            key = prefix + "." + name
            node = sym.node          # forces resolution of a pending cross reference / lazily stored node
            rec = {"sym": attrs_of(sym), "cross_ref": sym.cross_ref}
            rec["cls"] = type(node).__name__
            if node is not None and not isinstance(node, N.MypyFile):
                fn = node.fullname
                local = fn == key or "." not in fn or (isinstance(node, N.Var) and node.from_module_getattr)
                if local and id(node) not in seen:
                    seen.add(id(node))
                    rec["node"] = attrs_of(node)
                    if isinstance(node, N.Decorator):
                        rec["func"] = attrs_of(node.func); rec["var"] = attrs_of(node.var)
                    if isinstance(node, N.OverloadedFuncDef):
                        rec["items"] = [attrs_of(i.func if isinstance(i, N.Decorator) else i) for i in node.items]
                        if node.impl is not None:
                            rec["impl"] = attrs_of(node.impl.func if isinstance(node.impl, N.Decorator) else node.impl)
                    if isinstance(node, N.TypeInfo):
                        rec["mro"] = [c.fullname for c in node.mro]
                        rec["mro_refs_pending"] = node._mro_refs
                        rec["bases"] = [str(b) for b in node.bases]
                        rec["abstract"] = list(map(list, node.abstract_attributes))
                        rec["slots"] = sorted(node.slots) if node.slots is not None else None
                        # objects that fixup REBUILDS (not deserialised): special_alias, promotions, metaclasses, fallbacks
                        rec["special_alias"] = alias_rec(node.special_alias)
                        rec["promote"] = sorted(tstr(p) for p in node._promote)
                        for a in ("alt_promote", "metaclass_type", "declared_metaclass", "self_type"):
                            rec[a] = tstr(getattr(node, a))
                        rec["tuple_type"] = None if node.tuple_type is None else [tstr(node.tuple_type), tstr(node.tuple_type.partial_fallback), type_detail(node.tuple_type)]
                        rec["typeddict_type"] = None if node.typeddict_type is None else [tstr(node.typeddict_type), tstr(node.typeddict_type.fallback), type_detail(node.typeddict_type)]
                        rec["defn_type_vars"] = [tstr(v) + "=" + tstr(getattr(v, "default", None)) for v in node.defn.type_vars]
                        table(node.names, key, modname)
                    if isinstance(node, N.TypeAlias):
                        rec["alias"] = alias_rec(node)
                    if isinstance(node, (N.TypeVarExpr, N.ParamSpecExpr, N.TypeVarTupleExpr)):
                        rec["tvar_like"] = [tstr(node.upper_bound), tstr(node.default), [tstr(v) for v in getattr(node, "values", [])],
                                            tstr(getattr(node, "tuple_fallback", None))]
                    if isinstance(node, (N.FuncDef, N.OverloadedFuncDef, N.Decorator, N.Var)):
                        inf = getattr(node, "info", None)          # set from SymbolTableNode.stored_info for lazily read nodes
                        rec["info"] = inf.fullname if isinstance(inf, N.TypeInfo) and not isinstance(inf, N.FakeInfo) and inf.fullname else None
                    if isinstance(node, N.Decorator):
                        rec["links"] = [node.func.fullname, node.var.fullname, defn_of(node.var.type), defn_of(node.func.type)]
                    if isinstance(node, N.FuncDef):
                        rec["definition"] = defn_of(node.type)
                    if isinstance(node, N.OverloadedFuncDef):
                        rec["definition"] = [defn_of(t) for t in node.type.items] if isinstance(node.type, T.Overloaded) else None
                        rec["item_names"] = [i.fullname for i in node.items] + [node.impl.fullname if node.impl else None]
                    if isinstance(node, (N.Var, N.FuncDef)) and node.type is not None:
                        ts = str(node.type)
                        # TypedDict item order is reported once, by the serialize() comparison (known finding)
                        rec["type"] = ts if "TypedDict(" not in ts else "<has TypedDict>"
                        rec["type_detail"] = type_detail(node.type)
                    if isinstance(node, N.Var):
                        rec["final_value"] = repr(node.final_value)
                else:
                    rec["ref"] = fn
            out[key] = rec
    table(tree.names, tree.fullname, tree.fullname)
    return out

def type_detail(t):
    """independent (not via serialize()/write()) summary of the optional fields of every type inside t"""
    feats, seen = set(), set()
    _type_rec(t, [], feats, seen, True)
    return sorted(feats)

def _type_rec(t0, ctx0, feats, seen, detail=False):
    def rec(t, ctx):
        if t is None or id(t) in seen:
            return
        if isinstance(t, (list, tuple, set, frozenset)):
            for x in t:
                rec(x, ctx)
            return
        if isinstance(t, dict):
            for x in t.values():
                rec(x, ctx)
            return
        if isinstance(t, T.ExtraAttrs):
            seen.add(id(t))
            if detail: feats.add("ExtraAttrs(%s;%s;%s)" % (t.mod_name, ",".join(sorted(t.attrs)), ",".join(sorted(t.immutable))))
            if t.mod_name is not None: feats.add("ExtraAttrs.mod_name")
            if t.attrs: feats.add("ExtraAttrs.attrs")
            if t.immutable: feats.add("ExtraAttrs.immutable")
            rec(t.attrs, ctx)
            return
        if not isinstance(t, T.Type):
            return
        seen.add(id(t))
        n = type(t).__name__
        def f(x): feats.add(n + "." + x)
        if isinstance(t, T.Instance):
            if t.type_ref is not None: feats.add("UNRESOLVED Instance.type_ref=" + str(t.type_ref))
            if t.args: f("args")
            if t.last_known_value is not None: f("last_known_value")
            if t.extra_attrs is not None:
                f("extra_attrs")
                for c in ctx: feats.add("Instance.extra_attrs@" + c)
            rec(t.args, ctx); rec(t.last_known_value, ctx); rec(t.extra_attrs, ctx)
        elif isinstance(t, T.TypeVarType):
            if t.values: f("values")
            if not (isinstance(T.get_proper_type(t.upper_bound), T.Instance) and T.get_proper_type(t.upper_bound).type.fullname == "builtins.object"): f("upper_bound")
            if t.has_default(): f("default")
            if t.variance != 0: f("variance")
            rec(t.values, ctx); rec(t.upper_bound, ctx); rec(t.default, ctx)
        elif isinstance(t, T.ParamSpecType):
            if t.prefix.arg_types: f("prefix")
            if t.has_default(): f("default")
            if t.flavor != 0: f("flavor")
            rec(t.prefix, ctx); rec(t.default, ctx); rec(t.upper_bound, ctx)
        elif isinstance(t, T.TypeVarTupleType):
            if t.has_default(): f("default")
            if t.min_len: f("min_len")
            rec(t.default, ctx); rec(t.upper_bound, ctx); rec(t.tuple_fallback, ctx)
        elif isinstance(t, T.Parameters):
            feats.add("Parameters")
            if t.imprecise_arg_kinds: f("imprecise_arg_kinds")
            rec(t.arg_types, ctx); rec(t.variables, ctx)
        elif isinstance(t, T.CallableType):
            for a in ("type_guard", "type_is"):
                if getattr(t, a) is not None: f(a)
            for a in ("unpack_kwargs", "from_concatenate", "imprecise_arg_kinds", "is_ellipsis_args", "implicit", "is_bound"):
                if getattr(t, a): f(a)
            if t.variables: f("variables")
            if t.name is not None: f("name")
            if t.instance_type is not None: f("instance_type")
            rec(t.arg_types, ctx); rec(t.ret_type, ctx); rec(t.variables, ctx); rec(t.type_guard, ctx); rec(t.type_is, ctx)
            rec(t.fallback, ctx); rec(t.instance_type, ctx)
        elif isinstance(t, T.Overloaded):
            feats.add("Overloaded"); rec(t.items, ctx)
        elif isinstance(t, T.TupleType):
            feats.add("TupleType")
            if t.implicit: f("implicit")
            rec(t.items, ctx + ["tuple"]); rec(t.partial_fallback, ctx)
        elif isinstance(t, T.TypedDictType):
            feats.add("TypedDictType")
            if t.readonly_keys: f("readonly_keys")
            if t.required_keys and t.required_keys != set(t.items): f("required_keys")
            if t.is_closed: f("is_closed")
            rec(t.items, ctx); rec(t.fallback, ctx)
        elif isinstance(t, T.UnionType):
            feats.add("UnionType")
            if t.uses_pep604_syntax: f("uses_pep604_syntax")
            rec(t.items, ctx + ["union"])
        elif isinstance(t, T.LiteralType):
            feats.add("LiteralType"); rec(t.fallback, ctx)
        elif isinstance(t, T.TypeType):
            feats.add("TypeType")
            if t.is_type_form: f("is_type_form")
            rec(t.item, ctx)
        elif isinstance(t, T.TypeAliasType):
            feats.add("TypeAliasType")
            if t.type_ref is not None: feats.add("UNRESOLVED TypeAliasType.type_ref=" + str(t.type_ref))
            if detail and t.alias is not None: feats.add("alias->" + t.alias.fullname)
            if t.args: f("args")
            rec(t.args, ctx)
        elif isinstance(t, T.UnpackType):
            feats.add("UnpackType"); rec(t.type, ctx)
        elif isinstance(t, T.AnyType):
            if t.missing_import_name is not None: f("missing_import_name")
            if t.source_any is not None: f("source_any")
        else:
            feats.add(n)
    rec(t0, ctx0)

def type_features(tree, feats):
    """which optional fields of types / nodes are NON-default in this (fresh) tree"""
    seen = set()
    def rec(t, ctx):
        _type_rec(t, ctx, feats, seen)
    def table(names):
        for name in names:
            sym = names[name]
            node = sym.node
            if name == "__builtins__" or sym.no_serialize or node is None or id(node) in seen:
                continue
            if isinstance(node, N.MypyFile) or (node.fullname.rpartition(".")[0] != tree.fullname and not isinstance(node, N.TypeInfo) and "." in node.fullname
                                                and not node.fullname.startswith(tree.fullname + ".")):
                continue
            seen.add(id(node))
            parts = [node]
            if isinstance(node, N.Decorator): parts = [node.func, node.var]
            if isinstance(node, N.OverloadedFuncDef):
                if node.setter_index is not None: feats.add("OverloadedFuncDef.setter_index")
                if node.deprecated is not None: feats.add("OverloadedFuncDef.deprecated")
                rec(node.type, [])
                for it in node.items + ([node.impl] if node.impl else []):
                    parts += [it.func, it.var] if isinstance(it, N.Decorator) else [it]
            for p in parts:
                if isinstance(p, N.Var):
                    if p.final_value is not None: feats.add("Var.final_value")
                    if p.setter_type is not None: feats.add("Var.setter_type")
                    rec(p.type, []); rec(p.setter_type, [])
                elif isinstance(p, N.FuncDef):
                    if p.deprecated is not None: feats.add("FuncDef.deprecated")
                    if p.dataclass_transform_spec is not None: feats.add("FuncDef.dataclass_transform_spec")
                    if p.original_first_arg is not None: feats.add("FuncDef.original_first_arg")
                    ty = p.type
                    if isinstance(ty, T.CallableType):
                        for a, k in zip(ty.arg_types, ty.arg_kinds):
                            rec(a, ["arg_default"] if k.is_optional() else [])
                        seen.discard(id(ty))
                    rec(ty, [])
                elif isinstance(p, N.TypeInfo):
                    for a in ("slots", "tuple_type", "typeddict_type", "declared_metaclass", "metaclass_type", "alt_promote", "self_type", "deprecated", "dataclass_transform_spec", "special_alias"):
                        if getattr(p, a) is not None: feats.add("TypeInfo." + a)
                    if p.special_alias is not None:
                        kind = "typeddict" if p.typeddict_type is not None else "tuple"
                        if p.special_alias.alias_tvars: feats.add("special_alias.alias_tvars@" + kind)
                        if p.special_alias.tvar_tuple_index is not None: feats.add("special_alias.tvar_tuple_index@" + kind)
                    for a in ("abstract_attributes", "metadata", "deletable_attributes", "_promote", "is_protocol", "is_enum", "is_named_tuple", "is_newtype", "is_final", "runtime_protocol"):
                        if getattr(p, a): feats.add("TypeInfo." + a.lstrip("_"))
                    rec([p.bases, p._promote, p.tuple_type, p.typeddict_type, p.declared_metaclass, p.metaclass_type, p.self_type, p.alt_promote, p.defn.type_vars], [])
                    table(p.names)
                elif isinstance(p, N.TypeAlias):
                    if p.alias_tvars: feats.add("TypeAlias.alias_tvars")
                    if p.tvar_tuple_index is not None: feats.add("TypeAlias.tvar_tuple_index")
                    if p.python_3_12_type_alias: feats.add("TypeAlias.python_3_12_type_alias")
                    rec(p.target, []); rec(p.alias_tvars, [])
                elif isinstance(p, N.TypeVarExpr):
                    rec([p.values, p.upper_bound, p.default], [])
                elif isinstance(p, (N.ParamSpecExpr, N.TypeVarTupleExpr)):
                    rec([p.upper_bound, p.default], [])
    table(tree.names)

def dump(tree):
    ser = tree.serialize()
    b = WriteBuffer(); tree.write(b)
    return ser, b.getvalue()

def sha(b):
    return hashlib.sha1(b).hexdigest()

res = {"modules": {}, "problems": [], "stats": {}}
fresh = {}
for ff in (True, False):
    fmt = "bin" if ff else "json"
    cd = os.path.join(root, fmt)
    t = time.time()
    r1 = build.build(sources(), opts(cd, ff), fscache=FileSystemCache())
    res["stats"]["cold_" + fmt] = round(time.time() - t, 1)
    if r1.errors and not spec.get("allow_errors"):
        res["problems"].append({"kind": "build-errors", "fmt": fmt, "errors": r1.errors[:5]})
    mods1 = r1.manager.modules
    d1 = {}
    for i in sorted(mods1):
        ser, b = dump(mods1[i])
        d1[i] = (ser, b, walk_flags(mods1[i]))
        m = res["modules"].setdefault(i, {})
        m["fresh_ser_" + fmt] = sha(json.dumps(ser, sort_keys=True).encode())
        m["fresh_bin_" + fmt] = sha(b)
        st = r1.graph.get(i)
        if st is not None:
            m["ihash_" + fmt] = st.interface_hash.hex()
        # determinism: the data file written during the build == serialisation of the final tree
        if ff:
            data = None
            for cand in glob.glob(os.path.join(cd, "*", *i.split(".")) + ".data.ff") + glob.glob(os.path.join(cd, "*", *i.split("."), "__init__.data.ff")):
                data = open(cand, "rb").read()
            if data is not None:
                m["datafile_eq_final_tree"] = (data == b)
                m["datafile_sha"] = sha(data)
                if len(data) <= spec.get("keep_data_below", 0):
                    m["datafile_hex"] = data.hex()
    if ff:
        fresh = d1
        feats = set()
        for i in spec.get("feature_modules", []):
            if i in mods1:
                type_features(mods1[i], feats)
        res["features"] = sorted(feats)
    # warm run: every module is loaded from the cache (a new main module imports them all)
    names = [i for i in sorted(mods1)]
    main_src = "".join("import %s\n" % n for n in names if all(p.isidentifier() for p in n.split(".")))
    s2 = sources() + [BuildSource(os.path.join(root, "c11main.py"), "c11main", main_src)]
    t = time.time()
    r2 = build.build(s2, opts(cd, ff), fscache=FileSystemCache())
    res["stats"]["warm_" + fmt] = round(time.time() - t, 1)
    res["stats"]["fresh_trees_" + fmt] = r2.manager.stats.get("fresh_trees", 0)
    mods2 = r2.manager.modules
    for i in sorted(d1):
        m = res["modules"][i]
        if i not in mods2:
            m["reloaded_" + fmt] = "not-loaded"
            continue
        tree = mods2[i]
        m["was_cached_" + fmt] = bool(getattr(tree, "is_cache_skeleton", False))
        try:
            ser2, b2 = dump(tree)
            fl2 = walk_flags(tree)
        except Exception as e:
            res["problems"].append({"kind": "reloaded-tree-dump-raises", "fmt": fmt, "module": i, "exc": repr(e)[:300]})
            continue
        ser1, b1, fl1 = d1[i]
        m["reload_ser_" + fmt] = sha(json.dumps(ser2, sort_keys=True).encode())
        m["reload_bin_" + fmt] = sha(b2)
        if ser1 != ser2:
            out = []
            n1, n2 = norm_td(ser1), norm_td(ser2)
            if n1 == n2:
                diff(ser1, ser2, i, out)
                res["problems"].append({"kind": "typeddict-item-order", "fmt": fmt, "module": i, "diff": out[:2]})
            else:
                diff(n1, n2, i, out)
                res["problems"].append({"kind": "serialize-dump-differs", "fmt": fmt, "module": i, "diff": out})
        if b1 != b2:
            kind = "binary-dump-differs"
            if ser1 == ser2:
                # same content: is it only the order of a str->Type map (ExtraAttrs.attrs)?  re-dump both with sorted maps
                orig = T.write_type_map
                def wtm(data, value, _o=orig):
                    _o(data, {k: value[k] for k in sorted(value)})
                T.write_type_map = wtm
                try:
                    s1, s2 = WriteBuffer(), WriteBuffer()
                    mods1[i].write(s1); tree.write(s2)
                    if s1.getvalue() == s2.getvalue():
                        kind = "type-map-order-differs"
                finally:
                    T.write_type_map = orig
            res["problems"].append({"kind": kind, "fmt": fmt, "module": i, "len": [len(b1), len(b2)]})
        # synthesized methods (NamedTuple.__new__, dataclass __init__, ...) have no CallableType.definition in a fresh tree
        # while fixup always links one: a link the fresh tree does not have is not required of the reloaded tree
        for key_, r1 in fl1.items():
            r2 = fl2.get(key_)
            if not isinstance(r2, dict):
                continue
            if "definition" in r1 and "definition" in r2:
                if r1["definition"] is None:
                    r2["definition"] = None
                elif isinstance(r1["definition"], list) and isinstance(r2["definition"], list) and len(r1["definition"]) == len(r2["definition"]):
                    r2["definition"] = [b if a is not None else None for a, b in zip(r1["definition"], r2["definition"])]
            if "links" in r1 and "links" in r2:
                r2["links"] = [b if a is not None else None for a, b in zip(r1["links"], r2["links"])]
        if fl1 != fl2:
            out = []
            diff(fl1, fl2, i, out)
            res["problems"].append({"kind": "attribute-walk-differs", "fmt": fmt, "module": i, "diff": out})
        m["symbols"] = len(fl1)
json.dump(res, open(sys.argv[2], "w"))
'''


def ints_in(s: str) -> list[int]:
    return [int(x) for x in re.findall(r"-?\d+", s.replace("- ", "-"))]


def coq_z(v: int) -> str:
    return f"({v})"


def coq_bytes(b: bytes) -> str:
    return "[" + "; ".join(str(x) for x in b) + "]"


def coq_float(f: float) -> str:
    import struct
    return "VFloat " + coq_bytes(struct.pack("<d", f))


def coq_json(v: Any) -> str:
    """abstraction of a JSON value into Json.v's value encoding (dict keys in written = sorted order)"""
    if v is None:
        return "VNone"
    if isinstance(v, bool):
        return f"VBool {'true' if v else 'false'}"
    if isinstance(v, int):
        return f"VInt ({v})"
    if isinstance(v, str):
        return f"VStr {coq_bytes(v.encode())}"
    if isinstance(v, float):
        return coq_float(v)
    if isinstance(v, list):
        return "VSome [" + "; ".join(coq_json(x) for x in v) + "]"
    if isinstance(v, tuple):
        return "VElse [" + "; ".join(coq_json(x) for x in v) + "]"
    if isinstance(v, dict):
        return "VRep [" + "; ".join(f"[VStr {coq_bytes(k.encode())}; {coq_json(v[k])}]" for k in sorted(v)) + "]"
    raise ValueError(v)


def coq_literal(v: Any) -> str:
    if v is None or isinstance(v, (bool, int, str, float)):
        return "[" + coq_json(v) + "]"
    if isinstance(v, complex):
        return f"[{coq_float(v.real)}; {coq_float(v.imag)}]"
    return f"[VStr {coq_bytes(v.fullname.encode())}; VStr {coq_bytes(v.name.encode())}]"   # SentinelValue


def parse_opt_bytes(s: str) -> list[int] | None:
    s = s.strip()
    if s.startswith("None"):
        return None
    return ints_in(s)


def boundary_ints(rng: vlib.Rng, extra: int) -> list[int]:
    vals: set[int] = set()
    for b in (-10, 117, -100, 16283, -10000, 536860911, 0, 255, 256, 65535, 65536, 2 ** 24, 2 ** 29, 2 ** 31, 2 ** 32, 2 ** 62, 2 ** 63, 2 ** 64):
        for d in (-2, -1, 0, 1, 2):
            vals.add(b + d)
            vals.add(-b + d)
    for k in (70, 127, 128, 255, 256, 1000, 1024, 4096):
        for d in (-1, 0, 1):
            vals.add(2 ** k + d)
            vals.add(-(2 ** k) + d)
    vals |= {10 ** 400, -(10 ** 400), 256 ** 200, -(256 ** 200) + 1, 256 ** 59 - 1, 256 ** 58}
    for _ in range(extra):
        k = rng.choice([3, 7, 8, 14, 15, 16, 29, 30, 31, 62, 64, 100, 600])
        vals.add(rng.randint(-(2 ** k), 2 ** k))
    return sorted(vals)


def test_strings(rng: vlib.Rng, extra: int) -> list[str]:
    out = ["", "a", "é", "中文", "\U0001F600", "\x00", "a\x00b", "x" * 117, "x" * 118, "é" * 59, "x" * 16283, "y" * 16284,
           "ÿ" * 8142, "mixed é€\U00010348 end", "﻿", "\u0085 "]
    alphabet = "abcXYZ_.09 éß中\U0001F600\x00\x7f"
    for _ in range(extra):
        n = rng.choice([0, 1, 2, 5, 30, 116, 117, 118, 119, 300])
        out.append("".join(rng.choice(alphabet) for _ in range(n)))
    return out


def prim_stage(ctx: vlib.Ctx) -> None:
    """byte-exact tie of Prim.v with the installed librt (the binary mypy runs)"""
    sys.path.insert(0, vlib.REPO)
    from mypy import cache as C
    import struct
    rng = vlib.Rng(ctx.seed, "prim")
    ints = boundary_ints(rng, ctx.n(150, 1500))
    strs = test_strings(rng, ctx.n(20, 200))
    blobs = [b"", b"\x00", b"\xff" * 3, bytes(range(256)), b"z" * 118, b"q" * 16284] + [bytes(rng.randrange(256) for _ in range(rng.choice([1, 7, 117, 118, 200]))) for _ in range(ctx.n(10, 100))]
    floats = [0.0, -0.0, 1.5, float("inf"), float("-inf"), 5e-324, 1.7976931348623157e308, 3.141592653589793]
    exprs: list[str] = []
    expect: list[Any] = []
    kinds: list[str] = []

    def real(fn: Any, v: Any) -> bytes:
        b = C.WriteBuffer()
        fn(b, v)
        return b.getvalue()
    for v in ints:
        rb = real(C.write_int_bare, v)
        if C.read_int_bare(C.ReadBuffer(rb)) != v:
            ctx.violation(f"prim-int:{v}", f"librt read_int(write_int({v})) != {v}", {"kind": "prim_int", "v": str(v)})
        exprs.append(f"write_int {coq_z(v)}")
        expect.append(list(rb))
        kinds.append(f"write_int {str(v)[:30]}")
        exprs.append(f"read_int ({coq_bytes(rb)} ++ [7])")
        expect.append(("val", v))
        kinds.append(f"read_int {str(v)[:30]}")
    for s in strs:
        u = s.encode("utf-8")
        rb = real(C.write_str_bare, s)
        if C.read_str_bare(C.ReadBuffer(rb)) != s:
            ctx.violation(f"prim-str:{s[:20]!r}", "librt read_str(write_str(s)) != s", {"kind": "prim_str", "s": s[:200]})
        exprs.append(f"write_str {coq_bytes(u)}")
        expect.append(list(rb))
        kinds.append(f"write_str len {len(u)}")
        exprs.append(f"match read_str ({coq_bytes(rb)} ++ [7]) with Some (s, r) => Some (s ++ [1000] ++ r) | None => None end")
        expect.append(list(u) + [1000, 7])
        kinds.append(f"read_str len {len(u)}")
    for bl in blobs:
        rb = real(C.write_bytes_bare, bl)
        assert C.read_bytes_bare(C.ReadBuffer(rb)) == bl
        exprs.append(f"write_bytes {coq_bytes(bl)}")
        expect.append(list(rb))
        kinds.append(f"write_bytes len {len(bl)}")
    for bv in (True, False):
        exprs.append(f"write_bool {'true' if bv else 'false'}")
        expect.append(list(real(C.write_bool, bv)))
        kinds.append("write_bool")
    for t in (0, 1, 2, 50, 254, 255):
        exprs.append(f"write_tag {t}")
        expect.append(list(real(C.write_tag, t)))
        kinds.append("write_tag")
    # NOTE: write_tag with a value outside 0..255 is not exercised: the installed librt crashes (SIGSEGV) on it, see notes/C11.md
    for f in floats:
        rb = real(C.write_float_bare, f)
        if list(rb) != list(struct.pack("<d", f)):
            ctx.broke("C", "float layout", f"write_float({f!r}) is not the little-endian IEEE double")
        exprs.append(f"write_float {coq_bytes(rb)}")
        expect.append(list(rb))
        kinds.append("write_float")
    # malformed inputs: model and librt must both reject / agree
    for raw in ([], [15], [15, 15, 0, 0, 0], [1], [3, 0], [15, 28, 5], [15, 20], [15, 24, 1, 0], [2], [255]):
        try:
            v = C.read_int_bare(C.ReadBuffer(bytes(raw)))
            expect.append(("val0", v))
        except Exception:  # noqa
            expect.append("none")
        exprs.append(f"read_int {coq_bytes(bytes(raw))}")
        kinds.append(f"read_int malformed {raw}")
    out = ctx.eval_cases("prim", HEADER, exprs, per_file=250)
    if out is None:
        return
    bad = 0
    for e, x, k, o in zip(exprs, expect, kinds, out):
        if x == "none":
            ok = o.startswith("None")
        elif isinstance(x, tuple) and x[0] == "val":
            nums = ints_in(o)
            ok = o.startswith("Some") and nums == [x[1], 7]
        elif isinstance(x, tuple) and x[0] == "val0":
            nums = ints_in(o)
            ok = o.startswith("Some") and nums[:1] == [x[1]]
        else:
            ok = parse_opt_bytes(o) == x
        if not ok:
            bad += 1
            if bad <= 5:
                ctx.broke("C", "Prim.v vs librt", f"{k}: model {o[:200]} librt {str(x)[:200]}", {"expr": e[:300]})
    ctx.add("evaluations", len(exprs))
    ctx.add("traces_validated_against_impl", len(exprs))
    ctx.cov["prim_cases"] = {"ints": len(ints), "strs": len(strs), "bytes": len(blobs), "floats": len(floats)}
    ctx.cov["prim_int_long_form"] = sum(1 for v in ints if not -10000 <= v <= 536860911)
    ctx.sample({"write_int": str(ints[len(ints) // 2]), "model": out[2 * (len(ints) // 2)][:80]})


# ---------------------------------------------------------------- schema tie (helpers, regular records)

def gen_fields(ops: list[Any], rng: vlib.Rng, depth: int = 0) -> tuple[list[str], list[Any]]:
    """random field values for a Dyn/Ext-free op list: (Coq value terms, Python values)"""
    cq: list[str] = []
    py: list[Any] = []
    for o in ops:
        k = o[0]
        if k in ("Tag", "Inl"):
            continue
        if k == "IntBare":
            v = rng.choice([0, -10, 117, 118, -11, 16283, 16284, -10001, 536860911, 536860912, 2 ** 64, -(2 ** 70), rng.randint(-500, 70000)])
            cq.append(f"VInt ({v})")
            py.append(v)
        elif k == "StrBare":
            s = rng.choice(["", "a", "builtins.int", "é中", "x" * 118, "mod.Class.attr"])
            cq.append(f"VStr {coq_bytes(s.encode())}")
            py.append(s)
        elif k == "BytesBare":
            b = rng.choice([b"", b"\x00\xff", b"h" * 20])
            cq.append(f"VBytes {coq_bytes(b)}")
            py.append(b)
        elif k == "Bool":
            b = rng.random() < 0.5
            cq.append(f"VBool {'true' if b else 'false'}")
            py.append(b)
        elif k == "Flags":
            fl = [rng.random() < 0.5 for _ in range(o[1])]
            cq.append("VFlags [" + "; ".join("true" if x else "false" for x in fl) + "]")
            py.append(fl)
        elif k == "Opt":
            if rng.random() < 0.4:
                cq.append("VNone")
                py.append(None)
            else:
                c2, p2 = gen_fields(o[1], rng, depth + 1)
                cq.append("VSome [" + "; ".join(c2) + "]")
                py.append(p2[0] if len(p2) == 1 else tuple(p2))
        elif k == "Rep":
            n = rng.choice([0, 1, 2, 3]) if depth else rng.choice([0, 1, 2, 5])
            rows_c, rows_p = [], []
            for _ in range(n):
                c2, p2 = gen_fields(o[1], rng, depth + 1)
                rows_c.append("[" + "; ".join(c2) + "]")
                rows_p.append(p2[0] if len(p2) == 1 else tuple(p2))
            cq.append("VRep [" + "; ".join(rows_c) + "]")
            py.append(rows_p)
        else:
            raise ValueError(k)
    return cq, py


def simple(ops: list[Any]) -> bool:
    for o in ops:
        if o[0] in ("Dyn", "Nested", "Ext", "FloatBare", "ObjRead"):
            return False
        if o[0] in ("Opt", "Rep") and not simple(o[1]):
            return False
    return True


def coq_jtext(v: Any) -> str:
    if v is None:
        return "JNull"
    if isinstance(v, bool):
        return f"JBool {'true' if v else 'false'}"
    if isinstance(v, int):
        return f"JInt ({v})"
    if isinstance(v, str):
        return "JStr [" + "; ".join(str(ord(c)) for c in v) + "]"
    if isinstance(v, (list, tuple)):
        return "JArr [" + "; ".join(coq_jtext(x) for x in v) + "]"
    return "JObj [" + "; ".join(f"([{'; '.join(str(ord(c)) for c in k)}], {coq_jtext(v[k])})" for k in sorted(v)) + "]"


def json_text_tie(ctx: vlib.Ctx, exprs: list[str], expect: list[Any], names: list[str]) -> int:
    """JsonText.v vs the encoder/decoder mypy really uses (mypy.util.json_dumps / json_loads): model text = real bytes,
    model parser reads the real bytes back to the same value"""
    from mypy.util import json_dumps, json_loads
    rng = vlib.Rng(ctx.seed, "jsontext")
    alphabet = [chr(c) for c in (97, 90, 48, 32, 34, 92, 47, 10, 9, 13, 8, 12, 0, 31, 127, 128, 233, 255, 0x4e2d, 0x2028, 0xffff, 0x10000, 0x1F600, 0x10FFFF, 123, 125, 91, 44, 58)]

    def gen(d: int) -> Any:
        k = rng.randrange(8 if d > 0 else 5)
        if k == 0:
            return rng.choice([None, True, False])
        if k in (1, 2):
            return rng.choice([0, -1, 7, 10, -10, 99, 100, 2 ** 31, -(2 ** 63), 2 ** 64, 10 ** 40, -(10 ** 25) + 1, rng.randint(-10 ** 6, 10 ** 6)])
        if k in (3, 4):
            return "".join(rng.choice(alphabet) for _ in range(rng.choice([0, 1, 2, 5, 12])))
        if k == 5:
            return [gen(d - 1) for _ in range(rng.choice([0, 1, 2, 4]))]
        return {"".join(rng.choice(alphabet) for _ in range(rng.choice([0, 1, 3]))): gen(d - 1) for _ in range(rng.choice([0, 1, 2, 4]))}
    vals = [None, True, False, 0, 10 ** 30, "", chr(34), chr(92), "".join(alphabet), [], {}, [[], {}], {"": [None], "a": {"b": [1, "x"]}}] + [gen(3) for _ in range(ctx.n(60, 400))]
    n = 0
    for v in vals:
        real = json_dumps(v)
        if json_loads(real) != v:
            ctx.violation(f"json-text-roundtrip:{real[:40]!r}", "json_loads(json_dumps(v)) != v", {"kind": "json_text", "text": real.decode()[:500]})
        exprs.append(f"Some (json_dumps ({coq_jtext(v)}))")
        expect.append(list(real))
        names.append(f"json_dumps {real[:40]!r}")
        exprs.append(f"match json_loads {coq_bytes(real)} with Some v => Some (json_dumps v) | None => None end")
        expect.append(list(real))
        names.append(f"json_loads {real[:40]!r}")
        n += 2
    ctx.cov["json_text_cases"] = n
    return n


def lookup_tie(ctx: vlib.Ctx) -> None:
    """Fixup.lookup_fq vs the real mypy.lookup.lookup_fully_qualified on generated module sets with nested classes,
    symbols shadowing sub-module names, missing names and names that run through non-class symbols"""
    from mypy import nodes as N
    from mypy.lookup import lookup_fully_qualified
    rng = vlib.Rng(ctx.seed, "lookup")
    comps = ["a", "b", "c", "d"]
    exprs, real = [], []
    idmap: dict[int, int] = {}
    keep: list[Any] = []
    for _ in range(ctx.n(12, 60)):
        ids = [0]

        def table(depth: int) -> tuple[Any, str, list[list[str]]]:
            st = N.SymbolTable()
            items = []
            paths: list[list[str]] = []
            for nm in rng.sample(comps, rng.choice([0, 1, 2, 3])):
                ids[0] += 1
                me = ids[0]
                if depth > 0 and rng.random() < 0.5:
                    sub, subc, subp = table(depth - 1)
                    paths += [[nm] + q for q in subp]
                    ti = N.TypeInfo(sub, N.ClassDef(nm, N.Block([])), "m")
                    node: Any = ti
                    items.append(f'("{nm}"%string, Cls {me} {subc})')
                else:
                    node = N.Var(nm)
                    items.append(f'("{nm}"%string, Sym {me})')
                sn = N.SymbolTableNode(N.GDEF, node)
                paths.append([nm])
                idmap[id(sn)] = me
                keep.append(sn)
                st[nm] = sn
            return st, "[" + "; ".join(items) + "]", paths
        known: list[list[str]] = []
        mods: dict[str, Any] = {}
        mcoq = []
        for mname in rng.sample(["a", "b", "a.b", "a.b.c", "c.d", "d"], rng.choice([1, 2, 3, 4])):
            f = N.MypyFile([], [])
            f._fullname = mname
            f.names, tc, ps = table(2)
            known += [mname.split(".") + q for q in ps]
            mods[mname] = f
            mcoq.append("([" + "; ".join(f'"{p}"%string' for p in mname.split(".")) + f"], {tc})")
        for _ in range(25):
            if known and rng.random() < 0.6:
                path = list(rng.choice(known))
                if rng.random() < 0.25:
                    path = path + [rng.choice(comps)]       # one component too many (through a symbol / missing member)
            else:
                path = [rng.choice(comps) for _ in range(rng.choice([1, 2, 3, 4, 5]))]
            r = lookup_fully_qualified(".".join(path), mods)
            real.append(None if r is None else idmap[id(r)])
            exprs.append("match lookup_fq [" + "; ".join(mcoq) + "] [" + "; ".join(f'"{p}"%string' for p in path) + "] with Some e => Some (entry_id e) | None => None end")
    out = ctx.eval_cases("lookup", HEADER.replace("Open Scope Z_scope.", "Open Scope Z_scope.\nFrom Coq Require Import String."), exprs, per_file=200)
    if out is None:
        return
    bad = 0
    for e, r, o in zip(exprs, real, out):
        m = None if o.startswith("None") else int(re.findall(r"\d+", o)[0])
        if m != r:
            bad += 1
            if bad <= 3:
                ctx.broke("C", "Fixup.lookup_fq vs lookup_fully_qualified", f"model {o} real {r}: {e[:300]}")
    ctx.add("evaluations", len(exprs))
    ctx.add("traces_validated_against_impl", len(exprs))
    ctx.cov["lookup_cases"] = {"n": len(exprs), "found": sum(1 for r in real if r is not None)}


def instance_tie(ctx: vlib.Ctx, exprs: list[str], expect: list[Any], names: list[str]) -> int:
    """Types.v Instance model vs the real Instance.write / Instance.read on constructed instances: every fast-path
    name and two ordinary names x {plain, extra_attrs (full / empty), last_known_value, args, everything}.
    The model value is built from the OBJECT (abstraction function below), so a writer that takes a fast path
    it must not take produces bytes that differ from the model's."""
    from mypy import cache as C, nodes as N, types as T

    def info(fullname: str) -> Any:
        mod, _, name = fullname.rpartition(".")
        ti = N.TypeInfo(N.SymbolTable(), N.ClassDef(name, N.Block([])), mod)
        ti._fullname = fullname
        return ti

    def ab(t: Any) -> str:
        if isinstance(t, T.NoneType):
            return "VObj NONE_TYPE []"
        if isinstance(t, T.LiteralType):
            return f"VObj LITERAL_TYPE [{ab(t.fallback)}; VExt 3 {coq_literal(t.value)}]"
        if isinstance(t, T.ExtraAttrs):
            attrs = "; ".join(f"[VStr {coq_bytes(k.encode())}; {ab(t.attrs[k])}]" for k in sorted(t.attrs))   # ExtraAttrs.write writes its attrs sorted (0ca182a)
            imm = "; ".join(f"[VStr {coq_bytes(k.encode())}]" for k in sorted(t.immutable))
            mod = "VNone" if t.mod_name is None else f"VSome [VStr {coq_bytes(t.mod_name.encode())}]"
            return f"VObj EXTRA_ATTRS [VRep [{attrs}]; VRep [{imm}]; {mod}]"
        assert isinstance(t, T.Instance)
        args = "; ".join(f"[{ab(a)}]" for a in t.args)
        lkv = "VNone" if t.last_known_value is None else f"VSome [{ab(t.last_known_value)}]"
        ex = "VNone" if t.extra_attrs is None else f"VSome [{ab(t.extra_attrs)}]"
        return f"VObj INSTANCE [VStr {coq_bytes(t.type.fullname.encode())}; VRep [{args}]; {lkv}; {ex}]"
    infos = {n: info(n) for n in ["builtins.str", "builtins.function", "builtins.int", "builtins.bool", "builtins.object",
                                  "types.ModuleType", "pkg.mod.Cls"]}
    i_int, i_str = T.Instance(infos["builtins.int"], []), T.Instance(infos["builtins.str"], [])
    n = 0
    for name, ti in infos.items():
        full = T.ExtraAttrs({"x": i_int, "f": T.Instance(infos["pkg.mod.Cls"], [i_str])}, {"x"}, "pkg.b")
        empty = T.ExtraAttrs({}, None, None)
        lit = T.LiteralType(1, i_int)
        variants = {
            "plain": T.Instance(ti, []),
            "extra": T.Instance(ti, [], extra_attrs=full),
            "extra-empty": T.Instance(ti, [], extra_attrs=empty),
            "lkv": T.Instance(ti, [], last_known_value=lit),
            "args": T.Instance(ti, [i_int, T.NoneType()]),
            "all": T.Instance(ti, [i_str], last_known_value=T.LiteralType("é", i_str), extra_attrs=full),
        }
        for vn, inst in variants.items():
            buf = C.WriteBuffer()
            inst.write(buf)
            real = buf.getvalue()
            back = T.read_type(C.ReadBuffer(real))
            ok = isinstance(back, T.Instance) and back.type_ref == name and len(back.args) == len(inst.args) \
                and (back.extra_attrs is None) == (inst.extra_attrs is None) \
                and (back.last_known_value is None) == (inst.last_known_value is None) \
                and (inst.extra_attrs is None or (sorted(back.extra_attrs.attrs) == sorted(inst.extra_attrs.attrs)
                                                  and back.extra_attrs.immutable == inst.extra_attrs.immutable
                                                  and back.extra_attrs.mod_name == inst.extra_attrs.mod_name)) \
                and (inst.last_known_value is None or back.last_known_value.value == inst.last_known_value.value)
            if not ok:
                ctx.violation(f"instance-roundtrip:{name}:{vn}", f"read_type(Instance.write(i)) loses data for a {name} instance ({vn}: "
                              f"args={len(inst.args)}, last_known_value={inst.last_known_value}, extra_attrs={inst.extra_attrs!r})",
                              {"kind": "instance", "type": name, "variant": vn, "bytes": real.hex()})
            exprs.append(f"write_type json_write 8 ({ab(inst)})")
            expect.append(list(real))
            names.append(f"Instance {name} {vn}")
            n += 1
            if vn in ("plain", "args"):
                # JsonObj.v: the model decodes the REAL Instance.serialize() JSON text to the same abstract value
                # (checked by re-encoding it with the binary model against the real binary bytes)
                from mypy.util import json_dumps as _jd
                jt = _jd(inst.serialize())
                exprs.append(f"match json_loads {coq_bytes(jt)} with Some j => match jo_dec 8 j with Some v => write_type json_write 8 v | None => None end | None => None end")
                expect.append(list(real))
                names.append(f"Instance JSON {name} {vn}")
                n += 1
    ctx.cov["instance_tie_cases"] = n
    return n


def schema_stage(ctx: vlib.Ctx, res: dict[str, Any]) -> None:
    """extracted helper / record schemas executed by the model vs the real write_X / read_X"""
    sys.path.insert(0, vlib.REPO)
    from mypy import cache as C, nodes as N
    rng = vlib.Rng(ctx.seed, "schema")
    exprs: list[str] = []
    expect: list[list[int]] = []
    names: list[str] = []
    reps = ctx.n(12, 60)

    def add(name: str, coq_schema: str, cq: list[str], real_bytes: bytes) -> None:
        vals = "[" + "; ".join(cq) + "]"
        exprs.append(f"match write_op no_obj_w no_ext_w {coq_schema} {vals} with Some (b, []) => Some b | _ => None end")
        expect.append(list(real_bytes))
        names.append(name + " write")
        exprs.append(f"match read_op no_obj_r no_ext_r {coq_schema.replace('w_', 'r_', 1)} ({coq_bytes(real_bytes)} ++ [7]) with "
                     f"Some (vs, r) => match write_op no_obj_w no_ext_w {coq_schema} vs with Some (b, []) => Some (b ++ [1000] ++ r) | _ => None end | None => None end")
        expect.append(list(real_bytes) + [1000, 7])
        names.append(name + " read+rewrite")

    for name, (w, r) in sorted(res["schemas"].items()):
        if not (simple(w) and simple(r)):
            continue
        for _ in range(reps):
            cq, py = gen_fields(w, rng)
            buf = C.WriteBuffer()
            try:
                if name.startswith("helper_"):
                    arg = py[0] if len(py) == 1 else tuple(py)
                    if name == "helper_parse_error":
                        arg = {"line": py[0], "column": py[1], "message": py[2]}
                        if py[3] is not None:
                            arg["blocker"] = py[3]
                        if py[4] is not None:
                            arg["code"] = py[4]
                        N.write_parse_error(buf, arg)
                        back = N.read_parse_error(C.ReadBuffer(buf.getvalue()))
                    else:
                        getattr(C, "write_" + name[7:])(buf, arg)
                        back = getattr(C, "read_" + name[7:])(C.ReadBuffer(buf.getvalue()))
                        if isinstance(arg, list) and arg and isinstance(arg[0], tuple):
                            back = [tuple(x) for x in back]
                    if back != arg:
                        ctx.violation(f"helper-roundtrip:{name}", f"read_{name[7:]}(write_{name[7:]}(v)) != v", {"kind": "helper", "name": name, "value": repr(arg)[:500], "back": repr(back)[:500]})
                elif name == "CacheMetaEx":
                    obj = C.CacheMetaEx(*py)
                    obj.write(buf)
                    b2 = C.CacheMetaEx.read(C.ReadBuffer(buf.getvalue()))
                    if b2 is None or b2.serialize() != obj.serialize():
                        ctx.violation("record-roundtrip:CacheMetaEx", "CacheMetaEx.read(write(v)) != v", {"kind": "record", "value": repr(py)[:500]})
                    j = C.CacheMetaEx.deserialize(json.loads(json.dumps(obj.serialize())))
                    if j is None or j.serialize() != obj.serialize():
                        ctx.violation("record-json-roundtrip:CacheMetaEx", "CacheMetaEx JSON round trip differs", {"kind": "record", "value": repr(py)[:500]})
                elif name == "DataclassTransformSpec":
                    obj = N.DataclassTransformSpec(eq_default=py[0], order_default=py[1], kw_only_default=py[2], frozen_default=py[3], field_specifiers=tuple(py[4]))
                    obj.write(buf)
                    assert C.read_tag(C.ReadBuffer(buf.getvalue())) == C.DT_SPEC
                    rb = C.ReadBuffer(buf.getvalue())
                    C.read_tag(rb)
                    if N.DataclassTransformSpec.read(rb).serialize() != obj.serialize():
                        ctx.violation("record-roundtrip:DataclassTransformSpec", "DataclassTransformSpec.read(write(v)) != v", {"kind": "record", "value": repr(py)[:500]})
                else:
                    continue
            except Exception as e:  # noqa
                ctx.broke("C", f"schema tie {name}", f"real writer/reader raised {e!r} on {py!r}"[:600])
                continue
            add(name, f"w_{name}", cq, buf.getvalue())
    # write_flags / read_flags against the Flags op
    for n in (0, 1, 4, 14, 20, 26):
        for _ in range(3):
            fl = [rng.random() < 0.5 for _ in range(n)]
            buf = C.WriteBuffer()
            C.write_flags(buf, fl)
            if C.read_flags(C.ReadBuffer(buf.getvalue()), n) != fl:
                ctx.violation(f"flags-roundtrip:{n}", "read_flags(write_flags(l)) != l", {"kind": "flags", "flags": fl})
            cq = "VFlags [" + "; ".join("true" if x else "false" for x in fl) + "]"
            exprs.append(f"match write_op no_obj_w no_ext_w (Flags {n}%nat) [{cq}] with Some (b, []) => Some b | _ => None end")
            expect.append(list(buf.getvalue()))
            names.append(f"Flags {n}")
    # external codecs (contracts of the schema theorem): JSON values and literal values through the real functions
    n_ext = 0
    jvals: list[Any] = [None, True, False, 0, -1, 2 ** 80, "s", "é", 1.5, [], [1, [2, "x"]], (1, "a"), {"b": 1, "a": [None, {"z": ()}]}, {"": {}}]
    for jv in jvals:
        buf = C.WriteBuffer()
        C.write_json_value(buf, jv)
        back = C.read_json_value(C.ReadBuffer(buf.getvalue()))
        if back != jv or type(back) is not type(jv):
            ctx.violation(f"json-value-roundtrip:{jv!r}"[:80], "read_json_value(write_json_value(v)) != v", {"kind": "json_value", "value": repr(jv)})
        n_ext += 1
        # Json.v: model encodes = real bytes; model decodes real bytes and re-encodes them identically
        exprs.append(f"json_write 2 [{coq_json(jv)}]")
        expect.append(list(buf.getvalue()))
        names.append(f"json_write {jv!r}"[:60])
        exprs.append(f"match json_read 2 ({coq_bytes(buf.getvalue())} ++ [7]) with Some (p, r) => match json_write 2 p with Some b => Some (b ++ [1000] ++ r) | None => None end | None => None end")
        expect.append(list(buf.getvalue()) + [1000, 7])
        names.append(f"json_read {jv!r}"[:60])
        if isinstance(jv, dict):
            b1 = C.WriteBuffer()
            C.write_json(b1, jv)
            assert C.read_json(C.ReadBuffer(b1.getvalue())) == jv
            exprs.append(f"json_write 1 [{coq_json(jv)}]")
            expect.append(list(b1.getvalue()))
            names.append(f"write_json {jv!r}"[:60])
    from mypy.types import SentinelValue
    for lv in [None, 1.5 - 2j]:
        buf = C.WriteBuffer()
        C.write_literal(buf, lv)
        exprs.append(f"lit_write {coq_literal(lv)}")
        expect.append(list(buf.getvalue()))
        names.append(f"lit_write {lv!r}")
    for lv in [0, -5, 2 ** 70, "", "é", True, False, 1.5, -0.0, SentinelValue("m.S", "S")]:
        buf = C.WriteBuffer()
        C.write_literal(buf, lv)
        exprs.append(f"lit_write {coq_literal(lv)}")
        expect.append(list(buf.getvalue()))
        names.append(f"lit_write {lv!r}"[:60])
        exprs.append(f"match lit_read ({coq_bytes(buf.getvalue())} ++ [7]) with Some (p, r) => match lit_write p with Some b => Some (b ++ [1000] ++ r) | None => None end | None => None end")
        expect.append(list(buf.getvalue()) + [1000, 7])
        names.append(f"lit_read {lv!r}"[:60])
        rb = C.ReadBuffer(buf.getvalue())
        back = C.read_literal(rb, C.read_tag(rb))
        if repr(back) != repr(lv) and not (isinstance(lv, SentinelValue) and back.fullname == lv.fullname and back.name == lv.name):
            ctx.violation(f"literal-roundtrip:{lv!r}"[:80], "read_literal(write_literal(v)) != v", {"kind": "literal", "value": repr(lv)})
        n_ext += 1
    n_ext += instance_tie(ctx, exprs, expect, names)
    n_ext += json_text_tie(ctx, exprs, expect, names)
    lookup_tie(ctx)
    out = ctx.eval_cases("schema", HEADER, exprs, per_file=150)
    if out is None:
        return
    bad = 0
    for nm, x, o in zip(names, expect, out):
        if parse_opt_bytes(o) != x:
            bad += 1
            if bad <= 5:
                ctx.broke("C", "extracted schema vs real writer", f"{nm}: model {o[:300]} real {x[:80]}")
    ctx.add("evaluations", len(exprs) + n_ext)
    ctx.add("traces_validated_against_impl", len(exprs))
    ctx.cov["schema_tie_cases"] = len(exprs)


# ---------------------------------------------------------------- S: structural round trip

def stdlib_modules() -> list[str]:
    """all bundled-typeshed stdlib modules available on Python 3.12 (from stdlib/VERSIONS)"""
    base = os.path.join(vlib.REPO, "mypy", "typeshed", "stdlib")
    out = []
    for line in open(os.path.join(base, "VERSIONS")):
        line = line.split("#")[0].strip()
        if not line:
            continue
        mod, rng = [x.strip() for x in line.split(":")]
        lo, _, hi = rng.partition("-")
        lo_t = tuple(int(x) for x in lo.split("."))
        hi_t = tuple(int(x) for x in hi.split(".")) if hi else (9, 99)
        if lo_t <= (3, 12) <= hi_t:
            out.append(mod)
    mods = set()
    for dirpath, _, files in os.walk(base):
        for f in files:
            if not f.endswith(".pyi"):
                continue
            rel = os.path.relpath(os.path.join(dirpath, f), base)[:-4].replace(os.sep, ".")
            if rel.endswith(".__init__"):
                rel = rel[:-9]
            top_ok = any(rel == m or rel.startswith(m + ".") for m in out)
            # the longest matching VERSIONS entry decides
            best = max((m for m in out if rel == m or rel.startswith(m + ".")), key=len, default=None)
            if top_ok and best is not None and all(p.isidentifier() for p in rel.split(".")):
                mods.add(rel)
    # sub-entries of VERSIONS that are excluded for 3.12
    excluded = []
    for line in open(os.path.join(base, "VERSIONS")):
        line = line.split("#")[0].strip()
        if not line:
            continue
        mod, rng = [x.strip() for x in line.split(":")]
        if mod not in out:
            excluded.append(mod)
    mods = {m for m in mods if not any(m == e or m.startswith(e + ".") for e in excluded)}
    return sorted(mods)


def run_child(spec: dict[str, Any], seed: str, workdir: str) -> dict[str, Any] | str:
    os.makedirs(spec["root"], exist_ok=True)
    sp = os.path.join(workdir, f"spec_{os.path.basename(spec['root'])}.json")
    op = sp + ".out"
    json.dump(spec, open(sp, "w"))
    script = os.path.join(workdir, "c11_child.py")
    env = vlib.py_env({"PYTHONHASHSEED": seed})
    env.pop("MYPY_CACHE_DIR", None)
    p = subprocess.run([vlib.PY, script, sp, op], env=env, cwd=spec["root"], capture_output=True, text=True, timeout=1700)
    if p.returncode != 0 or not os.path.exists(op):
        return (p.stderr or p.stdout)[-3000:]
    return json.load(open(op))


def roundtrip_stage(ctx: vlib.Ctx) -> None:
    work = tempfile.mkdtemp(prefix="c11-")
    try:
        with open(os.path.join(work, "c11_child.py"), "w") as f:
            f.write(CHILD)
        jobs: list[tuple[str, dict[str, Any], str]] = []
        if ctx.quick:
            groups = [QUICK_MODULES]
        else:
            allm = [m for m in stdlib_modules() if m not in ("__main__",)]
            ctx.cov["stdlib_modules_listed"] = len(allm)
            size = 60
            groups = [allm[i:i + size] for i in range(0, len(allm), size)]
        for gi, g in enumerate(groups):
            jobs.append((f"stdlib{gi}", {"root": os.path.join(work, f"s{gi}"), "modules": g, "keep_data_below": 9000}, "0"))
        # determinism under a different hash seed: the first stdlib group and the programs again
        seed_group = ["collections", "dataclasses", "enum", "ssl", "ast", "json", "typing_extensions", "functools"]
        jobs.insert(1, ("seedgrp", {"root": os.path.join(work, "sa"), "modules": seed_group}, "0"))
        jobs.append(("seedgrp@seed", {"root": os.path.join(work, "sb"), "modules": seed_group}, "12345"))
        for pn, files in PROGRAMS.items():
            for tag, seed in ((("", "0"), ("@seed", "4711")) if pn == "kinds" else (("", "0"),)):
                root = os.path.join(work, f"p_{pn}{'b' if tag else ''}")
                src = os.path.join(root, "src")
                fm = {}
                for rel, text in files.items():
                    path = os.path.join(src, rel)
                    os.makedirs(os.path.dirname(path), exist_ok=True)
                    with open(path, "w") as f:
                        f.write(text)
                    mod = rel[:-3].replace("/", ".")
                    if mod.endswith(".__init__"):
                        mod = mod[:-9]
                    fm[mod] = os.path.join("src", rel)   # relative to the child's cwd: MypyFile.path is part of the serialized interface
                jobs.append((f"prog:{pn}{tag}", {"root": root, "modules": [], "files": fm, "mypy_path": ["src"], "allow_errors": True,
                                                 "keep_data_below": 0 if tag else 70000,
                                                 "feature_modules": sorted(fm) + ["builtins"]}, seed))
        with ThreadPoolExecutor(max_workers=min(vlib.NPROC, 8)) as ex:
            results = list(ex.map(lambda j: run_child(j[1], j[2], work), jobs))
        by_name: dict[str, dict[str, Any]] = {}
        n_mod = n_sym = 0
        seen_mods: set[str] = set()
        for (name, spec, seed), r in zip(jobs, results):
            if isinstance(r, str):
                if not ctx.quick and name.startswith("stdlib") and "CompileError" in r:
                    # a listed typeshed module that mypy cannot build stand-alone: input trouble, not a cache defect
                    ctx.cov.setdefault("groups_not_built", []).append({"job": name, "error": r[-400:]})
                    ctx.log(f"S {name}: group could not be built: {r[-200:]}")
                else:
                    ctx.broke("S", f"round-trip child {name}", r)
                continue
            by_name[name] = r
            ctx.log(f"S {name}: {len(r['modules'])} modules, stats {r['stats']}, problems {len(r['problems'])}")
            for pb in r["problems"]:
                kind = pb["kind"]
                if kind == "typeddict-item-order":
                    ctx.violation("typeddict-item-order-lost-in-binary-cache",
                                  f"module {pb['module']}: TypedDict item order of the {pb['fmt']}-reloaded tree differs from the freshly analysed one "
                                  f"(write_type_map sorts keys; JSON keeps declaration order): {pb['diff'][:1]}",
                                  {"kind": kind, "job": name, **pb, "repro": TD_REPRO})
                elif kind == "type-map-order-differs":
                    ctx.violation("extra-attrs-order-differs-between-formats",
                                  f"module {pb['module']}: the {pb['fmt']}-reloaded tree has the entries of a str->Type map (ExtraAttrs.attrs of a module "
                                  f"object) in a different order than the fresh tree: ExtraAttrs.serialize emits a JSON object (keys sorted by json_dumps), "
                                  f"write_type_map keeps insertion order since b2ad2be",
                                  {"kind": kind, "job": name, **pb, "fix": "notes/C11-fix-2.diff"})
                elif kind == "build-errors":
                    ctx.broke("S", f"{name}: build reported errors", str(pb["errors"])[:500])
                else:
                    ctx.violation(f"{kind}:{pb.get('fmt')}:{pb.get('module')}:{(pb.get('diff') or [['']])[0][0]}",
                                  f"{kind} ({pb.get('fmt')} format) in module {pb.get('module')}: {str(pb.get('diff') or pb.get('exc') or pb.get('len'))[:400]}",
                                  {"job": name, "spec": {k: v for k, v in spec.items() if k != 'root'}, **pb})
            # a module whose only difference is the order of a str->Type map is reported once, under that key
            order_only = {(name, pb["module"]) for pb in r["problems"] if pb["kind"] == "type-map-order-differs"}
            for mod, m in r["modules"].items():
                if "@seed" in name:
                    continue
                if mod not in seen_mods:
                    seen_mods.add(mod)
                    n_mod += 1
                    n_sym += m.get("symbols", 0)
                # cross-format agreement of the freshly analysed trees and of the reloaded ones
                for a, b, what in (("fresh_ser_bin", "fresh_ser_json", "fresh trees of the two cold runs"),
                                   ("reload_bin_bin", "reload_bin_json", "binary dumps of binary-reloaded and JSON-reloaded trees"),
                                   ("fresh_bin_bin", "reload_bin_json", "binary dump of fresh tree vs JSON-reloaded tree")):
                    if a in m and b in m and m[a] != m[b] and (name, mod) not in order_only:
                        ctx.violation(f"cross-format:{what}:{mod}", f"module {mod}: {what} differ", {"job": name, "module": mod, "a": a, "b": b})
                for fmt in ("bin", "json"):
                    if m.get("reloaded_" + fmt) == "not-loaded" and mod not in ("xml.parsers",) and not mod.endswith("c11main"):
                        ctx.cov.setdefault("not_reloaded", []).append(f"{name}:{mod}:{fmt}")
                    elif m.get("was_cached_" + fmt) is False:
                        ctx.cov.setdefault("not_from_cache", []).append(f"{name}:{mod}:{fmt}")
                if m.get("datafile_eq_final_tree") is False:
                    ctx.violation(f"datafile-vs-final-tree:{mod}", f"module {mod}: bytes written to the cache during the build differ from the serialisation of the final tree",
                                  {"job": name, "module": mod})
        feats: set[str] = set()
        for job, r in by_name.items():
            if job.startswith("prog:") and "@seed" not in job:
                feats |= set(r.get("features", []))
        missing = [f for f in REQUIRED_FEATURES if not any(x in feats for x in f.split("|"))]
        ctx.cov["corpus_features"] = sorted(feats)
        if missing and any(j.startswith("prog:") for j in by_name):
            ctx.broke("S", "corpus coverage", f"optional fields no longer NON-default anywhere in the fresh trees of the program corpus: {missing}")
        model_file_stage(ctx, by_name)
        # determinism across hash seeds
        n_det = 0
        for name in list(by_name):
            base = name[:-5]
            if name.endswith("@seed") and base in by_name:
                a, b = by_name[base]["modules"], by_name[name]["modules"]
                for mod in a:
                    if mod not in b:
                        continue
                    for k in ("fresh_bin_bin", "fresh_ser_bin", "datafile_sha", "ihash_bin", "ihash_json"):
                        if k in a[mod] and k in b[mod]:
                            n_det += 1
                            if a[mod][k] != b[mod][k] and not (k.startswith("ihash") and False):
                                ctx.violation(f"hashseed:{k}:{mod}", f"module {mod}: {k} depends on PYTHONHASHSEED", {"job": name, "module": mod, "key": k})
        # independence of irrelevant context: the same module built together with a different set of root modules
        # (same sources, same dependencies, same hash seed) must serialize to the same bytes / interface hash
        if "seedgrp" in by_name:
            differing = []
            for mod, a in sorted(by_name["seedgrp"]["modules"].items()):
                for job, r in by_name.items():
                    if job.startswith("stdlib") and mod in r["modules"]:
                        n_det += 1
                        b = r["modules"][mod]
                        if any(a.get(k) != b.get(k) for k in ("fresh_bin_bin", "ihash_bin", "ihash_json") if k in a and k in b):
                            differing.append(mod)
                        break
            ctx.cov["root_set_comparisons"] = len(by_name["seedgrp"]["modules"])
            if differing:
                ctx.violation("interface-bytes-depend-on-build-roots",
                              f"modules {differing[:6]}: serialized interface and interface hash differ between a build with 8 root modules and a "
                              f"build with {len(QUICK_MODULES) if ctx.quick else 60} root modules (same sources, same PYTHONHASHSEED): a TypeVarId.raw_id "
                              f"allocated from the process-global counter TypeVarId.next_raw_id is serialized",
                              {"kind": "root-set-dependence", "modules": differing, "repro": ROOTS_REPRO})
        ctx.add("evaluations", n_mod * 4 + n_det)
        ctx.cov["modules_round_tripped"] = n_mod
        ctx.cov["symbols_walked"] = n_sym
        ctx.cov["hashseed_comparisons"] = n_det
        ctx.cov["distinct_nontrivial"] = ctx.cov.get("distinct_nontrivial", 0) + n_mod
        if "stdlib0" in by_name:
            ms = by_name["stdlib0"]["modules"]
            k = sorted(ms)[len(ms) // 2]
            ctx.sample({"module": k, **{a: b for a, b in ms[k].items() if a in ("fresh_bin_bin", "reload_bin_bin", "reload_bin_json", "symbols", "ihash_bin")}})
    finally:
        shutil.rmtree(work, ignore_errors=True)


def chunked(b: bytes, n: int = 400) -> str:
    return "(" + " ++ ".join(coq_bytes(b[i:i + n]) for i in range(0, max(len(b), 1), n)) + ")"


def model_file_stage(ctx: vlib.Ctx, by_name: dict[str, dict[str, Any]]) -> None:
    """L2 tie on whole cache data files written by the real mypy: the Coq model (Types.read_file: MypyFile, SymbolTable,
    SymbolTableNode, every node/type class, Instance fast paths, literal and JSON codecs) decodes the real bytes, the
    decoded tree is well-formed, and the model encoder reproduces the bytes exactly (so by data_file_roundtrip the
    model and the real writer agree on that tree, and the real reader has read exactly these bytes in stage S)."""
    if not ctx.cov.get("discharged"):
        return
    files: list[tuple[str, bytes]] = []
    for job, r in by_name.items():
        if "@seed" in job:
            continue
        cand = sorted(((m, bytes.fromhex(d["datafile_hex"])) for m, d in r["modules"].items() if "datafile_hex" in d), key=lambda x: len(x[1]))
        if job.startswith("prog:"):
            own = {rel[:-3].replace("/", ".").removesuffix(".__init__").split(".")[0] for rel in PROGRAMS[job[5:]]}
            files += [c for c in cand if c[0].split(".")[0] in own and not any(c[0] == f[0] for f in files)]
        else:
            files += [c for c in cand if not any(c[0] == f[0] for f in files)][:ctx.n(8, 25)]
    exprs = [f"let data := {chunked(b)} in match read_file json_read 200 data with Some (fs, []) => match write_file json_write 200 fs with "
             f"Some b => Some (zlist_eqb b data, obj_wf 200 MYPY_FILE fs) | None => None end | _ => None end" for _, b in files]
    out = ctx.eval_cases("files", HEADER, exprs, per_file=2, timeout=900)
    if out is None:
        return
    for (m, b), o in zip(files, out):
        if o.replace(" ", "") != "Some(true,true)":
            ctx.broke("C", "Types.v vs real data file", f"module {m} ({len(b)} bytes): model decode/re-encode gives {o[:100]}", {"module": m, "hex": b.hex()[:4000]})
    ctx.add("evaluations", len(files))
    ctx.add("traces_validated_against_impl", len(files))
    ctx.cov["data_files_decoded_by_model"] = {"files": len(files), "bytes": sum(len(b) for _, b in files), "largest": max((len(b) for _, b in files), default=0)}
    ctx.sample({"data_file": files[0][0] if files else None, "bytes": len(files[0][1]) if files else 0, "model": out[0] if out else None})


ROOTS_REPRO = """cd $(mktemp -d); export PYTHONPATH=/repo PYTHONHASHSEED=0
python -m mypy --no-sqlite-cache --cache-dir=c1 -m collections
python -m mypy --no-sqlite-cache --cache-dir=c2 -m collections -m dataclasses -m enum -m ssl -m ast -m json -m typing_extensions -m functools
cmp c1/3.12/collections/__init__.data.ff c2/3.12/collections/__init__.data.ff     # differ
# the only difference: collections.UserString.maketrans has TypeVarType id 265 in c1 and 307 in c2 (TypeVarId.new())"""


TD_REPRO = """mkdir t && cd t && printf 'from typing import TypedDict\\nclass TD(TypedDict):\\n    b: int\\n    a: str\\n' > m.py
printf 'from m import TD\\nx: TD\\nreveal_type(x)\\n' > main.py
python -m mypy --cache-dir=c main.py        # cold:  TypedDict('m.TD', {'b': builtins.int, 'a': builtins.str})
echo '# touch' >> main.py; python -m mypy --cache-dir=c main.py   # warm (m loaded from the binary cache): {'a': ..., 'b': ...}
(with --no-fixed-format-cache both runs print declaration order)"""


def run(ctx: vlib.Ctx) -> None:
    ctx.cov["rule"] = ("L0: every encoding-class boundary of write_int +-2, powers of two up to 2^4096, random ints, empty/non-ASCII/boundary-length strings "
                       "(non-trivial = long-int trailer form or multi-byte length prefix); L1: random values for every Dyn-free extracted schema; "
                       "S: every module of the build closure of the listed stdlib modules and of the multi-module programs "
                       "(non-trivial = module reloaded from the cache in both formats and dumped)")
    ctx.assumptions += [
        "a Python str is modelled by its UTF-8 byte string: CPython's UTF-8 codec (PyUnicode_AsUTF8AndSize / PyUnicode_FromStringAndSize) is trusted; lone surrogates are rejected by the writer",
        "floats are the 8 bytes of PyFloat_Pack8(le): IEEE packing trusted (checked against struct.pack('<d') on samples)",
        "the installed librt binary (/venv) is what runs; it is compared byte-for-byte with the model, the C source in /repo is only read",
        "nested irregular classes (Instance fast paths, SymbolTable, SymbolTableNode) and external codecs (write_json_value, write_literal) are contracts of the schema theorem: searched by the structural round trip, not proved",
        "field-name correspondence (which attribute a reader stores a value into) is not extracted: covered by the structural round trip only",
        "translator tools/extractors/t11.py (checked by executing extracted helper schemas against the real functions)",
        "the structural dump uses mypy's own serialize()/write() of the reloaded tree plus an independent attribute walk of bool/int/str node attributes",
    ]
    # T
    res: dict[str, Any] | None = None
    try:
        res = t11.extract()
        vlib.write_if_changed(os.path.join(vlib.GEN, "Schemas.v"), t11.render(res))
        for c in res["checks"]:
            ctx.broke("T", "t11 consistency", c)
        ctx.cov["schemas_extracted"] = sorted(res["schemas"])
        ctx.cov["searched_only"] = res["searched_only"]
        ctx.cov["json_key_mismatches"] = {c: k for c, k in res["json_keys"].items()
                                          if (k["written_not_read"] or k["read_not_written"]) and c != "SymbolNode"}
        for c, k in ctx.cov["json_key_mismatches"].items():
            ctx.broke("T", f"JSON keys of {c}", f"serialize writes {k['written_not_read']} that deserialize never reads / reads {k['read_not_written']} never written")
        ctx.cov["json_classes_checked"] = len(res["json_keys"])
        for c, (wn, rn) in sorted(res["names"].items()):
            bad = [(i, a, b) for i, (a, b) in enumerate(zip(wn, rn)) if a != b and "?" not in (a, b)]
            if bad or len(wn) != len(rn):
                ctx.broke("T", f"field names of {c}", f"writer takes {[b[1] for b in bad] or wn} where reader stores {[b[2] for b in bad] or rn} (positions {[b[0] for b in bad]})")
        ctx.cov["field_names"] = {"classes": len(res["names"]), "names": sum(len(w) for w, _ in res["names"].values()),
                                  "unresolved": sum(w.count("?") + r.count("?") for w, r in res["names"].values())}
        for c, (js, bn) in sorted(res["format_fields"].items()):
            exc = set(t11.FORMAT_EXCEPTIONS.get(c, []))
            if (set(js) ^ set(bn)) - exc:
                ctx.broke("T", f"formats of {c}", f"JSON-only attributes {sorted(set(js) - set(bn) - exc)}, binary-only {sorted(set(bn) - set(js) - exc)}")
        ctx.cov["format_tables"] = {"classes": len(res["format_fields"]), "exceptions": t11.FORMAT_EXCEPTIONS}
        conf = [c for c, rows in res["json_op_shapes"].items() if all(e in t11.SHAPE_OK.get(d, set()) for _, d, e in rows)]
        ctx.cov["json_ops"] = {"confirmed_from_serialize": conf,
                               "derived_only": {c: [(k, d, e) for k, d, e in rows if e not in t11.SHAPE_OK.get(d, set())]
                                                for c, rows in res["json_op_shapes"].items() if c not in conf}}
        ctx.cov["fixup_ref_slots"] = {c: {"slots": a, "exceptions": e} for c, a, b, e in res["ref_slots"]}
        for c, a, b, e in res["ref_slots"]:
            miss = [x for x in a if x not in b and x not in e]
            if miss:
                ctx.broke("T", f"fixup traversal of {c}", f"slots {miss} can hold TypeInfo/alias references but the class's NodeFixer/TypeFixer visitor never touches them")
        ctx.cov["fixup_attribute_coverage"] = {a: (t11.WALK_COVERAGE.get(a) or "NOT COVERED") for a in res["fixup_assigns"]}
        for a in res["fixup_assigns"]:
            if a not in t11.WALK_COVERAGE:
                ctx.broke("T", "fixup coverage", f"mypy/fixup.py assigns or rebuilds `{a}`, which the structural walk does not compare")
        must = {"CacheMeta", "CacheMetaEx", "Var", "FuncDef", "TypeInfo", "MypyFile", "CallableType", "TypeVarType", "helper_errors"}
        missing = must - set(res["schemas"])
        if missing:
            ctx.broke("T", "t11 coverage", f"classes that used to be regular are no longer translatable: {sorted(missing)}: "
                      + "; ".join(f"{k}: {v}" for k, v in res["searched_only"].items() if k in missing))
    except Exception as e:  # noqa
        ctx.broke("T", "t11 translator", repr(e))
    # P + A
    ok = ctx.prove("C11/Properties.v", ["C11", "gen", "lib"])
    # C
    if ok:
        prim_stage(ctx)
        if res is not None:
            schema_stage(ctx, res)
    else:
        ctx.log("model does not build: correspondence stages skipped, search continues")
    # S
    roundtrip_stage(ctx)


def replay(ctx: vlib.Ctx, path: str) -> None:
    d = json.load(open(path))
    print(json.dumps(d, indent=1)[:4000])
    run(ctx)
