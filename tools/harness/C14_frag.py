"""Worker-side helpers for the fragment tie of C14 (imported by the C14 worker; needs PYTHONPATH=/repo).

For a source text of the fragment:
  * tree   : the CPython `ast` tree with positions, as nested lists in the shape of coq/C14/Model.v `stmt`
  * fast   : the REAL fastparse.ASTConverter result, rendered in the shape of Model.v `mstmt`
  * native : the REAL nativeparse reader result on the REAL ast_serialize bytes, same shape
  * tokens : the primitive reads the REAL reader performs on the REAL bytes (T tag | I int | S str | B bool),
             checked to re-encode (librt writers) to exactly the real bytes
Anything outside the fragment -> {"skip": reason}.
"""
from __future__ import annotations

import ast
from typing import Any


class Outside(Exception):
    pass


BINOPS = {ast.Add: "+", ast.Sub: "-", ast.Mult: "*", ast.MatMult: "@", ast.Div: "/", ast.Mod: "%", ast.Pow: "**",
          ast.LShift: "<<", ast.RShift: ">>", ast.BitOr: "|", ast.BitXor: "^", ast.BitAnd: "&", ast.FloorDiv: "//"}
CMPOPS = {ast.Eq: "==", ast.NotEq: "!=", ast.Lt: "<", ast.LtE: "<=", ast.Gt: ">", ast.GtE: ">=", ast.Is: "is",
          ast.IsNot: "is not", ast.In: "in", ast.NotIn: "not in"}
UNOPS = {ast.Invert: "~", ast.Not: "not", ast.UAdd: "+", ast.USub: "-"}


def P(n: Any) -> list:
    return ["P", n.lineno, n.col_offset, n.end_lineno, n.end_col_offset]


def ascii_ok(s: str) -> bool:
    return all(32 <= ord(c) < 127 for c in s)


def fbits(x: float) -> int:
    import struct
    return int.from_bytes(struct.pack(">d", x), "big")


def t_oe(e: ast.expr | None) -> list:
    return ["O"] if e is None else ["O", t_expr(e)]


def t_expr(e: ast.expr) -> list:
    if isinstance(e, ast.Set):
        return ["ESet", P(e), [t_expr(x) for x in e.elts]]
    if isinstance(e, ast.Dict):
        return ["EDict", P(e), [["ditem", t_oe(k), t_expr(v)] for k, v in zip(e.keys, e.values)]]
    if isinstance(e, ast.Subscript):
        return ["ESubscript", P(e), t_expr(e.value), t_expr(e.slice)]
    if isinstance(e, ast.Slice):
        return ["ESlice", P(e), t_oe(e.lower), t_oe(e.upper), t_oe(e.step)]
    if isinstance(e, ast.Starred):
        return ["EStar", P(e), t_expr(e.value)]
    if isinstance(e, ast.Lambda):
        return ["ELambda", P(e), t_params(e.args), t_expr(e.body)]
    if isinstance(e, ast.Yield):
        return ["EYield", P(e), t_oe(e.value)]
    if isinstance(e, ast.YieldFrom):
        return ["EYieldFrom", P(e), t_expr(e.value)]
    if isinstance(e, ast.Await):
        return ["EAwait", P(e), t_expr(e.value)]
    if isinstance(e, ast.NamedExpr):
        if not isinstance(e.target, ast.Name) or not ascii_ok(e.target.id):
            raise Outside("walrus target")
        return ["EWalrus", P(e), P(e.target), e.target.id, t_expr(e.value)]
    if isinstance(e, (ast.ListComp, ast.SetComp, ast.GeneratorExp, ast.DictComp)):
        if any(g.is_async for g in e.generators):
            raise Outside("async comprehension")
        gens = [["gen", t_expr(g.target), t_expr(g.iter), [t_expr(c) for c in g.ifs]] for g in e.generators]
        if isinstance(e, ast.DictComp):
            return ["EDictComp", P(e), t_expr(e.key), t_expr(e.value), gens]
        kind = "CList" if isinstance(e, ast.ListComp) else "CSet" if isinstance(e, ast.SetComp) else "CGen"
        return ["EComp", P(e), kind, t_expr(e.elt), gens]
    if isinstance(e, ast.Name):
        return ["EName", P(e), e.id]
    if isinstance(e, ast.Constant):
        v = e.value
        if v is None or v is True or v is False:
            return ["EConst", P(e), "CNone" if v is None else "CTrue" if v else "CFalse"]
        if v is Ellipsis:
            return ["EEllipsis", P(e)]
        if isinstance(v, float):
            return ["EFloat", P(e), fbits(v)]
        if isinstance(v, complex):
            return ["EComplex", P(e), fbits(v.real), fbits(v.imag)]
        if isinstance(v, bytes):
            from mypy.util import bytes_to_human_readable_repr
            r = bytes_to_human_readable_repr(v)
            if not ascii_ok(r):
                raise Outside("non-ascii bytes repr")
            return ["EBytes", P(e), r]
        if isinstance(v, int):
            if abs(v) >= 2 ** 62:
                raise Outside("big int")
            return ["EInt", P(e), v]
        if isinstance(v, str) and e.kind is None:
            if not ascii_ok(v):
                raise Outside("non-ascii string")
            return ["EStr", P(e), v]
        raise Outside(f"constant {type(v).__name__}")
    if isinstance(e, ast.Attribute):
        return ["EAttr", P(e), t_expr(e.value), e.attr]
    if isinstance(e, ast.Call):
        if (len(e.args) == 1 and not e.keywords and isinstance(e.args[0], ast.GeneratorExp)
                and (e.args[0].end_lineno, e.args[0].end_col_offset) == (e.end_lineno, e.end_col_offset)):
            # f(x for x in y): CPython's GeneratorExp spans the call parentheses, the native front end reports the bare
            # generator (a listed finding: diag-position:start:GeneratorExp) -- the native extent is not a function of the tree
            raise Outside("bare generator argument")
        pargs = []
        for a in e.args:
            if isinstance(a, ast.Starred):
                pargs.append(["PStar", t_expr(a.value)])
            else:
                pargs.append(["PPos", t_expr(a)])
        kws = []
        for k in e.keywords:
            if k.arg is None:
                kws.append(["KDStar", t_expr(k.value)])
            else:
                kws.append(["KNamed", k.arg, t_expr(k.value)])
        return ["ECall", P(e), t_expr(e.func), pargs, kws]
    if isinstance(e, ast.BinOp):
        return ["EBin", P(e), ["op", BINOPS[type(e.op)]], t_expr(e.left), t_expr(e.right)]
    if isinstance(e, ast.UnaryOp):
        return ["EUnary", P(e), ["op", UNOPS[type(e.op)]], t_expr(e.operand)]
    if isinstance(e, ast.Compare):
        return ["ECompare", P(e), t_expr(e.left), [["pair", ["op", CMPOPS[type(o)]], t_expr(c)] for o, c in zip(e.ops, e.comparators)]]
    if isinstance(e, ast.BoolOp):
        vs = [t_expr(v) for v in e.values]
        return ["EBoolOp", P(e), ["op", "and" if isinstance(e.op, ast.And) else "or"], vs[0], vs[1], vs[2:]]
    if isinstance(e, ast.IfExp):
        return ["EIfExp", P(e), t_expr(e.test), t_expr(e.body), t_expr(e.orelse)]
    if isinstance(e, ast.Tuple):
        return ["ETuple", P(e), [t_expr(x) for x in e.elts]]
    if isinstance(e, ast.List):
        if not isinstance(e.ctx, ast.Load):
            raise Outside("list as assignment target")
        return ["EList", P(e), [t_expr(x) for x in e.elts]]
    raise Outside(type(e).__name__)


SRC_LINES: list[bytes] = []


def star_pos(a: ast.arg, stars: int) -> list:
    """Extent of `*name` / `**name` as written: scan back from the name over blanks to the stars (same line)."""
    line = SRC_LINES[a.lineno - 1]
    i = a.col_offset
    while i > 0 and line[i - 1:i] in (b" ", b"\t"):
        i -= 1
    if line[i - stars:i] != b"*" * stars:
        raise Outside("star parameter written across lines")
    return ["P", a.lineno, i - stars, a.end_lineno, a.end_col_offset]


def t_params(a: ast.arguments) -> list:
    out = []
    pos = a.posonlyargs + a.args
    nd = len(pos) - len(a.defaults)
    for i, x in enumerate(pos):
        if x.annotation is not None or x.type_comment:
            raise Outside("annotated parameter")
        d = a.defaults[i - nd] if i >= nd else None
        out.append(["param", P(x), P(x), x.arg, "KPosOnly" if i < len(a.posonlyargs) else "KPos", t_oe(d)])
    if a.vararg is not None:
        if a.vararg.annotation is not None:
            raise Outside("annotated parameter")
        out.append(["param", P(a.vararg), star_pos(a.vararg, 1), a.vararg.arg, "KStar", ["O"]])
    for x, d in zip(a.kwonlyargs, a.kw_defaults):
        if x.annotation is not None:
            raise Outside("annotated parameter")
        out.append(["param", P(x), P(x), x.arg, "KKwOnly", t_oe(d)])
    if a.kwarg is not None:
        if a.kwarg.annotation is not None:
            raise Outside("annotated parameter")
        out.append(["param", P(a.kwarg), star_pos(a.kwarg, 2), a.kwarg.arg, "KDStar", ["O"]])
    for x in out:
        if not ascii_ok(x[3]):
            raise Outside("non-ascii name")
    return out


def dotted(e: ast.expr) -> str | None:
    if isinstance(e, ast.Name):
        return e.id
    if isinstance(e, ast.Attribute):
        b = dotted(e.value)
        return None if b is None else b + "." + e.attr
    return None


def t_ty(e: ast.expr) -> list:
    d = dotted(e)
    if d is not None:
        if not ascii_ok(d):
            raise Outside("non-ascii name")
        return ["TyName", P(e), d]
    if isinstance(e, ast.Constant) and e.value is None:
        return ["TyNone", P(e)]
    if isinstance(e, ast.Subscript):
        b = dotted(e.value)
        if b is None or not ascii_ok(b):
            raise Outside("type: subscript of a non-name")
        if isinstance(e.slice, ast.Tuple):
            if getattr(e.slice, "lineno", None) is None:
                raise Outside("type: odd slice")
            return ["TySub", P(e), b, True, [t_ty(x) for x in e.slice.elts]]
        return ["TySub", P(e), b, False, [t_ty(e.slice)]]
    if isinstance(e, ast.BinOp) and isinstance(e.op, ast.BitOr):
        return ["TyUnion", P(e), t_ty(e.left), t_ty(e.right)]
    raise Outside("type: " + type(e).__name__)


def m_ty(t: Any) -> list:
    from mypy import types as T
    if type(t) is T.UnboundType:
        if t.optional or t.original_str_expr is not None or t.original_str_fallback is not None:
            raise Outside("type: optional/str")
        return ["MUnbound", MP(t), t.name, [m_ty(a) for a in t.args], bool(t.empty_tuple_index)]
    if type(t) is T.UnionType:
        if not (t.uses_pep604_syntax and t.is_evaluated) or t.original_str_expr is not None:
            raise Outside("type: union flags")
        return ["MUnion", MP(t), [m_ty(a) for a in t.items]]
    raise Outside("type node " + type(t).__name__)


def t_stmt(s: ast.stmt) -> list:
    if isinstance(s, ast.AnnAssign):
        return ["SAnnAssign", P(s), t_expr(s.target), t_ty(s.annotation), t_oe(s.value)]
    if isinstance(s, ast.ClassDef):
        if getattr(s, "type_params", None):
            raise Outside("generic class")
        if any(k.arg is None for k in s.keywords):
            raise Outside("**kw in class keywords")
        if any(isinstance(b, ast.Starred) for b in s.bases):
            raise Outside("starred base")
        return ["SClass", P(s), s.name, [t_expr(b) for b in s.bases], [["kw", k.arg, t_expr(k.value)] for k in s.keywords],
                [t_expr(d) for d in s.decorator_list], t_stmts(s.body)]
    if isinstance(s, ast.FunctionDef):
        if s.returns is not None or s.type_comment or getattr(s, "type_params", None):
            raise Outside("annotated / generic def")
        dp = P(s)
        if s.decorator_list:
            d0 = s.decorator_list[0]
            line = SRC_LINES[d0.lineno - 1]
            i = d0.col_offset
            while i > 0 and line[i - 1:i] in (b"(", b" ", b"\t"):
                i -= 1
            if line[i - 1:i] != b"@":
                raise Outside("cannot locate decorator start")
            while line[i:i + 1] in (b" ", b"\t"):
                i += 1
            dp = ["P", d0.lineno, i, d0.end_lineno, d0.end_col_offset]
        return ["SDef", P(s), s.name, t_params(s.args), [t_expr(d) for d in s.decorator_list], dp, t_stmts(s.body)]
    if isinstance(s, ast.AugAssign):
        return ["SAugAssign", P(s), ["op", BINOPS[type(s.op)]], t_expr(s.target), t_expr(s.value)]
    if isinstance(s, ast.Break):
        return ["SBreak", P(s)]
    if isinstance(s, ast.Continue):
        return ["SContinue", P(s)]
    if isinstance(s, (ast.Global, ast.Nonlocal)):
        if not all(ascii_ok(n) for n in s.names):
            raise Outside("non-ascii name")
        return ["SGlobal" if isinstance(s, ast.Global) else "SNonlocal", P(s), [["str", n] for n in s.names]]
    if isinstance(s, ast.Delete):
        return ["SDel", P(s), [t_expr(t) for t in s.targets]]
    if isinstance(s, ast.Assert):
        return ["SAssert", P(s), t_expr(s.test), t_oe(s.msg)]
    if isinstance(s, ast.Raise):
        return ["SRaise", P(s), t_oe(s.exc), t_oe(s.cause)]
    if isinstance(s, ast.Import):
        return ["SImport", P(s), [["alias", a.name, a.asname] for a in s.names]]
    if isinstance(s, ast.ImportFrom):
        if len(s.names) == 1 and s.names[0].name == "*":
            return ["SImportAll", P(s), s.level, s.module or ""]
        return ["SImportFrom", P(s), s.level, s.module or "", [["alias", a.name, a.asname] for a in s.names]]
    if isinstance(s, ast.With):
        if s.type_comment:
            raise Outside("type comment")
        return ["SWith", P(s), [["witem", t_expr(i.context_expr), t_oe(i.optional_vars)] for i in s.items], t_stmts(s.body)]
    if isinstance(s, ast.Try):
        hs = []
        for h in s.handlers:
            nm = None
            if h.name is not None:
                if h.type is None or h.type.end_lineno != h.lineno:
                    raise Outside("handler name on another line")
                line = SRC_LINES[h.lineno - 1]
                import re as _re
                m = _re.match(rb"\s*\)*\s*as\s+", line[h.type.end_col_offset:])
                if not m or not ascii_ok(h.name):
                    raise Outside("cannot locate handler name")
                c0 = h.type.end_col_offset + m.end()
                if line[c0:c0 + len(h.name)] != h.name.encode():
                    raise Outside("cannot locate handler name")
                nm = [h.name, ["P", h.lineno, c0, h.lineno, c0 + len(h.name)]]
            hs.append(["handler", P(h), t_oe(h.type), nm, t_stmts(h.body)])
        return ["STry", P(s), t_stmts(s.body), hs, t_stmts(s.orelse), t_stmts(s.finalbody)]
    if isinstance(s, ast.Expr):
        return ["SExpr", P(s), t_expr(s.value)]
    if isinstance(s, ast.Assign):
        if s.type_comment:
            raise Outside("type comment")
        return ["SAssign", P(s), [t_expr(t) for t in s.targets], t_expr(s.value)]
    if isinstance(s, ast.Return):
        return ["SReturn", P(s), t_oe(s.value)]
    if isinstance(s, ast.Pass):
        return ["SPass", P(s)]
    if isinstance(s, ast.While):
        return ["SWhile", P(s), t_expr(s.test), t_stmts(s.body), t_stmts(s.orelse)]
    if isinstance(s, ast.For):
        if s.type_comment:
            raise Outside("type comment")
        return ["SFor", P(s), t_expr(s.target), t_expr(s.iter), t_stmts(s.body), t_stmts(s.orelse)]
    if isinstance(s, ast.If):
        return ["SIf", P(s), t_expr(s.test), t_stmts(s.body), t_stmts(s.orelse)]
    raise Outside(type(s).__name__)


def t_stmts(l: list[ast.stmt]) -> list:
    return [t_stmt(s) for s in l]


# ------------------------------------------------------------------ rendering of real mypy trees

def MP(n: Any) -> list:
    if n.end_line is None and n.end_column is None:
        return ["P", n.line, n.column, -1, -1]      # unset end: encoded as -1 -1 (Model.PN)
    def z(v: Any) -> Any:
        return ["none"] if v is None else v
    return ["P", n.line, n.column, z(n.end_line), z(n.end_column)]


def m_oe(e: Any) -> list:
    return ["opt"] if e is None else ["opt", m_expr(e)]


def m_args(arguments: Any) -> list:
    args = []
    for a in arguments:
        if a.type_annotation is not None or a.variable.type is not None:
            raise Outside("annotated argument")
        args.append(["MArg", MP(a), MP(a.variable), a.variable.name, ["kind", a.kind.name], m_oe(a.initializer), bool(a.pos_only)])
    return args


def m_expr(e: Any) -> list:
    from mypy import nodes as N
    t = type(e)
    if t is N.NameExpr:
        return ["MName", MP(e), e.name]
    if t is N.IntExpr:
        return ["MInt", MP(e), e.value]
    if t is N.StrExpr:
        return ["MStr", MP(e), e.value]
    if t is N.MemberExpr:
        return ["MMember", MP(e), m_expr(e.expr), e.name]
    if t is N.SuperExpr:
        return ["MSuper", MP(e), e.name, m_expr(e.call)]
    if t is N.CallExpr:
        return ["MCall", MP(e), m_expr(e.callee), [m_expr(a) for a in e.args], [["kind", k.name] for k in e.arg_kinds],
                [["opt", n] if n is not None else ["opt"] for n in e.arg_names]]
    if t is N.OpExpr:
        return ["MOp", MP(e), ["str", e.op], m_expr(e.left), m_expr(e.right)]
    if t is N.UnaryExpr:
        return ["MUnary", MP(e), ["str", e.op], m_expr(e.expr)]
    if t is N.ComparisonExpr:
        return ["MCompare", MP(e), [["str", o] for o in e.operators], [m_expr(x) for x in e.operands]]
    if t is N.ConditionalExpr:
        return ["MCond", MP(e), m_expr(e.cond), m_expr(e.if_expr), m_expr(e.else_expr)]
    if t is N.TupleExpr:
        return ["MTuple", MP(e), [m_expr(x) for x in e.items]]
    if t is N.ListExpr:
        return ["MList", MP(e), [m_expr(x) for x in e.items]]
    if t is N.SetExpr:
        return ["MSet", MP(e), [m_expr(x) for x in e.items]]
    if t is N.DictExpr:
        return ["MDict", MP(e), [["pair", m_oe(k), m_expr(v)] for k, v in e.items]]
    if t is N.IndexExpr:
        return ["MIndex", MP(e), m_expr(e.base), m_expr(e.index)]
    if t is N.SliceExpr:
        return ["MSlice", MP(e), m_oe(e.begin_index), m_oe(e.end_index), m_oe(e.stride)]
    if t is N.StarExpr:
        return ["MStar", MP(e), m_expr(e.expr)]
    if t is N.EllipsisExpr:
        return ["MEllipsis", MP(e)]
    if t is N.YieldExpr:
        return ["MYield", MP(e), m_oe(e.expr)]
    if t is N.YieldFromExpr:
        return ["MYieldFrom", MP(e), m_expr(e.expr)]
    if t is N.AwaitExpr:
        return ["MAwait", MP(e), m_expr(e.expr)]
    if t is N.AssignmentExpr:
        return ["MAssignExpr", MP(e), m_expr(e.target), m_expr(e.value)]
    if t is N.BytesExpr:
        return ["MBytes", MP(e), e.value]
    if t is N.FloatExpr:
        return ["MFloat", MP(e), fbits(e.value)]
    if t is N.ComplexExpr:
        return ["MComplex", MP(e), fbits(e.value.real), fbits(e.value.imag)]
    if t is N.GeneratorExpr:
        return ["MGenerator", MP(e), m_expr(e.left_expr), [m_expr(x) for x in e.indices], [m_expr(x) for x in e.sequences],
                [[m_expr(c) for c in cl] for cl in e.condlists], [bool(b) for b in e.is_async]]
    if t is N.ListComprehension:
        return ["MListComp", MP(e), m_expr(e.generator)]
    if t is N.SetComprehension:
        return ["MSetComp", MP(e), m_expr(e.generator)]
    if t is N.DictionaryComprehension:
        return ["MDictComp", MP(e), m_expr(e.key), m_expr(e.value), [m_expr(x) for x in e.indices], [m_expr(x) for x in e.sequences],
                [[m_expr(c) for c in cl] for cl in e.condlists], [bool(b) for b in e.is_async]]
    if t is N.LambdaExpr:
        if e.type is not None:
            raise Outside("typed lambda")
        b = e.body
        assert len(b.body) == 1 and type(b.body[0]) is N.ReturnStmt and not b.is_unreachable
        return ["MLambda", MP(e), m_args(e.arguments), MP(b), MP(b.body[0]), m_expr(b.body[0].expr)]
    raise Outside("mypy node " + t.__name__)


def m_block(b: Any) -> list:
    return ["MBlock", MP(b), bool(b.is_unreachable), [m_stmt(s) for s in b.body]]


def m_oblock(b: Any) -> list:
    return ["opt"] if b is None else ["opt", m_block(b)]


def m_stmt(s: Any) -> list:
    from mypy import nodes as N
    t = type(s)
    if t is N.ClassDef:
        if s.type_args or s.type_vars or s.removed_base_type_exprs:
            raise Outside("generic class")
        return ["MClassDef", MP(s), s.name, m_block(s.defs), [m_expr(b) for b in s.base_type_exprs],
                ["opt", m_expr(s.metaclass)] if s.metaclass is not None else ["opt"],
                [["pair", k, m_expr(v)] for k, v in s.keywords.items()], [m_expr(d) for d in s.decorators]]
    if t is N.FuncDef:
        if s.type is not None or s.unanalyzed_type is not None or s.is_coroutine or s.type_args:
            raise Outside("typed / async FuncDef")
        for k, a in enumerate(s.arguments):
            assert s.arg_names[k] == (None if a.pos_only else a.variable.name) and a.kind == s.arg_kinds[k]
        return ["MFuncDef", MP(s), s.name, m_args(s.arguments), m_block(s.body)]
    if t is N.Decorator:
        assert s.func.is_decorated and s.var.line == s.func.line
        return ["MDecorator", MP(s), [m_expr(d) for d in s.decorators], m_stmt(s.func)]
    if t is N.OperatorAssignmentStmt:
        return ["MOpAssign", MP(s), ["str", s.op], m_expr(s.lvalue), m_expr(s.rvalue)]
    if t is N.BreakStmt:
        return ["MBreak", MP(s)]
    if t is N.ContinueStmt:
        return ["MContinue", MP(s)]
    if t is N.GlobalDecl:
        return ["MGlobal", MP(s), [["str", n] for n in s.names]]
    if t is N.NonlocalDecl:
        return ["MNonlocal", MP(s), [["str", n] for n in s.names]]
    if t is N.DelStmt:
        return ["MDel", MP(s), m_expr(s.expr)]
    if t is N.AssertStmt:
        return ["MAssert", MP(s), m_expr(s.expr), m_oe(s.msg)]
    if t is N.RaiseStmt:
        return ["MRaise", MP(s), m_oe(s.expr), m_oe(s.from_expr)]
    if t is N.Import:
        return ["MImport", MP(s), [["pair", ["str", a], ["opt", ["str", b]] if b is not None else ["opt"]] for a, b in s.ids]]
    if t is N.ImportFrom:
        return ["MImportFrom", MP(s), s.id, s.relative, [["pair", ["str", a], ["opt", ["str", b]] if b is not None else ["opt"]] for a, b in s.names]]
    if t is N.ImportAll:
        return ["MImportAll", MP(s), s.id, s.relative]
    if t is N.WithStmt:
        if s.is_async or s.unanalyzed_type is not None:
            raise Outside("async / typed with")
        return ["MWith", MP(s), [m_expr(x) for x in s.expr], [m_oe(x) for x in s.target], m_block(s.body)]
    if t is N.TryStmt:
        if s.is_star:
            raise Outside("except*")
        return ["MTry", MP(s), m_block(s.body), [["opt", ["pair", ["str", v.name], MP(v)]] if v is not None else ["opt"] for v in s.vars],
                [m_oe(x) for x in s.types], [m_block(b) for b in s.handlers], m_oblock(s.else_body), m_oblock(s.finally_body)]
    if t is N.ExpressionStmt:
        return ["MExprStmt", MP(s), m_expr(s.expr)]
    if t is N.AssignmentStmt and s.type is not None:
        assert s.unanalyzed_type is s.type
        if type(s.rvalue) is N.TempNode:
            assert s.rvalue.no_rhs
            rv = ["MTemp", MP(s.rvalue)]
        else:
            rv = m_expr(s.rvalue)
        return ["MAnnAssign", MP(s), [m_expr(x) for x in s.lvalues], rv, m_ty(s.type), bool(s.new_syntax)]
    if t is N.AssignmentStmt:
        if s.type is not None or s.unanalyzed_type is not None:
            raise Outside("annotated assignment")
        return ["MAssign", MP(s), [m_expr(x) for x in s.lvalues], m_expr(s.rvalue), bool(s.new_syntax)]
    if t is N.ReturnStmt:
        return ["MReturn", MP(s), m_oe(s.expr)]
    if t is N.PassStmt:
        return ["MPass", MP(s)]
    if t is N.WhileStmt:
        return ["MWhile", MP(s), m_expr(s.expr), m_block(s.body), m_oblock(s.else_body)]
    if t is N.ForStmt:
        if s.is_async or s.index_type is not None:
            raise Outside("async/typed for")
        return ["MFor", MP(s), m_expr(s.index), m_expr(s.expr), m_block(s.body), m_oblock(s.else_body)]
    if t is N.IfStmt:
        assert len(s.expr) == 1 and len(s.body) == 1
        return ["MIf", MP(s), m_expr(s.expr[0]), m_block(s.body[0]), m_oblock(s.else_body)]
    raise Outside("mypy node " + t.__name__)


# ------------------------------------------------------------------ tracing the real reader

def traced_native(src: str, ver: tuple[int, int]) -> tuple[Any, list, bytes, list]:
    """Run the real native front end + reader, recording every primitive read."""
    import mypy.cache as C
    import mypy.nativeparse as NP
    from librt.internal import ReadBuffer, WriteBuffer, write_bool, write_int, write_str, write_tag
    from mypy.options import Options
    o = Options()
    o.python_version = ver
    b, errors, ignores, import_bytes, _p, _t, _h, _c = NP.parse_to_binary_ast("frag.py", o, src)
    toks: list = []
    saved = {}
    names = {"read_tag": "T", "read_int_bare": "I", "read_str_bare": "S", "read_bool": "B", "read_float_bare": "F"}

    def wrap(fn: Any, k: str) -> Any:
        def f(data: Any) -> Any:
            v = fn(data)
            toks.append([k, v])
            return v
        return f
    for mod in (C, NP):
        for nm, k in names.items():
            if hasattr(mod, nm):
                saved[(mod, nm)] = getattr(mod, nm)
                setattr(mod, nm, wrap(getattr(mod, nm), k))
    try:
        state = NP.State(o)
        data = ReadBuffer(b)
        n = C.read_int(data)
        defs = NP.read_statements(state, data, n)
    finally:
        for (mod, nm), fn in saved.items():
            setattr(mod, nm, fn)
    # the recorded reads must cover the bytes exactly
    w = WriteBuffer()
    for k, v in toks:
        if k == "T":
            write_tag(w, v)
        elif k == "I":
            write_int(w, v)
        elif k == "S":
            write_str(w, v)
        elif k == "B":
            write_bool(w, v)
        else:
            from librt.internal import write_float
            write_float(w, v)
    ok = w.getvalue() == b
    toks = [[k, fbits(v)] if k == "F" else [k, v] for k, v in toks]
    return defs, toks, b, [ok, list(errors), list(state.errors)]


def one(src: str, ver: tuple[int, int]) -> dict[str, Any]:
    from mypy.errors import Errors
    from mypy.fastparse import parse as fparse
    from mypy.options import Options
    try:
        tree = ast.parse(src)
        global SRC_LINES
        SRC_LINES = src.encode("utf-8").split(b"\n")
        if tree.type_ignores:
            raise Outside("type ignores")
        t = t_stmts(tree.body)
    except Outside as e:
        return {"skip": str(e)}
    except SyntaxError as e:
        return {"skip": "syntax error " + str(e)}
    o = Options()
    o.python_version = ver
    errs = Errors(o)
    errs.set_file("frag.py", "frag", options=o)
    ft = fparse(src, "frag.py", "frag", errs, o)
    res: dict[str, Any] = {"tree": t}
    try:
        res["fast"] = [m_stmt(s) for s in ft.defs]
    except Outside as e:
        return {"skip": "fast: " + str(e)}
    if errs.error_info_map:
        return {"skip": "parse diagnostics"}
    try:
        defs, toks, raw, (covered, e1, e2) = traced_native(src, ver)
        res["native"] = [m_stmt(s) for s in defs]
    except Outside as e:
        return {"skip": "native: " + str(e)}
    res["tokens"] = toks
    res["covered"] = covered
    res["native_errors"] = [str(x) for x in e1 + e2]
    return res


def run(task: dict[str, Any]) -> dict[str, Any]:
    ver = tuple(task.get("ver", [3, 12]))
    from mypy import cache, nodes, types
    tags = {}
    for nm in task.get("tag_names", []):
        tags[nm] = int(getattr(nodes, nm) if hasattr(nodes, nm) else getattr(cache, nm) if hasattr(cache, nm) else getattr(types, nm))
    return {"results": [one(s, ver) for s in task["sources"]], "tags": tags}  # type: ignore[arg-type]


if __name__ == "__main__":
    import json
    import sys
    r = one(sys.stdin.read(), (3, 12))
    for k, v in r.items():
        print(k, "=", json.dumps(v))
