"""C09 — changing options between runs never yields stale results.

T: tools/extractors/t09.py regenerates coq/gen/OptionsTable.v (attribute table, key sets, snapshot shape,
   cache-directory reads, per-method option reads of mypy/errors.py, per-file read sites) and the committed
   classification tools/harness/options_class.json is emitted next to it (gen/OptionsClass.v).
P/A: coq/C09/Properties.v (mechanism theorems + the finite table theorem over the generated table).
C: (1) the model's reuse prediction (snapshot + cache-directory comparison) against the real run's
   "Metadata abandoned ... options differ" / "fresh" log lines for every toggle experiment;
   (2) the witness table: every attribute that is not `inert` has a program on which the two cold outputs differ,
   every `inert` attribute has equal cold outputs on its program.
S: the property's own oracle: run 1 with value A (warms the cache), run 2 with value B on the same cache,
   cold run with B (empty cache directory): warm-B must equal cold-B (stdout, stderr without log lines, exit status).
"""
from __future__ import annotations

import json
import os
import re
import shutil
import subprocess
import sys
import tempfile
import time
from concurrent.futures import ThreadPoolExecutor
from typing import Any

import vlib

HERE = os.path.dirname(os.path.abspath(__file__))
# VERIF_C09_CLASS: developer aid (validating a proposed fix with the reclassification it requires); never set by bin/*
CLASS_FILE = os.environ.get("VERIF_C09_CLASS") or os.path.join(HERE, "options_class.json")

# ------------------------------------------------------------------------------------------------
# Witness programs.  Each is a dict path -> text.  "a.py" is the default target and the default module
# for the per-module spellings.
# ------------------------------------------------------------------------------------------------

P: dict[str, dict[str, str]] = {
    "assign": {"a.py": 'x: int = ""\n'},
    "redef_old": {"a.py": 'def f() -> None:\n    x = 1\n    print(x)\n    x = "a"\n    print(x)\n'},
    "redef_new": {"a.py": 'def f(b: bool) -> None:\n    if b:\n        x = 1\n    else:\n        x = "a"\n    reveal_type(x)\n'},
    "untyped_global": {"a.py": "x = []\n"},
    "always": {"a.py": 'FLAG = bool(input())\nif FLAG:\n    x: int = ""\nelse:\n    y: str = 1\n'},
    "check_unreachable": {"a.py": 'if False:\n    reveal_type(5)\n'},
    "untyped_def_body": {"a.py": 'def f():\n    x: int = ""\n'},
    "any_decorated": {"a.py": "from typing import Any\ndef d(f: Any) -> Any: return f\n@d\ndef g() -> None: ...\n"},
    "any_explicit": {"a.py": "from typing import Any\nx: Any = 1\n"},
    "any_expr": {"a.py": "from typing import Any\ndef f(x: Any) -> None:\n    print(x)\n"},
    "any_generics": {"a.py": "x: list = []\n"},
    "any_unimported": {"a.py": "from missing_mod_xyz import C  # type: ignore\ndef f(x: C) -> None: ...\n"},
    "incomplete_defs": {"a.py": "def f(x: int, y): ...\n"},
    "subclassing_any": {"a.py": "from typing import Any\nB: Any\nclass C(B): ...\n"},
    "untyped_calls": {"a.py": "from b import u\ndef t() -> None:\n    u(1)\n", "b.py": "def u(x): ...\n"},
    "untyped_decorators": {"a.py": "def d(f): return f\n@d\ndef g() -> None: ...\n"},
    "untyped_defs": {"a.py": "def f(x): ...\n"},
    "ignore_no_code": {"a.py": 'x: int = ""  # type: ignore\n'},
    "extra_checks": {"a.py": 'from typing import TypedDict\nA = TypedDict("A", {"foo": int, "bar": int})\nB = TypedDict("B", {"foo": int})\n'
                             'a = A({"foo": 1, "bar": 2})\nb = B({"foo": 2})\na.update(b)\n'},
    "follow": {"a.py": "import b\nb.f(1)\n", "b.py": 'def f(x: str) -> None: ...\ny: int = ""\n'},
    "follow_stub": {"a.py": "import b\nb.f(1)\n", "b.pyi": "def f(x: str) -> None: ...\n"},
    "missing_import": {"a.py": "import nonexistent_mod_xyz\n"},
    "missing_stub_pkg": {"a.py": "import requests\n"},
    "implicit_optional": {"a.py": "def f(x: int = None) -> None: ...\n"},
    "reexport": {"a.py": "from b import z\n", "b.py": "from c import z\n", "c.py": "z = 1\n"},
    "partial": {"a.py": "x = []\ndef f() -> None:\n    x.append(1)\n"},
    "strict_eq": {"a.py": 'print(1 == "a")\n'},
    "strict_eq_none": {"a.py": "def f(x: int) -> None:\n    print(x == None)\n"},
    "optional": {"a.py": "x: int = None\n"},
    "no_return": {"a.py": "def f(b: bool) -> int:\n    if b:\n        return 1\n"},
    "return_any": {"a.py": "from typing import Any\ndef f(x: Any) -> int:\n    return x\n"},
    "unreachable": {"a.py": "def f(x: int) -> None:\n    if isinstance(x, str):\n        print(x)\n"},
    "unused_ignore": {"a.py": "x = 1  # type: ignore\n"},
    "platform": {"a.py": 'import sys\nif sys.platform == "win32":\n    x: int = ""\n'},
    "pyversion": {"a.py": 'import sys\nif sys.version_info >= (3, 12):\n    x: int = ""\n'},
    "bytes": {"a.py": 'def f(x: bytes) -> None: ...\nf(bytearray(b""))\n'},
    "inline_td": {"a.py": 'def f(x: {"a": int}) -> None: ...\n'},
    "plugin": {"a.py": "def f() -> int: ...\nreveal_type(f())\n",
               "plug.py": "from mypy.plugin import Plugin\nclass P(Plugin):\n    def get_function_hook(self, fullname):\n"
                          "        if fullname == 'a.f':\n            return lambda ctx: ctx.api.named_generic_type('builtins.str', [])\n"
                          "        return None\ndef plugin(version):\n    return P\n"},
    "cast": {"a.py": "from typing import cast\nx = 1\ny = cast(int, x)\n"},
    "context": {"a.py": 'def f() -> None:\n    x: int = ""\n', },
    "context_import": {"a.py": "import b\n", "b.py": 'class C:\n    def m(self) -> None:\n        x: int = ""\n'},
    "deprecated": {"a.py": 'from typing_extensions import deprecated\n@deprecated("use g")\ndef f() -> None: ...\nf()\n'},
    "reveal": {"a.py": "from typing import Callable\ndef f(x: int, *a: str) -> list[int]: ...\nreveal_type(f)\nc: Callable[[int], str]\nreveal_type(c)\n"},
    "many_errors": {"a.py": "".join(f"import nonexistent_mod_{i}\n" for i in range(6)) + 'x: int = ""\ny: int = ""\n'},
    "empty_body": {"a.py": "def f() -> int: ...\n"},
    "pos_only": {"a.py": "class A:\n    def __eq__(self, other: object) -> bool: ...\nA().__eq__(other=1)\n"},
    "column": {"a.py": 'def f() -> None:\n    x: int = "aaa" + "b"\n'},
    "summary": {"a.py": 'x: int = ""\n'},
    "unused_config": {"a.py": "x = 1\n"},
    "scripts": {"s1": 'x: int = ""\n', "s2": "y = 1\n"},
    "exclude": {"pkg/__init__.py": "", "pkg/good.py": "x = 1\n", "pkg/bad.py": 'x: int = ""\n', ".gitignore": "bad.py\n"},
    "shadow": {"a.py": "x = 1\n", "sh.py": 'x: int = ""\n'},
    "namespace": {"a.py": "import ns.m\nns.m.f(1)\n", "ns/m.py": "def f(x: str) -> None: ...\n"},
    "pkg_bases": {"top/ns/m.py": "from . import k\n", "top/ns/k.py": "y = 1\n"},
    "mypy_path": {"a.py": "import lib\nlib.f(1)\n", "p1/lib.py": "def f(x: str) -> None: ...\n", "p2/lib.py": "def f(x: int) -> None: ...\n"},
    "site": {"a.py": "import typedpkg\nimport untypedpkg\ntypedpkg.f(1)\nuntypedpkg.g(1)\n"},
    "typing_module": {"a.py": 'from mytyping import List\nx: List[int] = [""]\n'},
    "incomplete_stub": {"a.py": "import colorsys\n"},
    # a program with several kinds of diagnostics, used for attributes expected not to change cold output
    "sink": {
        "a.py": 'import b\nimport nonexistent_mod_xyz\nfrom typing import cast\nfrom c import C\n\n'
                'def f(x: int) -> str:\n    return x\n\nclass K(C):\n    def m(self) -> None:\n        y: int = ""\n        reveal_type(self)\n\n'
                'z = b.g(1)  # type: ignore\nw = cast(int, 1)\nb.h("")\n',
        "b.py": 'import c\ndef g(x: str) -> int: ...\ndef h(x: int) -> None: ...\nq: str = 1\n',
        "c.py": "import b\nclass C:\n    def m(self) -> None: ...\n",
    },
}
# import options of a DEPENDENCY's own section (State.suppressed_deps_opts): a.py imports foo in five ways;
# dm_* = foo is missing, dp_* = foo is present (and skipped: follow_imports skip <-> error)
IMPORT_FORMS = {
    "top": "import foo\n",
    "func": "def f() -> None:\n    import foo\n",
    "tc": "from typing import TYPE_CHECKING\nif TYPE_CHECKING:\n    import foo\n",
    "anc": "import foo.bar\n",
    "sub": "from foo import bar\n",
}
for _k, _src in IMPORT_FORMS.items():
    P["dm_" + _k] = {"a.py": _src}
    if _k in ("anc", "sub"):
        P["dp_" + _k] = {"a.py": _src, "foo/__init__.py": 'x: int = ""\n' if _k == "anc" else "", "foo/bar.py": "y = 1\n" if _k == "anc" else 'y: int = ""\n'}
    else:
        P["dp_" + _k] = {"a.py": _src, "foo.py": 'x: int = ""\n'}

# per-module interplay: module a carries the per-module option, b imports a and shows a's interface
P["ip_implicit_optional"] = {"a.py": "def f(x: int = None) -> None: ...\n", "b.py": "from a import f\nreveal_type(f)\n"}
P["ip_strict_optional"] = {"a.py": "x: int = None\n", "b.py": "import a\nreveal_type(a.x)\n"}
P["ip_partial"] = {"a.py": "x = []\ndef f() -> None:\n    x.append(1)\n", "b.py": "import a\nreveal_type(a.x)\n"}
P["ip_always_true"] = {"a.py": "FLAG = bool(input())\nif FLAG:\n    x = 1\nelse:\n    x = ''\n", "b.py": "import a\nreveal_type(a.x)\n"}
P["ip_untyped_globals"] = {"a.py": "x = []\n", "b.py": "import a\nreveal_type(a.x)\n"}
P["ip_untyped_defs"] = {"a.py": "def f(x): ...\n", "b.py": "import a\nreveal_type(a.f)\n"}
P["ip_ignore_errors"] = {"a.py": "def f() -> int:\n    return ''\n", "b.py": "import a\nx: str = a.f()\n"}

SITE = {
    "sp/typedpkg/__init__.py": 'def f(x: str) -> None: ...\nbad: int = ""\n',
    "sp/typedpkg/py.typed": "",
    "sp/untypedpkg/__init__.py": 'def g(x: str) -> None: ...\nbad: int = ""\n',
}


def setup_site(d: str) -> None:
    for k, v in SITE.items():
        p = os.path.join(d, k)
        os.makedirs(os.path.dirname(p), exist_ok=True)
        open(p, "w").write(v)
    sp = os.path.join(d, "sp")
    fake = os.path.join(d, "fakepy")
    open(fake, "w").write(f"#!/bin/sh\necho \"(['{sp}'], ['{sp}'])\"\n")
    os.chmod(fake, 0o755)
    fake2 = os.path.join(d, "fakepy2")
    open(fake2, "w").write("#!/bin/sh\necho \"([], [])\"\n")
    os.chmod(fake2, 0o755)


def setup_typeshed(d: str) -> None:
    src = os.path.join(vlib.REPO, "mypy", "typeshed")
    dst = os.path.join(d, "ts")
    shutil.copytree(src, dst, symlinks=True)
    p = os.path.join(dst, "stdlib", "colorsys.pyi")
    open(p, "a").write("\ndef verif_extra(x: int) -> str: ...\n")


def setup_incomplete_stub(d: str) -> None:
    src = os.path.join(vlib.REPO, "mypy", "typeshed")
    dst = os.path.join(d, "ts")
    shutil.copytree(src, dst, symlinks=True)
    p = os.path.join(dst, "stdlib", "colorsys.pyi")
    open(p, "a").write("\ndef verif_untyped(x): ...\n")


# ------------------------------------------------------------------------------------------------
# Toggle table.  E(attr, program, A, B, ...): A/B are config-file values (None = key absent).
#   extra  : config lines present in both runs            target : command-line targets
#   mod    : module named in the per-module section spelling (default "a")
#   flags  : explicit (flagsA, flagsB) for the command-line spelling (else derived from the parser)
#   only   : restrict spellings                            setup : callable(dir)
#   tier   : "quick" (default) or "thorough"
#   same   : True = cold outputs are expected to be EQUAL (attribute expected inert on this program)
# ------------------------------------------------------------------------------------------------

TABLE: list[dict[str, Any]] = []


# attributes whose chains never start from the typeshed-only template cache (they replace typeshed itself); in the
# thorough tier EVERY chain starts from an empty cache directory
TRUECOLD = {"warn_incomplete_stub", "custom_typeshed_dir"}


def E(attr: str, prog: str, a: str | None, b: str | None, **kw: Any) -> None:
    kw.setdefault("truecold", attr in TRUECOLD)   # attributes that can change results for typeshed / installed packages
    TABLE.append(dict(attr=attr, prog=prog, a=a, b=b, **kw))


def build_table() -> None:
    if TABLE:
        return
    T, F = "True", "False"
    # ---- per-module key options
    E("allow_redefinition_old", "redef_old", F, T)
    E("allow_redefinition", "redef_new", F, T)
    E("allow_untyped_globals", "untyped_global", F, T)
    E("always_false", "always", None, "FLAG")
    E("always_true", "always", None, "FLAG")
    E("check_unreachable", "check_unreachable", F, T, extra=["warn_unreachable = True"])
    E("check_untyped_defs", "untyped_def_body", F, T)
    E("disable_error_code", "assign", None, "assignment")
    E("disallow_any_decorated", "any_decorated", F, T)
    E("disallow_any_explicit", "any_explicit", F, T)
    E("disallow_any_expr", "any_expr", F, T)
    E("disallow_any_generics", "any_generics", F, T)
    E("disallow_any_unimported", "any_unimported", F, T)
    E("disallow_incomplete_defs", "incomplete_defs", F, T)
    E("disallow_subclassing_any", "subclassing_any", F, T)
    E("disallow_untyped_calls", "untyped_calls", F, T)
    E("disallow_untyped_decorators", "untyped_decorators", F, T)
    E("disallow_untyped_defs", "untyped_defs", F, T)
    E("enable_error_code", "ignore_no_code", None, "ignore-without-code")
    E("extra_checks", "extra_checks", F, T)
    E("strict_concatenate", "sink", F, T, same=True, tier="thorough")   # deprecated alias of extra_checks: only the global spelling prints a warning
    E("follow_imports", "follow", "normal", "skip", mod="b")
    E("follow_imports", "follow", "silent", "error", mod="b", tier="thorough")
    E("follow_imports_for_stubs", "follow_stub", F, T, extra=["follow_imports = skip"], mod="b")
    E("follow_untyped_imports", "site", F, T, setup=setup_site, flags=(["--python-executable", "./fakepy"], ["--python-executable", "./fakepy", "--follow-untyped-imports"]),
      extra_flags=["--python-executable", "./fakepy"], mod="untypedpkg")
    E("ignore_errors", "assign", F, T)
    E("ignore_missing_imports", "missing_import", F, T, mod="nonexistent_mod_xyz")
    E("implicit_optional", "implicit_optional", F, T)
    E("implicit_reexport", "reexport", T, F, mod="b")
    E("local_partial_types", "partial", T, F)
    E("mypyc", "sink", F, T, same=True, only=["config"], tier="thorough")
    E("strict_equality", "strict_eq", F, T)
    E("strict_equality_for_none", "strict_eq_none", F, T, extra=["strict_equality = True"])
    E("strict_optional", "optional", T, F)
    E("warn_no_return", "no_return", T, F)
    E("warn_return_any", "return_any", F, T)
    E("warn_unreachable", "unreachable", F, T)
    E("warn_unused_ignores", "unused_ignore", F, T)
    E("debug_cache", "sink", F, T, same=True, tier="thorough")
    # with --debug-cache in both runs the snapshot is the un-hashed dict: a key option must still be compared
    E("strict_optional", "optional", T, F, extra=["debug_cache = True"], only=["config"], tag="debug-cache")
    # ---- global key options
    E("platform", "platform", "linux", "win32")
    E("bazel", "sink", F, T, same=True, tier="thorough")
    E("native_parser", "sink", F, T, same=True, tier="thorough")
    E("old_type_inference", "sink", F, T, same=True, tier="thorough")
    E("plugins", "plugin", None, "plug.py")
    E("strict_bytes", "bytes", T, F)
    E("fixed_format_cache", "sink", T, F, same=True)
    E("untyped_calls_exclude", "untyped_calls", None, "b", extra=["disallow_untyped_calls = True"])
    E("enable_incomplete_feature", "inline_td", None, "InlineTypedDict")
    E("install_types", "sink", F, T, same=True, tier="thorough", extra=["non_interactive = False"], only=["config"])
    # ---- cache directory
    E("python_version", "pyversion", "3.11", "3.12")
    E("cache_dir", "assign", None, None, special="cache_dir", same=True)
    E("sqlite_cache", "sink", T, F, same=True)
    # ---- formatting (expected post-load)
    E("show_column_numbers", "column", F, T)
    E("show_error_end", "column", F, T, extra=["show_column_numbers = True"])
    E("hide_error_codes", "column", F, T)
    E("hide_error_codes", "untyped_global", F, T, extra=["show_error_code_links = True"])
    E("python_version", "pyversion", "3.11", "3.12", extra=["bazel = True"], only=["config"], tier="thorough", tag="bazel")
    E("pretty", "column", F, T)
    E("color_output", "column", T, F, env={"MYPY_FORCE_COLOR": "1"})
    E("error_summary", "summary", T, F)
    E("output", "column", None, "json", only=["cmdline"])
    E("warn_unused_configs", "unused_config", F, T, sect_extra="[mypy-nonexistent_pkg.*]\nignore_errors = True\n", only=["config", "cmdline"])
    # ---- suspects: outside the key; classified by these experiments
    E("warn_redundant_casts", "cast", F, T)
    E("show_error_context", "context", F, T)
    E("show_error_context", "context_import", F, T, tier="thorough")
    E("show_error_code_links", "untyped_global", F, T)
    E("show_absolute_path", "assign", F, T)
    E("report_deprecated_as_note", "deprecated", F, T, extra=["enable_error_code = deprecated"])
    E("deprecated_calls_exclude", "deprecated", None, "a", extra=["enable_error_code = deprecated"])
    E("reveal_verbose_types", "reveal", F, T)
    E("many_errors_threshold", "many_errors", "-1", "3")
    E("warn_incomplete_stub", "incomplete_stub", F, T, setup=setup_incomplete_stub, extra=["custom_typeshed_dir = ts", "disallow_untyped_defs = True", "no_silence_site_packages = True"])
    E("allow_empty_bodies", "empty_body", F, T)
    E("pos_only_special_methods", "pos_only", T, F)
    E("no_silence_site_packages", "site", F, T, setup=setup_site, extra_flags=["--python-executable", "./fakepy"])
    E("python_executable", "site", "./fakepy", "./fakepy2", setup=setup_site, only=["cmdline"],
      flags=(["--python-executable", "./fakepy"], ["--python-executable", "./fakepy2"]))
    E("no_site_packages", "site", F, T, setup=setup_site, only=["cmdline"],
      flags=(["--python-executable", "./fakepy"], ["--no-site-packages"]))
    E("namespace_packages", "namespace", T, F)
    E("explicit_package_bases", "pkg_bases", F, T, target=["top/ns/m.py"], extra=["mypy_path = top"])
    E("mypy_path", "mypy_path", "p1", "p2")
    E("custom_typeshed_dir", "incomplete_stub", None, "ts", setup=setup_typeshed, prog_override={"a.py": "import colorsys\ncolorsys.verif_extra(1)\n"})
    E("custom_typing_module", "typing_module", None, "mytyping")
    E("scripts_are_modules", "scripts", F, T, target=["s1", "s2"])
    E("exclude", "exclude", None, "bad", target=["pkg"])
    E("exclude_gitignore", "exclude", F, T, target=["pkg"], setup=lambda d: subprocess.run(["git", "init", "-q", d], check=False))
    E("shadow_file", "shadow", None, None, only=["cmdline"], flags=([], ["--shadow-file", "a.py", "sh.py"]))
    E("semantic_analysis_only", "assign", F, T)
    E("ignore_missing_imports_per_module", "missing_stub_pkg", None, None, special="imi_per_module")
    E("skip_version_check", "platform", None, None, special="skip_version_check")
    E("incremental", "assign", T, F, same=True, tier="thorough")
    # ---- per-module interplay: a's per-module option (section / inline) changes, b imports a; only b is a target.
    #      When the option changes a's INTERFACE, b must not be replayed from the cache (tag -> own finding key).
    E("implicit_optional", "ip_implicit_optional", F, T, target=["b.py"], only=["section", "inline"], tag="interplay")
    E("local_partial_types", "ip_partial", T, F, target=["b.py"], only=["section", "inline"], tag="interplay", tier="thorough")
    E("always_true", "ip_always_true", None, "FLAG", target=["b.py"], only=["section", "inline"], tag="interplay", tier="thorough")
    E("allow_untyped_globals", "ip_untyped_globals", F, T, target=["b.py"], only=["section", "inline"], tag="interplay", tier="thorough")
    # controls: the interface of a does not change, only a's own diagnostics
    E("disallow_untyped_defs", "ip_untyped_defs", F, T, target=["b.py"], only=["section", "inline"], tag="interplay", tier="thorough")
    E("ignore_errors", "ip_ignore_errors", F, T, target=["b.py"], only=["section", "inline"], tag="interplay", tier="thorough")
    E("strict_optional", "ip_strict_optional", T, F, target=["b.py"], only=["section", "inline"], tag="interplay", tier="thorough")
    # ---- import options in the section of a dependency, by import form (priority): top-level import (PRI_MED),
    #      inside a function (PRI_LOW), under TYPE_CHECKING (PRI_MYPY), ancestor of a dotted import, from-import of a
    #      submodule.  Missing module: ignore_missing_imports; present module: follow_imports skip <-> error (the
    #      dependency stays suppressed, only its recorded import options change).  One of each form in quick.
    quick_dep = {("dm", "top"), ("dp", "func"), ("dm", "tc"), ("dm", "anc"), ("dp", "sub")}
    for form in IMPORT_FORMS:
        E("ignore_missing_imports", "dm_" + form, F, T, only=["section"], mod="foo", tag="dep-" + form + "-missing",
          tier="quick" if ("dm", form) in quick_dep else "thorough")
        if form == "anc":
            continue
        E("follow_imports", "dp_" + form, "skip", "error", only=["section"], mod="foo.bar" if form == "sub" else "foo",
          tag="dep-" + form + "-present", tier="quick" if ("dp", form) in quick_dep else "thorough")
    # known finding: a present package foo that is only the ANCESTOR of the followed module foo.bar is not in
    # foo.bar's `suppressed` list, so foo.bar's cached "Ancestor package ignored" error ignores [mypy-foo] follow_imports
    E("follow_imports", "dp_anc", "skip", "error", only=["section"], mod="foo", tag="dep-ancestor-present", tier="thorough")
    # ---- expected inert: toggled on the kitchen-sink program; cold outputs must be equal, warm must equal cold
    for attr, a, b in [
        ("skip_cache_mtime_checks", F, T), ("cache_fine_grained", F, T), ("debug_serialize", F, T),
        ("fine_grained_incremental", F, T), ("use_fine_grained_cache", F, T), ("sqlite_num_shards", "16", "4"),
        ("inspections", F, T), ("preserve_asts", F, T), ("include_docstrings", F, T), ("export_types", F, T),
        ("test_env", F, T), ("fast_exit", T, F), ("fast_module_lookup", F, T), ("disable_expression_cache", F, T),
        ("export_ref_info", F, T), ("logical_deps", F, T), ("show_traceback", F, T), ("raise_exceptions", F, T),
        ("junit_format", "global", "per_file"),
        ("junit_xml", None, "junit.xml"),
        ("mypyc_skip_c_generation", F, T),
    ]:
        E(attr, "sink", a, b, same=True, only=["config"], tier="quick" if attr in ("cache_fine_grained", "sqlite_num_shards") else "thorough")


# Attributes that are never toggled, with the reason (they must be classified inert with that reason).
NOT_TOGGLED = {
    "build_type": "overwritten by main.process_options from the kind of target (-m/-p/-c/files); not an option",
    "abs_custom_typeshed_dir": "derived: abspath(custom_typeshed_dir), computed in main.process_options",
    "report_dirs": "report generation; mypy disables cache reading when reports are requested (build.py: 'if not options.report_dirs' guards)",
    "disable_bytearray_promotion": "derived: overwritten from strict_bytes by Options.process_strict_bytes (main.process_options); toggled through strict_bytes",
    "disable_memoryview_promotion": "derived: overwritten from strict_bytes by Options.process_strict_bytes; toggled through strict_bytes",
    "disabled_error_codes": "derived from disable_error_code/enable_error_code (process_error_codes, apply_changes); toggled through them",
    "enabled_error_codes": "derived from enable_error_code/disable_error_code; toggled through them",
    "config_file": "location of the configuration; its content is the other options",
    "quickstart_file": "hash-avoidance hint file (undocumented); does not carry an option value",
    "files": "target set (C02), not an option with a fixed target set",
    "packages": "target set (C02)",
    "modules": "target set (C02)",
    "per_module_options": "raw per-module sections; their resolved values are classified per attribute (section spelling)",
    "pdb": "debugger on crash; no output unless mypy crashes",
    "verbosity": "log lines on stderr only (the harness itself runs every warm run with -v and filters LOG lines)",
    "non_interactive": "only accepted together with --install-types (usage error otherwise); install_types is in the key",
    "dump_build_stats": "developer statistics dump (timings) on stdout/stderr",
    "dump_type_stats": "developer statistics dump",
    "dump_inference_stats": "developer statistics dump",
    "timing_stats": "developer statistics file",
    "line_checking_stats": "developer statistics file",
    "dump_graph": "developer dump; exits before checking",
    "dump_deps": "developer dump of fine-grained deps",
    "num_workers": "parallel checking: property C07",
    "package_root": "bazel-only (requires --bazel and cache_dir=/dev/null: no cache is read)",
    "cache_map": "bazel-only explicit cache file mapping",
    "transform_source": "API-only callable (not serialisable, not in config/command line)",
    "mypyc_annotation_file": "mypyc-only output file",
    "use_builtins_fixtures": "test-suite-only: needs the test fixtures directory as lib-stub",
}

SPELLINGS = ["config", "cmdline", "section", "inline"]


# ------------------------------------------------------------------------------------------------
# Running mypy
# ------------------------------------------------------------------------------------------------

_parser_map: dict[str, list[tuple[list[str], str, Any, Any]]] | None = None


def parser_map() -> dict[str, list[tuple[list[str], str, Any, Any]]]:
    """dest -> [(option strings, action class, const, nargs)] from the real argument parser."""
    global _parser_map
    if _parser_map is None:
        code = ("import json,sys\nfrom mypy import main as M\np=M.define_options()[0]\nd={}\n"
                "for a in p._actions:\n    d.setdefault(a.dest.replace('special-opts:',''),[]).append([a.option_strings,type(a).__name__,getattr(a,'const',None),a.nargs])\n"
                "print(json.dumps(d))")
        st, out = vlib.sh([vlib.PY, "-c", code], env=vlib.py_env(), cwd="/tmp")
        _parser_map = json.loads(out.strip().splitlines()[-1])
    return _parser_map


def cmdline_for(attr: str, val: str | None) -> list[str] | None:
    """Command-line spelling of attr = val (config syntax), or None if there is none."""
    if val is None:
        return []
    acts = parser_map().get(attr)
    if not acts:
        return None
    for strs, cls, const, nargs in acts:
        if not strs:
            continue
        if cls in ("_StoreTrueAction", "_StoreFalseAction"):
            if str(const) == val:
                return [strs[-1]]
        elif cls == "_CountAction":
            return [strs[0]] * int(val)
        elif cls in ("_StoreAction", "_AppendAction") and nargs is None:
            if attr == "many_errors_threshold":
                return [strs[-1], val]
            out: list[str] = []
            for v in ([x.strip() for x in val.split(",")] if cls == "_AppendAction" else [val]):
                out += [strs[-1], v]
            return out
    return None


def clean_stderr(s: str) -> str:
    return "\n".join(l for l in s.splitlines() if l.strip() and not re.match(r"^(LOG|TRACE):\s", l))


def run_mypy(cwd: str, cache: str, cfg: str, flags: list[str], targets: list[str], env_extra: dict[str, str] | None,
             verbose: bool = False) -> dict[str, Any]:
    cfgp = os.path.join(cwd, "verif.ini")
    open(cfgp, "w").write(cfg)
    cmd = [vlib.PY, "-m", "mypy", "--config-file", "verif.ini", "--cache-dir", cache] + (["-v"] if verbose else []) + flags + targets
    env = vlib.py_env(env_extra)
    env.pop("MYPY_CACHE_DIR", None)
    env["COLUMNS"] = "80"
    try:
        p = subprocess.run(cmd, cwd=cwd, env=env, capture_output=True, text=True, timeout=300, errors="replace")
        st, out, err = p.returncode, p.stdout, p.stderr
    except subprocess.TimeoutExpired:
        st, out, err = 124, "", "[timeout]"
    res = {"status": st, "stdout": out, "stderr": clean_stderr(err), "cmd": " ".join(cmd[1:]), "cfg": cfg}
    if verbose:
        # freshness verdicts of the user modules only (typeshed paths excluded: a global toggle abandons ~70 of them)
        res["log"] = [l for l in err.splitlines() if "Metadata" in l and "/typeshed/" not in l][:200]
    return res


def obs(r: dict[str, Any]) -> tuple[int, str, str]:
    return (r["status"], r["stdout"], r["stderr"])


def make_cfg(globals_: list[str], sections: str = "") -> str:
    return "[mypy]\n" + "".join(l + "\n" for l in globals_) + sections


def variants(e: dict[str, Any], thorough: bool) -> list[dict[str, Any]]:
    """Expand a table entry into concrete (spelling) variants: cfgA/cfgB/flagsA/flagsB/files."""
    attr, a, b = e["attr"], e["a"], e["b"]
    files = dict(P[e["prog"]])
    files.update(e.get("prog_override", {}))
    extra = list(e.get("extra", []))
    xf = list(e.get("extra_flags", []))
    sect_extra = e.get("sect_extra", "")
    mod = e.get("mod", "a")
    out = []
    only = e.get("only")
    per_module = attr in per_module_options()
    for sp in SPELLINGS:
        if only and sp not in only:
            continue
        v: dict[str, Any] = dict(attr=attr, spelling=sp, files=files, a=a, b=b, mod=mod, prog=e["prog"],
                                 target=e.get("target", ["a.py"]), env=e.get("env"), setup=e.get("setup"),
                                 same=e.get("same", False), special=e.get("special"), truecold=e.get("truecold", False), tag=e.get("tag"))
        if e.get("special"):
            if sp != "config":
                continue
            out.append(v)
            continue
        if sp == "config":
            if "flags" in e and only == ["cmdline"]:
                continue
            v["cfgA"] = make_cfg(extra + ([f"{attr} = {a}"] if a is not None else []), sect_extra)
            v["cfgB"] = make_cfg(extra + ([f"{attr} = {b}"] if b is not None else []), sect_extra)
            v["flagsA"] = v["flagsB"] = xf
        elif sp == "cmdline":
            if "flags" in e:
                fa, fb = e["flags"]
            else:
                fa, fb = cmdline_for(attr, a), cmdline_for(attr, b)
                if fa is None or fb is None:
                    continue
                fa, fb = xf + fa, xf + fb
            v["cfgA"] = v["cfgB"] = make_cfg(extra, sect_extra)
            v["flagsA"], v["flagsB"] = fa, fb
        elif sp == "section":
            if not per_module:
                continue
            v["cfgA"] = make_cfg(extra, sect_extra + f"[mypy-{mod}]\n" + (f"{attr} = {a}\n" if a is not None else ""))
            v["cfgB"] = make_cfg(extra, sect_extra + f"[mypy-{mod}]\n" + (f"{attr} = {b}\n" if b is not None else ""))
            v["flagsA"] = v["flagsB"] = xf
        elif sp == "inline":
            if not per_module or not thorough or attr in ("debug_cache", "mypyc"):
                continue
            fn = next((f for f in files if f in (mod + ".py", mod + ".pyi")), None)
            if fn is None:
                continue
            v["cfgA"] = v["cfgB"] = make_cfg(extra, sect_extra)
            v["flagsA"] = v["flagsB"] = xf
            v["filesA"] = dict(files)
            v["filesB"] = dict(files)
            if a is not None:
                v["filesA"][fn] = f"# mypy: {attr}={a}\n" + files[fn]
            if b is not None:
                v["filesB"][fn] = f"# mypy: {attr}={b}\n" + files[fn]
        out.append(v)
    return out


_impl_sets: dict[str, list[str]] | None = None


def impl_sets() -> dict[str, list[str]]:
    """PER_MODULE_OPTIONS / OPTIONS_AFFECTING_CACHE as the implementation computes them (used only to choose
    spellings; independent of the translator so that S still runs when T fails)."""
    global _impl_sets
    if _impl_sets is None:
        code = ("import json\nfrom mypy import options as o\n"
                "print(json.dumps({'per_module': sorted(o.PER_MODULE_OPTIONS), 'affecting': sorted(o.OPTIONS_AFFECTING_CACHE)}))")
        st, out = vlib.sh([vlib.PY, "-c", code], env=vlib.py_env(), cwd="/tmp")
        _impl_sets = json.loads(out.strip().splitlines()[-1])
    return _impl_sets


def per_module_options() -> set[str]:
    return set(impl_sets()["per_module"])


def write_files(d: str, files: dict[str, str]) -> None:
    for k, v in files.items():
        p = os.path.join(d, k)
        os.makedirs(os.path.dirname(p) or d, exist_ok=True)
        old = None
        if os.path.exists(p):
            old = open(p).read()
        if old != v:
            open(p, "w").write(v)
            if old is not None:
                # keep clear of the mtime granularity window (C02's environment assumption)
                st = os.stat(p)
                os.utime(p, (st.st_atime + 5, st.st_mtime + 5))


def special_variant(v: dict[str, Any]) -> None:
    sp = v["special"]
    if sp == "imi_per_module":
        # same resolved value ignore_missing_imports=True for module a, set globally (A) or per module (B)
        v["cfgA"] = make_cfg(["ignore_missing_imports = True"])
        v["cfgB"] = make_cfg([], "[mypy-requests]\nignore_missing_imports = True\n")
        v["flagsA"] = v["flagsB"] = []
    elif sp == "skip_version_check":
        # the platform is not compared when --skip-version-check is given (find_cache_meta)
        v["cfgA"] = make_cfg(["platform = linux", "skip_version_check = True"])
        v["cfgB"] = make_cfg(["platform = win32", "skip_version_check = True"])
        v["flagsA"] = v["flagsB"] = []
    elif sp == "cache_dir":
        v["cfgA"] = v["cfgB"] = make_cfg([])
        v["flagsA"] = v["flagsB"] = []


def canon(r: dict[str, Any], d: str) -> dict[str, Any]:
    for k in ("stdout", "stderr"):
        r[k] = r[k].replace(d, "<PROJ>")
    return r


def scrub_user_entries(cache: str, files: dict[str, str]) -> int:
    """Delete the cache entries of the program's own modules from every sqlite shard under `cache` (typeshed entries stay)."""
    import glob
    import sqlite3
    prefixes = sorted({re.sub(r"(/__init__)?\.pyi?$", "", f) + "." for f in files if f.endswith((".py", ".pyi"))}
                      | {re.sub(r"\.pyi?$", "", f) + "." for f in files if f.endswith((".py", ".pyi"))})
    n = 0
    for db in glob.glob(os.path.join(cache, "**", "*.db"), recursive=True):
        con = sqlite3.connect(db)
        try:
            for pre in prefixes:
                cur = con.execute("DELETE FROM files2 WHERE path LIKE ? ESCAPE '!'", (pre.replace("!", "!!").replace("_", "!_").replace("%", "!%") + "%",))
                n += cur.rowcount
            con.commit()
        finally:
            con.close()
    return n


def run_chain(v: dict[str, Any], root: str, idx: int, first: str, template: str | None = None,
              warm: bool = True, ref: bool = False) -> dict[str, Any]:
    """One direction: a cold run with side `first` (empty cache directory), then a warm run with the other side on
    the cache it left.  Every chain has its own project directory (same path length; the path is canonicalised)."""
    second = "B" if first == "A" else "A"
    d = os.path.join(root, f"c{idx:04d}{first}")
    os.makedirs(d)
    try:
        files = {"A": v.get("filesA", v["files"]), "B": v.get("filesB", v["files"])}
        write_files(d, files[first])
        if v.get("setup"):
            v["setup"](d)
        cache = os.path.join(d, "cache")
        if template is not None and not v.get("truecold"):
            # typeshed pre-warmed (default options); the user modules are cold
            shutil.copytree(template, cache, symlinks=True)
        r1 = canon(run_mypy(d, cache, v["cfg" + first], v["flags" + first], v["target"], v.get("env")), d)
        if not warm:
            return {"cold": r1, "warm": None}     # reference run only (quick tier: one direction)
        write_files(d, files[second])
        c2 = cache + "-other" if (v.get("special") == "cache_dir") else cache
        r2 = canon(run_mypy(d, c2, v["cfg" + second], v["flags" + second], v["target"], v.get("env"), verbose=True), d)
        if ref:
            # quick tier, global key options: the reference run reuses the typeshed entries that run 2 has just
            # re-checked under the new options (the snapshot differed) and is cold for the program's own modules
            n = scrub_user_entries(c2, files[second])
            r3 = canon(run_mypy(d, c2, v["cfg" + second], v["flags" + second], v["target"], v.get("env"), verbose=True), d)
            mods = {re.sub(r"(/__init__)?\.pyi?$", "", f).replace("/", ".") for f in files[second] if f.endswith((".py", ".pyi"))}
            if n == 0 or any(re.search(r"Metadata fresh for (%s):" % "|".join(map(re.escape, sorted(mods))), l) for l in r3.get("log", [])):
                r3["stderr"] += "\n[harness: reference run was not cold for the user modules]"
            return {"cold": r1, "warm": r2, "ref": r3}
        return {"cold": r1, "warm": r2}
    finally:
        shutil.rmtree(d, ignore_errors=True)


def combine(v: dict[str, Any], ca: dict[str, Any], cb: dict[str, Any]) -> dict[str, Any]:
    res: dict[str, Any] = {"attr": v["attr"], "spelling": v["spelling"], "prog": v["prog"], "a": v["a"], "b": v["b"],
                           "same": v["same"], "mod": v["mod"], "special": v.get("special"), "tag": v.get("tag"), "dirs": {},
                           "runs": 0}
    cold = {"A": ca["cold"], "B": ca["ref"] if cb is None else cb["cold"]}
    if cb is None:
        cb = {"warm": None}
    res["runs"] = 2 + sum(1 for c in (ca, cb) if c["warm"] is not None)
    res["cold_differ"] = obs(cold["A"]) != obs(cold["B"])
    res["coldA"], res["coldB"] = cold["A"], cold["B"]
    for first, second, ch in (("A", "B", ca), ("B", "A", cb)):
        if ch["warm"] is None:
            continue
        stale = obs(ch["warm"]) != obs(cold[second])
        res["dirs"][first + second] = {"stale": stale, "log": ch["warm"].get("log", [])[:200], "warm": ch["warm"] if stale else None}
    return res


def make_template(root: str) -> str:
    """A cache directory warmed on an empty program with default options: typeshed only."""
    d = os.path.join(root, "template_proj")
    os.makedirs(d)
    open(os.path.join(d, "empty.py"), "w").write("")
    c = os.path.join(root, "template_cache")
    r = run_mypy(d, c, "[mypy]\n", [], ["empty.py"], None)
    if r["status"] != 0:
        raise RuntimeError("template run failed: " + r["stdout"] + r["stderr"])
    return c


def run_matrix(vs: list[dict[str, Any]], jobs: int, log=print, use_template: bool = True,
               both: bool = True) -> list[dict[str, Any]]:
    """Per variant: v["one_dir"] (default: not `both`) = only A->B (3 runs: run 1 with A, run 2 with B, reference cold B;
    with v["scrub_ref"] the reference is taken in the same chain), otherwise both directions (4 runs: the first run of
    each chain is the reference of the other).  v["truecold"] chains start from an empty cache directory, the others
    from a typeshed-only cache made with default options."""
    root = tempfile.mkdtemp(prefix="verif-c09-")
    try:
        t = time.time()
        template = make_template(root) if use_template else None
        n1 = sum(1 for v in vs if v.get("one_dir", not both))
        log(f"template cache: {time.time()-t:.1f}s; {len(vs)} variants: {n1} one direction (3 runs), {len(vs)-n1} both directions (4 runs); "
            f"{sum(1 for v in vs if v.get('truecold') or template is None)} from an empty cache")
        for v in vs:
            if v.get("special"):
                special_variant(v)
        with ThreadPoolExecutor(max_workers=jobs) as ex:
            futs = []
            for i, v in enumerate(vs):
                one = v.get("one_dir", not both)
                if one and v.get("scrub_ref") and not v.get("truecold") and template is not None:
                    futs.append((ex.submit(run_chain, v, root, i, "A", template, True, True), None))
                else:
                    futs.append((ex.submit(run_chain, v, root, i, "A", template), ex.submit(run_chain, v, root, i, "B", template, not one)))
            return [combine(v, fa.result(), fb.result() if fb is not None else None) for v, (fa, fb) in zip(vs, futs)]
    finally:
        shutil.rmtree(root, ignore_errors=True)


# attributes for which the reuse prediction of the model is not compared with the log (reason given)
NO_PREDICT = {
    "incremental": "--no-incremental sets cache_dir to the null device (main.process_cache_dir): no cache at all",
    "follow_imports": "changes which modules are in the build graph",
    "follow_imports_for_stubs": "changes which modules are in the build graph",
    "follow_untyped_imports": "changes which modules are in the build graph",
    "bazel": "cache location and mtimes handled differently in bazel mode (not modelled)",
    "fixed_format_cache": "selects different cache file names: the other format's files are simply not found",
    "install_types": "main.py handles --install-types before/after the build",
    "debug_cache": "meta stores the un-hashed snapshot: compared as 'options differ' by construction",
    "exclude": "changes the source set", "exclude_gitignore": "changes the source set",
    "scripts_are_modules": "changes module names", "explicit_package_bases": "changes module names",
    "namespace_packages": "changes module resolution", "mypy_path": "changes module resolution (path of the module)",
    "python_executable": "changes module resolution", "no_site_packages": "changes module resolution",
    "custom_typeshed_dir": "changes the path of every stdlib module", "shadow_file": "changes the text that is parsed",
    "semantic_analysis_only": "no cache is written", "plugins": "plugin snapshot compared separately (plugins differ)",
    "sqlite_num_shards": "shard layout of the sqlite store",
    "ignore_missing_imports": "the per-module section names the IMPORTED module (which has no cache entry)",
    "fine_grained_incremental": "daemon mode: the cache is not read unless use_fine_grained_cache",
    "use_fine_grained_cache": "daemon mode",
}


def swap_sides(v: dict[str, Any]) -> dict[str, Any]:
    w = dict(v)
    for x, y in (("cfgA", "cfgB"), ("flagsA", "flagsB"), ("filesA", "filesB"), ("a", "b")):
        if x in v or y in v:
            w[x], w[y] = v.get(y), v.get(x)
    for k in ("filesA", "filesB"):
        if w.get(k) is None:
            w.pop(k, None)
    w["swapped"] = True
    return w


def select_variants(quick: bool, seed: int = 0) -> list[dict[str, Any]]:
    """quick: every entry of the quick tier once, main spelling, direction A->B.
    thorough: every entry with its main spelling in BOTH directions, plus ONE alternative spelling (chosen by the seed
    among the remaining ones: over the seeds every spelling is reached) in one direction (the seed decides which);
    two chains in seven (by seed) start from an empty cache directory instead of the typeshed-only template;
    entries expected to leave the cold output unchanged (`same`) get no alternative spelling."""
    build_table()
    key = set(impl_sets()["affecting"])
    pm = per_module_options()
    vs = []
    for idx, e in enumerate(TABLE):
        if quick and e.get("tier") == "thorough":
            continue
        allv = variants(e, not quick)
        if not allv:
            continue
        by = {v["spelling"]: v for v in allv}
        if e["attr"] in pm and "section" in by:
            main = by["section"]         # keeps typeshed warm: cheap
        else:
            main = by.get("config") or allv[0]
        glob_key = (e["attr"] in key and main["spelling"] != "section" and not main.get("special")
                    and e["attr"] not in ("fixed_format_cache",))
        if quick:
            main["one_dir"] = True
            main["scrub_ref"] = glob_key    # global key option: every typeshed module is re-checked by run 2 anyway
            vs.append(main)
            continue
        main["one_dir"] = False
        main["truecold"] = main.get("truecold") or (seed + idx) % 7 == 0
        vs.append(main)
        alts = [v for v in allv if v is not main and not v.get("special")]
        if alts and not e.get("same"):
            alt = alts[(seed + idx) % len(alts)]
            if (seed + idx) % 2:
                alt = swap_sides(alt)
            alt["one_dir"] = True
            alt["scrub_ref"] = e["attr"] in key and alt["spelling"] in ("config", "cmdline") and e["attr"] not in ("fixed_format_cache",)
            alt["truecold"] = alt.get("truecold") or (seed + idx) % 7 == 3
            vs.append(alt)
    return vs


_table: dict | None = None


def table() -> dict:
    global _table
    if _table is None:
        from extractors import t09
        _table = t09.extract()
    return _table


def coq_opts(kv: list[tuple[str, str]]) -> str:
    return "[" + "; ".join('("%s", "%s")' % (k, v.replace('"', '""')) for k, v in kv) + "]"


def predict(ctx: vlib.Ctx, results: list[dict[str, Any]], classes: dict[str, Any]) -> None:
    """C: the model's (same directory?, snapshot equal?) against what the real run logged for the witness module."""
    dirs = sorted(a for a, c in classes.items() if c["class"] == "dir")
    header = ("From Coq Require Import List String Bool.\nFrom C09 Require Import Model.\nFrom Gen Require Import OptionsTable.\n"
              "Import ListNotations.\nOpen Scope string_scope.\n"
              "Definition D : list string := [" + "; ".join(f'"{d}"' for d in dirs) + "].\n"
              "Definition P (o1 ro1 o2 ro2 : opts) := (list_eqb String.eqb (dirkey D o1) (dirkey D o2), "
              "snap_match (is_lax o2) (options_snapshot options_affecting_cache_no_platform ro1) (options_snapshot options_affecting_cache_no_platform ro2)).\n")
    cases = []
    exprs = []
    for r in results:
        if r["attr"] in NO_PREDICT or r.get("special") or r.get("tag") or r["spelling"] == "inline":
            continue
        for d, (x, y) in (("AB", (r["a"], r["b"])), ("BA", (r["b"], r["a"]))):
            if d not in r["dirs"]:
                continue
            g1 = [(r["attr"], x)] if x is not None else []
            g2 = [(r["attr"], y)] if y is not None else []
            if r["spelling"] == "section":
                e = f"P [] {coq_opts(g1)} [] {coq_opts(g2)}"
            else:
                e = f"P {coq_opts(g1)} {coq_opts(g1)} {coq_opts(g2)} {coq_opts(g2)}"
            cases.append((r, d))
            exprs.append(e)
    out = ctx.eval_cases("predict", header, exprs)
    if out is None:
        return
    bad = 0
    for (r, d), m in zip(cases, out):
        mm = re.match(r"\((true|false), (true|false)\)", m)
        if not mm:
            ctx.broke("C", "predict parse", m)
            return
        same_dir, same_snap = mm.group(1) == "true", mm.group(2) == "true"
        mod = r["mod"]
        log = r["dirs"][d]["log"]
        fresh = any(re.search(rf"Metadata fresh for {re.escape(mod)}:", l) for l in log)
        differ = any(re.search(rf"Metadata abandoned for {re.escape(mod)}: options differ", l) for l in log)
        want = "fresh" if (same_dir and same_snap) else "options differ" if same_dir else "absent"
        got = "fresh" if fresh else "options differ" if differ else "absent"
        ctx.add("traces_validated_against_impl")
        if want != got:
            bad += 1
            if bad <= 5:
                ctx.broke("C", "reuse prediction", f"{r['attr']} ({r['spelling']}, {d}) module {mod}: model says {want}, run 2 logged {got}",
                          {"attr": r["attr"], "spelling": r["spelling"], "dir": d, "log": [l for l in log if mod in l][:6]})
    ctx.cov["reuse_predictions"] = len(cases)
    ctx.cov["reuse_prediction_mismatches"] = bad


def repro(r: dict[str, Any], d: str) -> dict[str, Any]:
    first, second = d[0], d[1]
    w = r["dirs"][d]["warm"]
    c1, c2 = r["cold" + first], r["cold" + second]
    return {
        "attribute": r["attr"], "spelling": r["spelling"], "program": P_files(r),
        "run1": {"cmd": c1["cmd"], "config": c1["cfg"], "stdout": c1["stdout"], "status": c1["status"]},
        "run2_same_cache": {"cmd": w["cmd"], "config": w["cfg"], "stdout": w["stdout"], "stderr": w["stderr"], "status": w["status"]},
        "cold_with_run2_options": {"stdout": c2["stdout"], "stderr": c2["stderr"], "status": c2["status"]},
    }


def P_files(r: dict[str, Any]) -> dict[str, str]:
    return dict(P[r["prog"]])


def judge(ctx: vlib.Ctx, results: list[dict[str, Any]], classes: dict[str, Any]) -> None:
    by_attr: dict[str, list[dict[str, Any]]] = {}
    for r in results:
        by_attr.setdefault(r["attr"] + ("@" + r["tag"] if r.get("tag") else ""), []).append(r)
    nontrivial = 0
    for attr, rs in sorted(by_attr.items()):
        cls = classes.get(attr, {}).get("class")
        if "@" in attr:
            # a toggle of the attribute in a special context (e.g. python_version in bazel mode): its own finding key
            cls = "finding" if attr in KNOWN_CONTEXT_FINDINGS else classes.get(attr.split("@")[0], {}).get("class")
        stale = [(r, d) for r in rs for d, x in r["dirs"].items() if x["stale"]]
        witnessed = any(r["cold_differ"] for r in rs)
        nontrivial += sum(1 for r in rs if r["cold_differ"])
        ctx.add("evaluations", sum(r["runs"] for r in rs))
        if stale:
            r, d = stale[0]
            w = r["dirs"][d]["warm"]
            what = (f"option `{attr}` ({r['spelling']} spelling, {r['a']!r}->{r['b']!r} direction {d}): run 2 on the cache of run 1 "
                    f"differs from a cold run with run 2's options; stale in {len(stale)} of {sum(len(x['dirs']) for x in rs)} toggles")
            ctx.violation(f"F4:{attr}", what, {"kind": "toggle", **repro(r, d), "all_stale": [(x["spelling"], dd) for x, dd in stale]})
        elif cls == "finding":
            ctx.broke("C", "classification", f"{attr} is classified `finding` but none of its {sum(len(x['dirs']) for x in rs)} toggles is stale: reclassify")
        for r in rs:
            if r["same"] and r["cold_differ"] and cls == "inert":
                ctx.broke("C", "inert witness", f"{attr} is classified inert but changes the cold output of program {r['prog']}",
                          {"coldA": r["coldA"]["stdout"][-600:], "coldB": r["coldB"]["stdout"][-600:]})
        if cls in ("key", "dir", "post_load", "finding") and not witnessed and not all(r["same"] for r in rs):
            ctx.broke("C", "witness", f"{attr}: the two cold outputs are equal on its witness program {rs[0]['prog']} (no witness)",
                      {"cold": rs[0]["coldA"]["stdout"][-400:], "stderr": rs[0]["coldA"]["stderr"][-400:]})
    ctx.cov["distinct_nontrivial"] = nontrivial
    ctx.cov["attributes_toggled"] = len(by_attr)
    ctx.cov["variants"] = len(results)


# toggles in a special context that are stale although the attribute itself is sound in the default context
KNOWN_CONTEXT_FINDINGS = {
    "python_version@bazel": "in --bazel mode _cache_dir_prefix returns the current directory for every python version",
    "follow_imports@dep-ancestor-present": "a skipped ANCESTOR package is not in the submodule's `suppressed` list: its import options are not part of the submodule's validity, the cached 'Ancestor package ignored' error is replayed",
}


def classification() -> dict[str, Any]:
    return json.load(open(CLASS_FILE))["attributes"]


def run(ctx: vlib.Ctx) -> None:
    from extractors import t09
    ctx.cov["rule"] = ("every Options attribute is classified; every attribute that is not inert x {config, command-line, per-module section, "
                       "inline} spelling x both toggle directions on a witness program (non-trivial = the two cold outputs differ); inert "
                       "attributes toggled on a multi-module program with several diagnostic kinds (cold outputs must be equal); "
                       "oracle: run 2 on run 1's cache == cold run with run 2's options (stdout, stderr without LOG lines, exit status)")
    ctx.assumptions += [
        "hashes (options digest, source hash, interface hash) modelled as the identity",
        "contract monitored, not proved: the real analysis reads a module's options only through attributes classified key or dir "
        "(this is what the toggle matrix tests; the attributes classified `finding` are its known counterexamples)",
        "bazel mode (cache location = cwd, cache_map) and the daemon's fine-grained cache are not modelled",
        "quick tier: the cache of run 1 starts from a typeshed-only cache built with default options (except attributes that can "
        "change results for typeshed or installed packages); thorough tier: run 1 starts from an empty cache directory",
        "the read-site map of the translator is syntactic (receivers named options/opts/...); it is used only for the post_load/inert checks",
        "dependence of a module's diagnostics on the OPTIONS OF OTHER MODULES goes through interface hashes: property C02",
    ]
    classes: dict[str, Any] = {}
    try:
        classes = classification()      # independent of the translator: C/S still judge with it when T fails
    except Exception as e:  # noqa
        ctx.broke("T", "classification file", repr(e))
    try:
        t09.generate()
        tab = table()
        names = [n for n, _ in tab["attrs"]]
        missing = [n for n in names if n not in classes]
        extra = [n for n in classes if n not in names]
        if missing or extra:
            ctx.broke("T", "classification", f"unclassified attributes {missing}; classified but not an attribute {extra}")
        build_table()
        toggled = {e["attr"] for e in TABLE}
        for n in names:
            c = classes.get(n, {}).get("class")
            if n not in toggled and n not in NOT_TOGGLED:
                ctx.broke("T", "toggle table", f"attribute {n} has no toggle experiment and no reason for being excluded")
            if n in NOT_TOGGLED and c not in ("inert", "key"):
                ctx.broke("T", "toggle table", f"attribute {n} is never toggled but classified {c}")
        # reads of options inside the analysis modules, per class (the Coq theorem every_option_read_is_keyed_or_classified
        # decides; this is the readable report)
        per: dict[str, int] = {}
        bad_reads = []
        for a, fs in tab["analysis_reads"]:
            c = classes.get(a, {}).get("class", "unclassified")
            per[c] = per.get(c, 0) + 1
            rev = set(classes.get(a, {}).get("analysis_reads_reviewed", []))
            if c not in ("key", "dir") and not (c == "inert" and set(fs) <= rev):
                bad_reads.append((a, c, sorted(set(fs) - rev)))
        ctx.cov["analysis_reads"] = {"attributes_read": len(tab["analysis_reads"]), "per_class": per,
                                     "read_sites": sum(len(fs) for _, fs in tab["analysis_reads"])}
        if bad_reads:
            ctx.broke("T", "analysis reads", f"options read in analysis modules that are neither keyed nor reviewed: {bad_reads}")
        ctx.cov["attributes"] = len(names)
        ctx.cov["classes"] = {c: sum(1 for v in classes.values() if v["class"] == c) for c in ("key", "dir", "post_load", "inert", "finding")}
    except Exception as e:  # noqa
        ctx.broke("T", "t09 translator", repr(e))
    ok = ctx.prove("C09/Properties.v", ["C09", "gen", "lib"])
    if not ok:
        out = ctx.eval_cases("failing", "From Coq Require Import String List.\nFrom C09 Require Import Table.\nOpen Scope string_scope.\n", ["failing"])
        if out:
            ctx.log("attributes whose classification contradicts the generated table:", out[0])
            ctx.broken[-1]["data"] = {"failing_attributes": out[0]}
    # C + S
    vs = select_variants(ctx.quick, ctx.seed)
    only = os.environ.get("VERIF_C09_ONLY")
    if only:
        # developer aid (mutation experiments): restrict the matrix; never set by bin/check or bin/setup
        vs = [v for v in vs if v["attr"] in only.split(",")]
        ctx.log(f"VERIF_C09_ONLY: matrix restricted to {len(vs)} variants")
    t = time.time()
    c0 = os.times()
    results = run_matrix(vs, vlib.NPROC, log=ctx.log, use_template=True)
    c1 = os.times()
    ctx.cov["matrix_cpu_s"] = round((c1.children_user + c1.children_system) - (c0.children_user + c0.children_system), 1)
    ctx.log(f"toggle matrix: {len(vs)} variants, {sum(r['runs'] for r in results)} mypy runs in {time.time()-t:.1f}s wall, {ctx.cov['matrix_cpu_s']}s CPU")
    judge(ctx, results, classes)
    predict(ctx, results, classes)
    for r in results[:400]:
        if r["cold_differ"] and r["attr"] in ("strict_optional", "show_column_numbers", "python_version", "warn_redundant_casts"):
            ctx.sample({"attr": r["attr"], "spelling": r["spelling"], "program": P[r["prog"]], "coldA": r["coldA"]["stdout"][:200],
                        "coldB": r["coldB"]["stdout"][:200], "stale": {d: x["stale"] for d, x in r["dirs"].items()}})


def replay(ctx: vlib.Ctx, path: str) -> None:
    d = json.load(open(path))
    rp = d.get("replay", {})
    print(json.dumps({k: rp.get(k) for k in ("attribute", "spelling", "program", "run1", "run2_same_cache", "cold_with_run2_options")}, indent=1)[:6000])
    attr = rp.get("attribute")
    if not attr:
        run(ctx)
        return
    build_table()
    vs = [v for e in TABLE if e["attr"] == attr for v in variants(e, True)]
    results = run_matrix(vs, vlib.NPROC, log=ctx.log, use_template=False)
    judge(ctx, results, classification())


def explore(argv: list[str]) -> None:
    """Developer entry: python -m harness.C09 [attr ...] [--thorough] -> /tmp/C09/results.json"""
    build_table()
    thorough = "--thorough" in argv
    names = [a for a in argv if not a.startswith("--")]
    vs = []
    for e in TABLE:
        if names and e["attr"] not in names:
            continue
        if not thorough and e.get("tier") == "thorough" and not names:
            continue
        vs += [v for v in variants(e, thorough) if "--all-spellings" in argv or v["spelling"] == (e.get("only") or ["config"])[0]]
    res = run_matrix(vs, vlib.NPROC, use_template="--truecold" not in argv)
    os.makedirs("/tmp/C09", exist_ok=True)
    json.dump(res, open("/tmp/C09/results.json", "w"), indent=1)
    for r in res:
        st = {k: ("STALE" if x["stale"] else "ok") for k, x in r["dirs"].items()}
        print(f"{r['attr']:34s} {r['spelling']:8s} {r['prog']:16s} cold_differ={r['cold_differ']!s:5s} {st}")


if __name__ == "__main__":
    explore(sys.argv[1:])
