"""C17 — configuration sources are equivalent and precedence is as documented.

T  tools/extractors/t17.py -> coq/gen/Flags.v (flag tables, option attributes, inversion rules)
P  coq/C17/Properties.v  (resolve_eq_spec, codes_eq_spec, clone_is_chain, glob_match_spec, table theorems, refutations)
C  model (vm_compute) vs real mypy, in-process:
     C1 pattern sets x module names  vs Options.clone_for_module
     C2 pattern x module             vs Options.compile_glob(...).match
     C3 flag tables / config_norm    vs the live argparse parser / parse_section
     C4 option x source              vs process_options (CLI, mypy.ini, setup.cfg, pyproject.toml), conflicting pairs
S  real mypy runs: same setting through every source gives the same diagnostics on a witness program;
   conflicting sources follow the documented precedence; the documented rule replayed on the refutation witnesses.
"""
from __future__ import annotations

import io
import itertools
import json
import os
import re
import shutil
import sys
import tempfile
from concurrent.futures import ThreadPoolExecutor
from typing import Any

import vlib
from extractors import t17

sys.path.insert(0, vlib.REPO)

HEADER = """From Coq Require Import List String Ascii Bool.
From C17 Require Import Model ProofsSort ProofsOptions ProofsFlags ProofsValues ProofsDiscovery.
From Gen Require Import Flags.
Import ListNotations.
Open Scope string_scope.
Definition encv (v : val) : nat := match v with VNum n => n | _ => 0 end.
Definition b2n (b : bool) : nat := if b then 1 else 0.
Definition probe (o : opts) : list nat := [encv (get o "x"); encv (get o "y"); b2n (en o "c"); b2n (dis o "c")].
Definition S1 := with_code_defaults [("x", VNum 1); ("enable_error_code", VList ["c"])].
Definition S2 := with_code_defaults [("x", VNum 2); ("y", VNum 2); ("disable_error_code", VList ["c"])].
Definition S3 := with_code_defaults [("y", VNum 3); ("enable_error_code", VList ["c"]); ("disable_error_code", VList ["c"])].
Definition S4 := with_code_defaults [("x", VNum 4)].
Definition MODS : list key := %MODS%.
Definition run (pmo : list (key * changes)) : list nat :=
  flat_map (fun m => probe (model_options dflt nocode nocode [] [] pmo None m)) MODS.
Definition runspec (pmo : list (key * changes)) : list nat :=
  flat_map (fun m => [encv (spec_resolve dflt [] [] pmo None m "x"); encv (spec_resolve dflt [] [] pmo None m "y");
                      b2n (fst (spec_code nocode nocode pmo None m "c")); b2n (snd (spec_code nocode nocode pmo None m "c"))]) MODS.
Definition show_cfg (r : cfg_res) : string :=
  match r with CSet d inv => (if inv then "!" else "=") ++ d | CNotBool => "notbool" | CUnrecognized => "unrec" | CStrict => "strict" end.
Fixpoint vis (s : string) : string :=
  match s with EmptyString => EmptyString | String a r => String (if is_ws a then "_"%char else a) (vis r) end.
Definition bar (l : list string) : string := vis (concat "" (map (fun x => x ++ "|") l)).
Definition show_pv (r : pv_res) : list nat := match r with PVOk a b => [1; a; b] | PVTooOld => [2] | PVError => [3] end.
Definition show_inl (r : inline_res) : string :=
  match r with IAccept d inv => (if inv then "!" else "=") ++ d | IRejectVersion => "version" | IRejectStrict => "strict"
             | IRejectReport => "report" | IUnrecognized => "unrec" | INotBool => "notbool" end.
Definition show_dir (s : string) : string :=
  let pe := split_directive s in
  (if snd pe then "E" else "-") ++ bar (map (fun e => fst (comment_entry e) ++ "#" ++ snd (comment_entry e)) (fst pe)).
Definition probe5 (o : opts) : list nat := probe o ++ [encv (get o "z")].
Definition R1 : changes := [("x", VNum 1); ("enable_error_code", VList ["c"])].
Definition R2 : changes := [("x", VNum 2); ("y", VNum 2); ("disable_error_code", VList ["c"])].
Definition R3 : changes := [("y", VNum 3)].
Definition R4 : changes := [("x", VNum 1); ("z", VNum 1)].
Definition R5 : changes := [("z", VNum 1); ("y", VNum 2)].
Definition TMODS : list key := [["a"]; ["b"]; ["a"; "b"]; ["c"]; ["a"; "c"; "b"]; ["b"; "b"]].
Definition run5 (pmo : list (key * changes)) : list nat :=
  flat_map (fun m => probe5 (model_options dflt nocode nocode [] [] pmo None m)) TMODS.
Definition keys_of (pmo : list (key * changes)) : list string := map (fun e => join_with "." (fst e)) pmo.
Definition show_toml (t : list (list key * changes)) : list string * list nat :=
  match pmo_of_toml t with None => (["<rejected>"], []) | Some pmo => (keys_of pmo, run5 pmo) end.
Definition show_ini (t : list (list key * changes)) : list string * list nat := (keys_of (pmo_of_ini t), run5 (pmo_of_ini t)).
Definition spec5 (t : list (list key * changes)) : list nat :=
  let pmo := flat_sections (map (fun s => (fst s, with_code_defaults (snd s))) t) in
  flat_map (fun m => [encv (spec_resolve dflt [] [] pmo None m "x"); encv (spec_resolve dflt [] [] pmo None m "y");
                      b2n (fst (spec_code nocode nocode pmo None m "c")); b2n (snd (spec_code nocode nocode pmo None m "c"));
                      encv (spec_resolve dflt [] [] pmo None m "z")]) TMODS.
Definition enc_found (r : option found) : nat :=
  match r with None => 0 | Some (InTree d i) => 100 + 10 * d + i | Some (UserFile i) => 200 + i end.
Definition A_ := FAbsent. Definition G_ := FPresent true true. Definition N_ := FPresent true false. Definition E_ := FPresent false false.
Definition mkdir (fs : list fdesc) (root : bool) : dirdesc := (combine (map snd candidate_names) fs, root).
Definition show_sp (s : string * (string * bool)) : string := fst s ++ " " ++ fst (snd s) ++ " " ++ (if snd (snd s) then "1" else "0").
"""

X_ATTR, Y_ATTR, CODE = "follow_imports", "always_true", "attr-defined"
SECTION_CONTENT = {
    1: {X_ATTR: 1, "enable_error_code": [CODE], "disable_error_code": []},
    2: {X_ATTR: 2, Y_ATTR: 2, "disable_error_code": [CODE], "enable_error_code": []},
    3: {Y_ATTR: 3, "enable_error_code": [CODE], "disable_error_code": [CODE]},
    4: {X_ATTR: 4, "enable_error_code": [], "disable_error_code": []},
}


def coq_key(s: str) -> str:
    return "[" + "; ".join('"' + c + '"' for c in s.split(".")) + "]"


def coq_pmo(secs: list[tuple[str, int]]) -> str:
    return "[" + "; ".join(f"({coq_key(p)}, S{j})" for p, j in secs) + "]"


def nums(s: str) -> list[int]:
    return [int(x) for x in re.findall(r"\d+", s)]


def strs(s: str) -> list[str]:
    return re.findall(r'"((?:[^"]|"")*)"', s)


# ------------------------------------------------------------------ C1: resolution

def real_resolve(secs: list[tuple[str, int]], mods: list[str]) -> list[int]:
    from mypy.options import Options
    from mypy.errorcodes import error_codes
    o = Options()
    for p, j in secs:
        o.per_module_options[p] = dict(SECTION_CONTENT[j])   # same statement as parse_config_file
    code = error_codes[CODE]
    out: list[int] = []
    for m in mods:
        c = o.clone_for_module(m)
        x = getattr(c, X_ATTR)
        y = getattr(c, Y_ATTR)
        out += [x if isinstance(x, int) else 0, y if isinstance(y, int) else 0,
                int(code in c.enabled_error_codes), int(code in c.disabled_error_codes)]
    return out


X_FILE = {1: "silent", 2: "skip", 4: "error"}


def real_resolve_via_file(secs: list[tuple[str, int]], mods: list[str], tmp: str) -> list[int]:
    """Same observation as real_resolve, but the sections go through a real mypy.ini and parse_config_file."""
    from mypy.options import Options
    from mypy import config_parser as CP
    from mypy.errorcodes import error_codes
    lines = ["[mypy]"]
    for n, (p, j) in enumerate(secs):
        lines.append(f"[mypy-zz{n},{p}]")          # distinct section names; the comma list carries the pattern
        c = SECTION_CONTENT[j]
        if X_ATTR in c:
            lines.append(f"follow_imports = {X_FILE[c[X_ATTR]]}")
        if Y_ATTR in c:
            lines.append(f"always_true = Y{c[Y_ATTR]}")
        if c["enable_error_code"]:
            lines.append("enable_error_code = " + ", ".join(c["enable_error_code"]))
        if c["disable_error_code"]:
            lines.append("disable_error_code = " + ", ".join(c["disable_error_code"]))
    path = os.path.join(tmp, "resolve.ini")
    with open(path, "w") as f:
        f.write("\n".join(lines) + "\n")
    o = Options()
    err = io.StringIO()
    CP.parse_config_file(o, lambda: None, path, stdout=err, stderr=err)
    code = error_codes[CODE]
    inv = {v: k for k, v in X_FILE.items()}
    out: list[int] = []
    for m in mods:
        c = o.clone_for_module(m)
        at = c.always_true
        out += [inv.get(c.follow_imports, 0), int(at[0][1:]) if at else 0,
                int(code in c.enabled_error_codes), int(code in c.disabled_error_codes)]
    return out


def gen_modules() -> list[str]:
    mods = []
    for d in (1, 2, 3):
        for t in itertools.product("ab", repeat=d):
            mods.append(".".join(t))
    return mods + ["c", "c.b", "a.c.b", "b.a.c"]


POOL_SMALL = ["a", "a.b", "a.b.a", "a.*", "a.b.*", "b.*", "*.b", "a.*.b", "*.a.*", "a.*.*", "*.*", "*"]
POOL_FULL = POOL_SMALL + ["b", "a.a", "b.a", "a.a.*", "b.a.*", "*.a", "a.*.a", "*.b.*", "b.*.a", "*.*.b", "a.b.b", "a.b.b.*"]


def resolution_stage(ctx: vlib.Ctx, tmp: str) -> None:
    rng = vlib.Rng(ctx.seed, "resolve")
    mods = gen_modules()
    cases: list[tuple[str, list[tuple[str, int]]]] = []     # (kind, sections)
    for p in POOL_FULL:
        for j in (1, 2, 3):
            cases.append(("nodup", [(p, j)]))
    for p, q in itertools.permutations(POOL_FULL, 2):
        cases.append(("nodup", [(p, 1), (q, 2)]))
        if ctx.quick and rng.random() < 0.5:
            continue
        cases.append(("nodup", [(p, 3), (q, 1)]))
    pool3 = POOL_SMALL if ctx.quick else POOL_FULL
    for t in itertools.permutations(pool3, 3):
        cases.append(("nodup", [(t[0], 1), (t[1], 2), (t[2], 3)]))
    for _ in range(ctx.n(600, 6000)):
        k = rng.choice([3, 4, 4, 5])
        ps = rng.sample(POOL_FULL, k)
        js = [rng.choice([1, 2, 3, 4]) for _ in ps]
        cases.append(("nodup", list(zip(ps, js))))
    # the same pattern in two sections (raw file order -> dict)
    dups: list[list[tuple[str, int]]] = []
    unstructured = [p for p in POOL_FULL if "*" in p[:-1]]
    for p in POOL_SMALL:
        for q in rng.sample(POOL_FULL, 6 if ctx.quick else len(POOL_FULL)):
            if q != p:
                dups.append([(p, 1), (q, 2), (p, 4)])
    n_nodup = len(cases)
    exprs = [f"run {coq_pmo(s)}" for _, s in cases]
    flat = lambda s: "[" + "; ".join(f"([{coq_key(p)}], S{j})" for p, j in s) + "]"   # noqa: E731
    exprs += [f"run (pmo_of_sections {flat(s)})" for s in dups]
    exprs += [f"runspec (flat_sections {flat(s)})" for s in dups]
    hdr = HEADER.replace("%MODS%", "[" + "; ".join(coq_key(m) for m in mods) + "]")
    res = ctx.eval_cases("resolve", hdr, exprs, per_file=ctx.n(500, 700))
    if res is None:
        return
    bad = 0
    nontriv = set()
    for (kind, s), r in zip(cases, res[:n_nodup]):
        model = nums(r)
        real = real_resolve(s, mods)
        if model != real:
            bad += 1
            if bad <= 5:
                i = next(i for i, (a, b) in enumerate(zip(model, real)) if a != b)
                ctx.broke("C", "clone_for_module vs model_options",
                          f"sections {s} module {mods[i // 4]} field {'xyed'[i % 4]}: model {model[i]} impl {real[i]}",
                          {"sections": s, "module": mods[i // 4]})
        for i in range(0, len(real), 4):
            if real[i:i + 4] != [0, 0, 0, 0]:
                nontriv.add((tuple(s), mods[i // 4]))
    via_file = 0
    for idx in range(0, n_nodup, 7):
        s = cases[idx][1]
        if real_resolve_via_file(s, mods, tmp) != nums(res[idx]):
            ctx.broke("C", "parse_config_file + clone_for_module vs model_options", f"sections {s} (through mypy.ini)", {"sections": s})
            break
        via_file += 1
    ctx.cov["resolution_section_sets_through_mypy_ini"] = via_file
    ctx.add("evaluations", n_nodup * len(mods))
    ctx.add("traces_validated_against_impl", n_nodup * len(mods))
    ctx.cov["resolution_section_sets"] = n_nodup
    ctx.cov["resolution_nontrivial"] = len(nontriv)
    ctx.sample({"sections": cases[n_nodup // 2][1], "modules": mods[:6], "impl(x,y,en,dis per module)": real_resolve(cases[n_nodup // 2][1], mods)[:24]})
    # duplicates: model of the dict (C) and the documented rule (S)
    nd = len(dups)
    for k, s in enumerate(dups):
        model = nums(res[n_nodup + k])
        spec = nums(res[n_nodup + nd + k])
        real = real_resolve_via_file(s, mods, tmp)       # through a real mypy.ini and parse_config_file
        if model != real:
            bad += 1
            if bad <= 5:
                ctx.broke("C", "per_module_options dict vs pmo_of_sections", f"sections {s}: model {model[:16]} impl {real[:16]}", {"sections": s})
        if spec != real:
            i = next(i for i, (a, b) in enumerate(zip(spec, real)) if a != b)
            ctx.violation("dup-pattern-later-section-does-not-win",
                          f"a pattern listed in two sections: per_module_options[pattern] is REPLACED by the later section and keeps the file "
                          f"position of the first one; sections (file order, S1..S4 = settings) {s}, module {mods[i // 4]}, field {'xyed'[i % 4]} "
                          f"(x, y, code enabled, code disabled): documented rule gives {spec[i]}, clone_for_module gives {real[i]}",
                          {"kind": "dup_pattern", "sections": s, "module": mods[i // 4], "field": i % 4, "documented": spec[i], "impl": real[i]})
    ctx.add("evaluations", nd * len(mods))
    ctx.cov["dup_pattern_section_lists"] = nd


# ------------------------------------------------------------------ C2: matcher

def matcher_stage(ctx: vlib.Ctx) -> None:
    from mypy.options import Options
    o = Options()
    pats = [".".join(t) for d in (1, 2, 3, 4) for t in itertools.product(["a", "b", "*"], repeat=d)]
    mods = [".".join(t) for d in (1, 2, 3, 4) for t in itertools.product("ab", repeat=d)] + ["", "a.", ".a", "a..b"]
    hdr = HEADER.replace("%MODS%", "[" + "; ".join(coq_key(m) for m in mods) + "]")
    exprs = [f"map (fun m => b2n (glob_match {coq_key(p)} m)) MODS" for p in pats]
    res = ctx.eval_cases("glob", hdr, exprs, per_file=40)
    if res is None:
        return
    bad = 0
    matched = 0
    for p, r in zip(pats, res):
        rx = o.compile_glob(p)
        real = [int(bool(rx.match(m))) for m in mods]
        matched += sum(real)
        if nums(r) != real:
            bad += 1
            if bad <= 5:
                i = next(i for i, (a, b) in enumerate(zip(nums(r), real)) if a != b)
                ctx.broke("C", "compile_glob vs glob_match", f"pattern {p} module {mods[i]!r}: model {nums(r)[i]} impl {real[i]}", {"pattern": p, "module": mods[i]})
    # classification of keys on real strings (the component reading of the string tests)
    exprs = [f"[b2n (is_unstructured {coq_key(p)}); b2n (ends_dot_star {coq_key(p)})]" for p in pats]
    res2 = ctx.eval_cases("class", hdr, exprs, per_file=200)
    if res2 is not None:
        for p, r in zip(pats, res2):
            real = [int("*" in p[:-1]), int(p.endswith(".*"))]
            if nums(r) != real:
                ctx.broke("C", "key classification", f"{p}: model {nums(r)} impl {real}")
                break
    # sorted() on real strings vs key_leb
    keys = [p for p in pats if p.endswith(".*") and "*" not in p[:-1]] + ["a.$b.*", "a.B.*", "a._b.*", "a.b1.*", "a.ba.*", "a..*", "a.é.*".encode().decode()]
    keys = [k for k in keys if all(ord(c) < 128 for c in k)]
    exprs = ["map (fun k => map (fun k2 => b2n (key_leb k k2)) [" + "; ".join(coq_key(k) for k in keys) + "]) [" + "; ".join(coq_key(k) for k in keys) + "]"]
    res3 = ctx.eval_cases("sort", hdr, exprs)
    if res3 is not None:
        real = [int(a <= b) for a in keys for b in keys]
        if nums(res3[0]) != real:
            ctx.broke("C", "sorted() order vs key_leb", f"order of {keys} differs")
    ctx.add("evaluations", len(pats) * len(mods))
    ctx.add("traces_validated_against_impl", len(pats) * len(mods))
    ctx.cov["matcher_pairs"] = len(pats) * len(mods)
    ctx.cov["matcher_pairs_matching"] = matched
    # S: the documented pattern language ("stars match zero or more module components") on the implementation
    import mypy.options as MO
    oo = MO.Options()
    oo.per_module_options["*.b"] = {"ignore_errors": True, "enable_error_code": [], "disable_error_code": []}
    if not oo.clone_for_module("b").ignore_errors and oo.clone_for_module("a.b").ignore_errors:
        ctx.violation("leading-star-does-not-match-zero-components",
                      "config_file.rst: 'Stars match zero or more module components', but section [mypy-*.b] does not apply to the "
                      "top-level module b (compile_glob('*.b') = '.*\\.b\\Z' needs one component before '.b')",
                      {"kind": "leading_star", "pattern": "*.b", "module": "b"})
    oo = MO.Options()
    oo.per_module_options["*"] = {"ignore_errors": True, "enable_error_code": [], "disable_error_code": []}
    if not oo.clone_for_module("a").ignore_errors:
        ctx.violation("bare-star-pattern-matches-nothing",
                      "section [mypy-*] is accepted but applies to no module: build_per_module_cache classifies the key '*' as a concrete "
                      "module name ('*' in k[:-1] is False, k.endswith('.*') is False); [mypy-*.*] matches every module",
                      {"kind": "bare_star", "pattern": "*", "module": "a"})


# ------------------------------------------------------------------ C3: tables

def live_bool_spellings() -> list[tuple[str, str, bool]]:
    import argparse
    from mypy import main as M
    parser, _, _ = M.define_options()
    rows = []
    for a in parser._actions:
        if isinstance(a, (argparse._StoreTrueAction, argparse._StoreFalseAction)):
            for s in a.option_strings:
                if s.startswith("--"):
                    rows.append((s, a.dest, isinstance(a, argparse._StoreTrueAction)))
    return rows


def real_cfg(key: str) -> str:
    import configparser
    from mypy import config_parser as CP
    from mypy.options import Options
    cp = configparser.RawConfigParser()
    cp["mypy"] = {key: "True"}
    err = io.StringIO()
    strict: list[int] = []
    res, _ = CP.parse_section("", Options(), lambda: strict.append(1), cp["mypy"], CP.ini_config_types, err)
    res = {k: v for k, v in res.items() if k not in ("disable_error_code", "enable_error_code")}
    if strict:
        return "strict"
    if not res:
        return "notbool" if ("Can not invert" in err.getvalue()) else "unrec"
    (k, v), = res.items()
    if v is True:
        return "=" + k
    if v is False:
        return "!" + k
    return "notbool"


def tables_stage(ctx: vlib.Ctx) -> list[tuple[str, str, bool]]:
    from mypy import main as M
    from mypy.options import Options, PER_MODULE_OPTIONS
    hdr = HEADER.replace("%MODS%", "[]")
    live = live_bool_spellings()
    try:
        tb = t17.tables()
    except Exception as e:  # noqa  (already reported by stage T; the stale generated tables are still compared below)
        ctx.log("t17.tables() failed:", repr(e)[:200])
        tb = {"options": {"attrs": {}, "per_module": sorted(PER_MODULE_OPTIONS)}}
    o = Options()
    # extracted attribute table vs the live object
    for k, kind in tb["options"]["attrs"].items():
        if not hasattr(o, k):
            ctx.broke("T", "option_attrs", f"extracted attribute {k} not on Options()")
            break
        v = getattr(o, k)
        want = "ABool " + str(v).lower() if isinstance(v, bool) else ("ANone" if v is None else "AOther")
        if want != kind:
            ctx.broke("T", "option_attrs", f"attribute {k}: extracted {kind}, live {want}")
            break
    missing = [k for k in vars(o) if k not in tb["options"]["attrs"]] if tb["options"]["attrs"] else []
    if missing:
        ctx.broke("T", "option_attrs", f"live attributes not extracted: {missing[:5]}")
    if set(tb["options"]["per_module"]) != set(PER_MODULE_OPTIONS):
        ctx.broke("T", "per_module_options", "extracted PER_MODULE_OPTIONS differs from the live set")
    keys = sorted({s[2:].replace("-", "_") for s, _, _ in live}
                  | {p + k for k, v in vars(o).items() if isinstance(v, bool) for p in ("", "no_")}
                  | {k[3:] for k, v in vars(o).items() if isinstance(v, bool) and k.startswith("disallow_")}
                  | {"dis" + k for k, v in vars(o).items() if isinstance(v, bool) and k.startswith("allow_")}
                  | {"show_" + k[5:] for k in vars(o) if k.startswith("hide_")} | {"hide_" + k[5:] for k in vars(o) if k.startswith("show_")}
                  | {"x_foo", "no_python_version", "no_snapshot", "python_version", "strict", "no_strict", "allow_redefinition_new",
                     "no_allow_redefinition_new", "no_no_site_packages", "no_config_file", "cache_dir", "no_cache_dir"})
    exprs = ["map show_sp all_cli_spellings", "map show_cfg (map cfg [" + "; ".join('"' + k + '"' for k in keys) + "])", "cli_only"]
    flags = [s for s, _, _ in live]
    exprs.append("map (invert_flag_name flag_prefix_pairs) [" + "; ".join('"' + f + '"' for f in flags) + "]")
    res = ctx.eval_cases("tables", hdr, exprs)
    if res is None:
        return live
    model_sp = sorted(set(strs(res[0])))
    live_sp = sorted({f"{s} {d} {int(v)}" for s, d, v in live})
    if model_sp != live_sp:
        diff = sorted(set(model_sp) ^ set(live_sp))
        ctx.broke("C", "all_cli_spellings vs argparse actions", f"differ on {diff[:6]}", {"diff": diff})
    model_cfg = strs(res[1])
    nbad = 0
    inverted = 0
    for k, m in zip(keys, model_cfg):
        r = real_cfg(k)
        inverted += r.startswith("!")
        # a key that exists but does not take a boolean: the model says "notbool", the implementation prints a
        # type error or "Can not invert" and sets nothing -- both are "rejected"
        norm = lambda t: "rejected" if t in ("notbool", "unrec") else t   # noqa: E731
        if norm(r) != norm(m):
            nbad += 1
            if nbad <= 5:
                ctx.broke("C", "config_norm vs parse_section", f"key {k}: model {m} impl {r}", {"key": k})
    inv_model = strs(res[3])
    for f, m in zip(flags, inv_model):
        if M.invert_flag_name(f) != m:
            ctx.broke("C", "invert_flag_name", f"{f}: model {m} impl {M.invert_flag_name(f)}")
            break
    ctx.cov["cli_only_spellings"] = strs(res[2])
    ctx.cov["bool_cli_spellings"] = len(live)
    ctx.cov["config_keys_checked"] = len(keys)
    ctx.add("evaluations", len(keys) + len(live) + len(flags))
    ctx.add("traces_validated_against_impl", len(keys) + len(live) + len(flags))
    ctx.cov["config_keys_inverting"] = inverted
    return live


# ------------------------------------------------------------------ C4: option x source through process_options

IGNORED_ATTRS = {"config_file", "per_module_options", "_per_module_cache", "_glob_options", "_unused_configs", "python_executable"}


def run_process_options(args: list[str], cwd: str) -> tuple[dict[str, Any] | None, str]:
    from mypy import main as M
    out, err = io.StringIO(), io.StringIO()
    old = os.getcwd()
    os.chdir(cwd)
    try:
        import contextlib
        with contextlib.redirect_stdout(out):      # process_options print()s deprecation warnings
            _, opts = M.process_options(args + ["-c", "pass"], stdout=out, stderr=err)
        d = {k: (sorted(map(str, v)) if isinstance(v, (set, frozenset)) else v) for k, v in vars(opts).items() if k not in IGNORED_ATTRS}
        return d, out.getvalue() + err.getvalue()
    except SystemExit:
        return None, out.getvalue() + err.getvalue()
    finally:
        os.chdir(old)


def write_cfg(d: str, kind: str, glob: dict[str, Any], sections: list[tuple[str, dict[str, Any]]] = ()) -> str:   # type: ignore[assignment]
    def ini_val(v: Any) -> str:
        return ", ".join(v) if isinstance(v, list) else str(v)

    def toml_val(v: Any) -> str:
        if isinstance(v, bool):
            return "true" if v else "false"
        if isinstance(v, list):
            return "[" + ", ".join(json.dumps(x) for x in v) + "]"
        return json.dumps(v)
    if kind in ("mypy.ini", "setup.cfg"):
        lines = ["[mypy]"] + [f"{k} = {ini_val(v)}" for k, v in glob.items()]
        for pat, ch in sections:
            lines += [f"[mypy-{pat}]"] + [f"{k} = {ini_val(v)}" for k, v in ch.items()]
    else:
        lines = ["[tool.mypy]"] + [f"{k} = {toml_val(v)}" for k, v in glob.items()]
        for pat, ch in sections:
            lines += ["[[tool.mypy.overrides]]", f"module = {json.dumps(pat)}"] + [f"{k} = {toml_val(v)}" for k, v in ch.items()]
    p = os.path.join(d, kind)
    with open(p, "w") as f:
        f.write("\n".join(lines) + "\n")
    return p


CFG_KINDS = ["mypy.ini", "setup.cfg", "pyproject.toml"]


def sources_stage(ctx: vlib.Ctx, live: list[tuple[str, str, bool]], tmp: str) -> None:
    rng = vlib.Rng(ctx.seed, "sources")
    base, _ = run_process_options(["--config-file="], tmp)
    assert base is not None
    n = 0
    effective = 0
    skipped = []
    spell = [(s, d, v) for s, d, v in live if s not in ("--help", "--version")]
    inv_of = {}
    for s, d, v in live:
        for s2, d2, v2 in live:
            if d2 == d and v2 != v:
                inv_of[s] = s2
    for s, dest, val in spell:
        cli, msg = run_process_options(["--config-file=", s], tmp)
        n += 1
        if cli is None:
            skipped.append(s)
            continue
        key = s[2:].replace("-", "_")
        model = real_cfg(key)          # already tied to the Coq config_norm by tables_stage
        if not dest.startswith("special-opts:") and cli.get(dest) is not val:
            ctx.broke("C", "argparse store", f"{s}: Options.{dest} = {cli.get(dest)!r}, table says {val}")
        if cli != base:
            effective += 1
        if model in ("unrec", "notbool"):
            continue
        for kind in CFG_KINDS:
            d = tempfile.mkdtemp(dir=tmp)
            p = write_cfg(d, kind, {key: True})
            cf, msg = run_process_options(["--config-file", p], tmp)
            n += 1
            if cf is None:
                ctx.broke("C", "process_options", f"{kind} with {key} = True fails: {msg[-200:]}")
                continue
            if cf != cli and s not in ("--no-site-packages",):
                diff = {k: (cli.get(k), cf.get(k)) for k in set(cli) | set(cf) if cli.get(k) != cf.get(k)}
                # the strict set is applied at different times for CLI and config but must give the same object
                ctx.violation(f"source-equivalence:{s}:{kind}",
                              f"`{s}` on the command line and `{key} = True` in {kind} give different Options: {diff}",
                              {"kind": "source_equivalence", "flag": s, "file": kind, "key": key, "diff": {k: [repr(a), repr(b)] for k, (a, b) in diff.items()}})
            # conflicting pair: the config file says key = True, the command line says the opposite
            if s in inv_of:
                both, msg = run_process_options(["--config-file", p, inv_of[s]], tmp)
                only, _ = run_process_options(["--config-file=", inv_of[s]], tmp)
                n += 2
                if both is not None and only is not None and both != only and s != "--strict":
                    diff = {k: (only.get(k), both.get(k)) for k in set(only) | set(both) if only.get(k) != both.get(k)}
                    ctx.violation(f"cli-over-config:{s}:{kind}",
                                  f"command line `{inv_of[s]}` does not override `{key} = True` of {kind}: {diff}",
                                  {"kind": "cli_over_config", "flag": inv_of[s], "file": kind, "key": key, "diff": {k: [repr(a), repr(b)] for k, (a, b) in diff.items()}})
            shutil.rmtree(d, ignore_errors=True)
    ctx.add("evaluations", n)
    ctx.add("traces_validated_against_impl", n)
    ctx.cov["process_options_runs"] = n
    ctx.cov["spellings_changing_options"] = effective
    ctx.cov["spellings_rejected_by_argparse_alone"] = skipped
    ctx.sample({"flag": spell[0][0], "dest": spell[0][1], "value": spell[0][2], "config": real_cfg(spell[0][0][2:].replace("-", "_"))})



# ------------------------------------------------------------------ C5: value-typed options, strict, inline comments

def coq_lit(x: str) -> str:
    return '"' + x.replace('"', '""') + '"'


def all_strings(alphabet: str, maxlen: int) -> list[str]:
    return ["".join(t) for n in range(maxlen + 1) for t in itertools.product(alphabet, repeat=n)]


def values_stage(ctx: vlib.Ctx, tmp: str) -> None:
    from mypy import config_parser as CP
    from mypy import main as M
    from mypy.options import Options, PER_MODULE_OPTIONS
    hdr = HEADER.replace("%MODS%", "[]")
    bar = lambda l: "".join(x + "|" for x in l).replace(" ", "_")   # noqa: E731  (the output normaliser collapses runs of blanks)
    # (a) conversion functions, exhaustively on short strings
    strs_l = all_strings("AB,: ", ctx.n(4, 5))
    lit = "[" + "; ".join(coq_lit(x) for x in strs_l) + "]"
    convs = [
        ("ini_list", "fun s => bar (ini_list s)", lambda x: bar(CP.ini_config_types["always_true"](x))),
        ("try_split(,)", "fun s => bar (try_split_str is_comma s)", lambda x: bar(CP.try_split(x))),
        ("try_split([,:])", "fun s => bar (try_split_str is_comma_colon s)", lambda x: bar(CP.try_split(x, "[,:]"))),
        ("ini mypy_path", "fun s => bar (map strip (split_by is_comma_colon s))", lambda x: bar(CP.ini_config_types["mypy_path"](x))),
        ("str_or_array_as_list", "fun s => bar (str_or_array_str s)", lambda x: bar(CP.str_or_array_as_list(x))),
        ("ini exclude", "fun s => bar (ini_exclude s)", lambda x: bar(CP.ini_config_types["exclude"](x))),
        ("try_split(list)", "fun s => bar (try_split_list (split_by is_comma_colon s))", lambda x: bar(CP.try_split(re.split("[,:]", x)))),
        ("str_or_array_as_list(list)", "fun s => bar (str_or_array_list (split_by is_comma_colon s))", lambda x: bar(CP.str_or_array_as_list(re.split("[,:]", x)))),
    ]
    vers = sorted(set(all_strings("2379.0a", 4)) | {"3.10", "3.12", "3.100", "3.09", "3.010", "2.70", "3.9.1", "33.1", "3.1 ", " 3.12"})
    vlit = "[" + "; ".join(coq_lit(x) for x in vers) + "]"
    dirs = all_strings('a-,=" ', ctx.n(4, 5))
    dlit = "[" + "; ".join(coq_lit(x) for x in dirs) + "]"
    exprs = [f"map ({f}) {lit}" for _, f, _ in convs] + [f"map (fun s => show_pv (parse_version python3_min_minor s)) {vlit}", f"map show_dir {dlit}",
                                                         "map (fun dv : string * bool => fst dv ++ (if snd dv then \"=1\" else \"=0\")) the_strict_set", "inline_accepted_globals"]
    res = ctx.eval_cases("values", hdr, exprs, per_file=1)
    if res is None:
        return
    n = 0
    for (name, _, real), r in zip(convs, res):
        model = strs(r)
        if len(model) != len(strs_l):
            ctx.broke("C", f"conversion {name}", f"parsed {len(model)} results for {len(strs_l)} inputs")
            continue
        for x, m in zip(strs_l, model):
            n += 1
            if real(x) != m:
                ctx.broke("C", f"conversion {name}", f"input {x!r}: model {m!r} impl {real(x)!r}", {"input": x})
                break
    # parse_version
    pv = re.findall(r"\[([\d; ]*)\]", res[len(convs)][1:-1])
    for x, m in zip(vers, pv):
        n += 1
        try:
            a, b = CP.parse_version(x)
            real = [1, a, b]
        except CP.VersionTypeError:
            real = [2]
        except Exception:  # noqa
            real = [3]
        if nums(m) != real:
            ctx.broke("C", "parse_version", f"input {x!r}: model {nums(m)} impl {real}", {"input": x})
            break
    if len(pv) != len(vers):
        ctx.broke("C", "parse_version", f"parsed {len(pv)} results for {len(vers)} inputs")
    # split_directive + mypy_comments_to_config_map
    o = Options()
    md = strs(res[len(convs) + 1])
    if len(md) != len(dirs):
        ctx.broke("C", "split_directive", f"parsed {len(md)} results for {len(dirs)} inputs")
    for x, m in zip(dirs, md):
        n += 1
        m = m.replace('""', '"')
        opts, errs = CP.mypy_comments_to_config_map(x, o)
        model_pairs: dict[str, str] = {}
        for item in m[1:].split("|")[:-1]:
            k, _, v = item.partition("#")
            model_pairs[k] = v
        opts = {k.replace(" ", "_"): v.replace(" ", "_") for k, v in opts.items()}
        if (m[0] == "E") != bool(errs) or model_pairs != opts:
            ctx.broke("C", "split_directive/mypy_comments_to_config_map", f"line {x!r}: model {m!r} impl {opts} {errs}", {"line": x})
            break
    ctx.cov["conversion_inputs"] = n
    ctx.add("evaluations", n)
    ctx.add("traces_validated_against_impl", n)
    # (b) the strict set
    _, _, strict_assign = M.define_options()
    live_strict = [f"{d}={int(v)}" for d, v in strict_assign]
    if strs(res[len(convs) + 2]) != live_strict:
        ctx.broke("C", "the_strict_set vs strict_flag_assignments", f"model {strs(res[len(convs) + 2])} impl {live_strict}")
    ctx.cov["strict_set"] = live_strict
    ctx.cov["inline_accepted_global_options"] = strs(res[len(convs) + 3])

    # (c) value-typed options through process_options: CLI vs mypy.ini vs setup.cfg vs pyproject.toml
    saved = os.environ.pop("MYPY_CACHE_DIR", None)
    VAL: list[tuple[str, list[str], dict[str, Any] | None, list[dict[str, Any]]]] = [
        # (name, CLI args, ini global (None = no ini form), toml globals (several spellings))
        ("python_version", ["--python-version", "3.11"], {"python_version": "3.11"}, [{"python_version": "3.11"}]),
        ("platform", ["--platform", "win32"], {"platform": "win32"}, [{"platform": "win32"}]),
        ("always_true", ["--always-true", "A", "--always-true", "B"], {"always_true": "A, B"}, [{"always_true": ["A", "B"]}, {"always_true": "A,B"}]),
        ("always_false", ["--always-false", "A"], {"always_false": "A"}, [{"always_false": ["A"]}, {"always_false": "A"}]),
        ("disable_error_code", ["--disable-error-code", "misc", "--disable-error-code", "attr-defined"], {"disable_error_code": "misc,attr-defined"},
         [{"disable_error_code": ["misc", "attr-defined"]}, {"disable_error_code": "misc, attr-defined"}]),
        ("enable_error_code", ["--enable-error-code", "truthy-bool"], {"enable_error_code": "truthy-bool"}, [{"enable_error_code": ["truthy-bool"]}]),
        ("exclude", ["--exclude", "foo"], {"exclude": "foo"}, [{"exclude": "foo"}, {"exclude": ["foo"]}]),
        ("exclude2", ["--exclude", "foo", "--exclude", "bar"], None, [{"exclude": ["foo", "bar"]}]),
        ("follow_imports", ["--follow-imports", "skip"], {"follow_imports": "skip"}, [{"follow_imports": "skip"}]),
        ("cache_dir", ["--cache-dir", "cdir"], {"cache_dir": "cdir"}, [{"cache_dir": "cdir"}]),
        ("custom_typing_module", ["--custom-typing-module", "mytyping"], {"custom_typing_module": "mytyping"}, [{"custom_typing_module": "mytyping"}]),
        ("junit_xml", ["--junit-xml", "j.xml"], {"junit_xml": "j.xml"}, [{"junit_xml": "j.xml"}]),
        ("junit_format", ["--junit-format", "per_file"], {"junit_format": "per_file"}, [{"junit_format": "per_file"}]),
        ("enable_incomplete_feature", ["--enable-incomplete-feature", "PreciseTupleTypes"], {"enable_incomplete_feature": "PreciseTupleTypes"},
         [{"enable_incomplete_feature": ["PreciseTupleTypes"]}]),
        ("untyped_calls_exclude", ["--untyped-calls-exclude", "a.b", "--untyped-calls-exclude", "c"], {"untyped_calls_exclude": "a.b, c"},
         [{"untyped_calls_exclude": ["a.b", "c"]}]),
        ("strict", ["--strict"], {"strict": True}, [{"strict": True}]),
        ("strict+explicit", ["--strict", "--allow-untyped-defs"], {"strict": True, "allow_untyped_defs": True}, [{"allow_untyped_defs": True, "strict": True}]),
        ("mypy_path", [], {"mypy_path": "a:b, c"}, [{"mypy_path": ["a", "b", "c"]}, {"mypy_path": "a:b, c"}]),
        ("plugins-none", [], {"warn_unused_configs": True}, [{"warn_unused_configs": True}]),
    ]
    runs = 0
    try:
        for name, cli, ini, tomls in VAL:
            results: list[tuple[str, dict[str, Any] | None, str]] = []
            if cli:
                results.append(("cli",) + run_process_options(["--config-file="] + cli, tmp))
            if ini is not None:
                for kind in ("mypy.ini", "setup.cfg"):
                    d = tempfile.mkdtemp(dir=tmp)
                    results.append((kind,) + run_process_options(["--config-file", write_cfg(d, kind, ini)], tmp))
            for k, t in enumerate(tomls):
                d = tempfile.mkdtemp(dir=tmp)
                results.append((f"pyproject.toml#{k}",) + run_process_options(["--config-file", write_cfg(d, "pyproject.toml", t)], tmp))
            runs += len(results)
            ref_label, ref, msg = results[0]
            if ref is None:
                ctx.broke("C", "process_options (values)", f"{name} via {ref_label} fails: {msg[-200:]}")
                continue
            if name not in ("plugins-none",) and ref == run_process_options(["--config-file="], tmp)[0]:
                ctx.broke("C", "process_options (values)", f"{name} via {ref_label} has no effect on Options")
            for label, got, msg in results[1:]:
                if got is None:
                    ctx.violation(f"value-source:{name}:{label}", f"{name}: accepted via {ref_label} but {label} fails: {msg[-300:]}",
                                  {"kind": "value_source", "option": name, "source": label})
                elif got != ref:
                    diff = {k: [repr(ref.get(k)), repr(got.get(k))] for k in set(ref) | set(got) if ref.get(k) != got.get(k)}
                    ctx.violation(f"value-source:{name}:{label.split('#')[0]}",
                                  f"{name}: {ref_label} and {label} give different Options: {diff}",
                                  {"kind": "value_source", "option": name, "source": label, "reference": ref_label, "diff": diff})
        # strict precedence (model = Properties.strict_precedence): explicit [mypy] key beats strict = True of the same
        # section whatever the order; --strict beats an explicit [mypy] key; strict = True of a per-module section sets GLOBAL flags
        d = tempfile.mkdtemp(dir=tmp)
        a, _ = run_process_options(["--config-file", write_cfg(d, "mypy.ini", {"disallow_untyped_defs": False, "strict": True})], tmp)
        b, _ = run_process_options(["--config-file", write_cfg(d, "setup.cfg", {"strict": True, "disallow_untyped_defs": False})], tmp)
        c, _ = run_process_options(["--config-file", write_cfg(d, "pyproject.toml", {"disallow_untyped_defs": False}), "--strict"], tmp)
        e, _ = run_process_options(["--config-file", write_cfg(d, "mypy.ini", {"warn_return_any": False}, [("foo.*", {"strict": True})])], tmp)
        runs += 4
        obs = [a and a["disallow_untyped_defs"], b and b["disallow_untyped_defs"], c and c["disallow_untyped_defs"], e and e["warn_return_any"], e and e["disallow_untyped_defs"]]
        if obs != [False, False, True, True, True]:
            ctx.broke("C", "strict precedence vs global_get_strict", f"observed {obs}, model [False, False, True, True, True]")
        ctx.cov["per_module_strict_sets_global_flags"] = bool(e and e["disallow_untyped_defs"])
    finally:
        if saved is not None:
            os.environ["MYPY_CACHE_DIR"] = saved
    ctx.add("evaluations", runs)
    ctx.add("traces_validated_against_impl", runs)
    ctx.cov["value_option_runs"] = runs
    ctx.cov["value_options"] = [v[0] for v in VAL]

    # (d) inline comments: acceptance table vs parse_mypy_comments
    keys = sorted({k for k in vars(o)} | {"no_" + k for k, v in vars(o).items() if isinstance(v, bool)}
                  | {k[3:] for k in vars(o) if k.startswith("disallow_")} | {"python_version", "strict", "no_strict", "x_y", "bogus", "linecount_report"})
    keys = [k for k in keys if not k.startswith("_") and k.lower() == k]
    res2 = ctx.eval_cases("inline", hdr, ["map (fun k => show_inl (inl k)) [" + "; ".join(coq_lit(k) for k in keys) + "]"])
    if res2 is not None:
        model = strs(res2[0])
        bad = 0
        accepted_global = []
        for k, m in zip(keys, model):
            ch, errs = CP.parse_mypy_comments([(1, k.replace("_", "-"))], o)
            ch = {a: b for a, b in ch.items() if a not in ("enable_error_code", "disable_error_code")}
            text = " ".join(e for _, e in errs)
            if "python_version not supported" in text:
                r = "version"
            elif 'Setting "strict" not supported' in text:
                r = "strict"
            elif len(ch) == 1 and list(ch.values())[0] is True:
                r = "=" + list(ch)[0]
            elif len(ch) == 1 and list(ch.values())[0] is False:
                r = "!" + list(ch)[0]
            else:
                r = "rejected"
            if r.startswith(("=", "!")) and r[1:] not in PER_MODULE_OPTIONS:
                accepted_global.append(k)
            mm = m if m in ("version", "strict") or m.startswith(("=", "!")) else "rejected"
            if r != mm:
                bad += 1
                if bad <= 5:
                    ctx.broke("C", "inline_norm vs parse_mypy_comments", f"key {k}: model {m} impl {r} ({text[:80]})", {"key": k})
        ctx.add("evaluations", len(keys))
        ctx.add("traces_validated_against_impl", len(keys))
        ctx.cov["inline_keys_checked"] = len(keys)
        ctx.cov["inline_boolean_keys_accepted_though_not_per_module"] = len(accepted_global)
    # an inline comment must never make the parser raise (config files report the same mistake as an error message)
    for line in ["ignore-errors, Ignore-Errors", "ignore-errors, IGNORE_ERRORS=False"]:
        try:
            CP.parse_mypy_comments([(1, line)], o)
        except Exception as ex:  # noqa
            ctx.violation("inline-duplicate-option-differing-in-case-crashes",
                          f"`# mypy: {line}` makes parse_mypy_comments raise {type(ex).__name__} (mypy reports INTERNAL ERROR); the same two keys in a "
                          f"mypy.ini section are reported as a configuration error: {ex}",
                          {"kind": "inline_crash", "line": line, "exception": repr(ex)})
            break


# ------------------------------------------------------------------ C6: mypy.ini <-> pyproject.toml translation of per-module sections

RAW = {
    1: {"follow_imports": "silent", "enable_error_code": [CODE]},
    2: {"follow_imports": "skip", "always_true": ["Y2"], "disable_error_code": [CODE]},
    3: {"always_true": ["Y3"]},
    4: {"follow_imports": "silent", "ignore_errors": True},
    5: {"ignore_errors": True, "always_true": ["Y2"]},
}
TMODS = ["a", "b", "a.b", "c", "a.c.b", "b.b"]
TPOOL = [["a"], ["b"], ["a.b"], ["c"], ["a.*"], ["*.b"], ["a.*.b"], ["a", "b"], ["b", "a"], ["a", "a.b"], ["c", "*.b"], ["a.*", "b"], ["a", "b", "c"]]


def observe_file(path: str) -> tuple[list[str], list[int], str]:
    """(keys of per_module_options in order, observables of clone_for_module for TMODS, messages) after the REAL parse_config_file."""
    from mypy.options import Options
    from mypy import config_parser as CP
    from mypy.errorcodes import error_codes
    o = Options()
    err = io.StringIO()
    CP.parse_config_file(o, lambda: None, path, stdout=err, stderr=err)
    if o.config_file is None:
        return ["<rejected>"], [], err.getvalue()
    code = error_codes[CODE]
    xs = {"silent": 1, "skip": 2}
    out: list[int] = []
    for m in TMODS:
        c = o.clone_for_module(m)
        at = c.always_true
        out += [xs.get(c.follow_imports, 0), int(at[0][1:]) if at else 0, int(code in c.enabled_error_codes),
                int(code in c.disabled_error_codes), int(bool(c.ignore_errors))]
    return list(o.per_module_options), out, err.getvalue()


def translation_stage(ctx: vlib.Ctx, tmp: str) -> None:
    rng = vlib.Rng(ctx.seed, "translate")
    tables_all = [(ms, j) for ms in TPOOL for j in RAW]
    cases: list[list[tuple[list[str], int]]] = []
    pairs = list(itertools.permutations(tables_all, 2))
    if ctx.quick:
        # every pair in which some module is listed in both tables (the merge path), a sample of the others
        rep = [p for p in pairs if set(p[0][0]) & set(p[1][0])]
        oth = [p for p in pairs if not (set(p[0][0]) & set(p[1][0]))]
        pairs = rng.sample(rep, min(len(rep), 700)) + rng.sample(oth, 300)
    cases += [list(p) for p in pairs]
    for _ in range(ctx.n(500, 6000)):
        cases.append([rng.choice(tables_all) for _ in range(rng.choice([3, 3, 4]))])
    cq = lambda t: "[" + "; ".join("([" + "; ".join(coq_key(m) for m in ms) + f"], R{j})" for ms, j in t) + "]"   # noqa: E731
    exprs = []
    for t in cases:
        exprs += [f"show_toml {cq(t)}", f"show_ini {cq(t)}", f"spec5 {cq(t)}"]
    hdr = HEADER.replace("%MODS%", "[]")
    res = ctx.eval_cases("translate", hdr, exprs, per_file=ctx.n(600, 900))
    if res is None:
        return
    d = tempfile.mkdtemp(dir=tmp)
    bad = 0
    n_rep = n_rej = 0
    for i, t in enumerate(cases):
        mt, mi, ms = res[3 * i], res[3 * i + 1], nums(res[3 * i + 2])
        secs = [(",".join(ms_), RAW[j]) for ms_, j in t]
        toml_path = write_cfg(d, "pyproject.toml", {}, [(ms_ if len(ms_) > 1 else ms_[0], RAW[j]) for ms_, j in t])
        tk, tv, tmsg = observe_file(toml_path)
        allm = [m for ms_, _ in t for m in ms_]
        repeated = len(allm) != len(set(allm))
        n_rep += repeated
        n_rej += tk == ["<rejected>"]
        model_t = (strs(mt), nums(mt.split("],")[-1]) if "<rejected>" not in mt else [])
        if (tk, tv) != model_t:
            bad += 1
            if bad <= 5:
                ctx.broke("C", "pyproject overrides (destructure_overrides + parse_config_file) vs pmo_of_toml",
                          f"tables {t}: model keys {model_t[0]} values {model_t[1]}; impl keys {tk} values {tv} {tmsg[-120:]}", {"tables": t})
        names = [s_ for s_, _ in secs]
        ini_ok = len(names) == len(set(names))          # configparser refuses two sections with the same name
        if ini_ok:
            ini_path = write_cfg(d, "mypy.ini", {}, secs)
            ik, iv, imsg = observe_file(ini_path)
            model_i = (strs(mi), nums(mi.split("],")[-1]))
            if (ik, iv) != model_i:
                bad += 1
                if bad <= 5:
                    ctx.broke("C", "mypy.ini sections (comma lists) vs pmo_of_ini", f"tables {t}: model {model_i}; impl {ik} {iv} {imsg[-120:]}", {"tables": t})
            # S: the two files say the same thing
            if not repeated and (ik, iv) != (tk, tv) and sum(v.key.startswith("ini-vs-pyproject:") for v in ctx.violations) < 3:
                ctx.violation(f"ini-vs-pyproject:{t}", f"the same per-module sections {t} written as mypy.ini and as [[tool.mypy.overrides]] give different "
                              f"per_module_options / clone_for_module: ini {ik} {iv}; pyproject {tk} {tv}", {"kind": "ini_vs_toml", "tables": t})
        # S: pyproject against the documented rule (every table that lists the module applies; later wins)
        if tk != ["<rejected>"] and tv != ms:
            j = next(k for k, (a, b) in enumerate(zip(tv, ms)) if a != b)
            unstructured_rep = any("*" in m[:-1] for m in allm if allm.count(m) > 1)
            key = "dup-pattern-later-section-does-not-win" if unstructured_rep else f"pyproject-overrides:{t}"
            if key.startswith("pyproject-overrides:") and sum(v.key.startswith("pyproject-overrides:") for v in ctx.violations) >= 3:
                continue
            ctx.violation(key, f"[[tool.mypy.overrides]] tables {t}: module {TMODS[j // 5]} field {'xyedz'[j % 5]}: documented rule gives {ms[j]}, "
                          f"clone_for_module after parse_config_file gives {tv[j]}", {"kind": "toml_vs_doc", "tables": t, "module": TMODS[j // 5]})
    ctx.add("evaluations", 3 * len(cases))
    ctx.add("traces_validated_against_impl", 2 * len(cases))
    ctx.cov["translation_cases"] = len(cases)
    ctx.cov["translation_cases_with_a_repeated_module"] = n_rep
    ctx.cov["translation_cases_rejected_as_conflicting"] = n_rej
    ctx.sample({"tables": cases[0], "pyproject": open(write_cfg(d, "pyproject.toml", {}, [(m if len(m) > 1 else m[0], RAW[j]) for m, j in cases[0]])).read()})


# ------------------------------------------------------------------ C7: config-file discovery

FILE_TEXT = {   # (state, kind) -> text ; state: G good, N no mypy table/section, E does not parse
    ("G", "ini"): "[mypy]\n", ("N", "ini"): "[other]\nx = 1\n", ("E", "ini"): "x = 1\n[\n",
    ("G", "toml"): "[tool.mypy]\n", ("N", "toml"): "[tool.other]\nx = 1\n", ("E", "toml"): "= bad\n",
}


def discovery_stage(ctx: vlib.Ctx, tmp: str) -> None:
    from mypy import config_parser as CP
    from mypy import defaults
    names = defaults.CONFIG_NAMES + defaults.SHARED_CONFIG_NAMES
    rng = vlib.Rng(ctx.seed, "discovery")
    cases: list[tuple[list[tuple[str, bool]], str]] = []       # ([(states of the 4 names, has .git)] cwd first, user states)
    for st in itertools.product("AGN", repeat=4):               # one directory, every presence set (incl. tables missing)
        cases.append(([("".join(st), True)], "AA"))
    presets = ["AAAA", "AANA", "AANG", "NAAA", "EAAG", "AGAA", "AAEN", "AAAG", "ENNA"]
    for cwd, par in itertools.product(presets, repeat=2):
        for rootpos in (0, 1, 2):
            for user in ("AA", "AG", "GG", "EG"):
                if ctx.quick and rng.random() < 0.6:
                    continue
                cases.append(([(cwd, rootpos == 0), (par, rootpos == 1)], user))
    base = tempfile.mkdtemp(dir=tmp)
    exprs = []
    real: list[int] = []
    old_user, old_cwd = defaults.USER_CONFIG_FILES, os.getcwd()
    try:
        for n, (dirs, user) in enumerate(cases):
            top = os.path.join(base, f"k{n}", "grand")            # grand always holds .git: the walk never leaves the sandbox
            chain = [top]
            for _ in dirs:
                chain.append(os.path.join(chain[-1], "d"))
            paths = list(reversed(chain[1:]))                      # cwd first
            os.makedirs(paths[0])
            os.mkdir(os.path.join(top, ".git"))
            for (st, root), dpath in zip(dirs, paths):
                if root:
                    os.mkdir(os.path.join(dpath, ".hg" if n % 2 else ".git"))
                for name, c in zip(names, st):
                    if c != "A":
                        with open(os.path.join(dpath, name), "w") as f:
                            f.write(FILE_TEXT[(c, "toml" if name.endswith(".toml") else "ini")])
            ufiles = []
            for k, c in enumerate(user):
                up = os.path.join(base, f"k{n}", f"user{k}", "config" if k == 0 else ".mypy.ini")
                os.makedirs(os.path.dirname(up))
                if c != "A":
                    with open(up, "w") as f:
                        f.write(FILE_TEXT[(c, "ini")])
                ufiles.append(up)
            defaults.USER_CONFIG_FILES = ufiles               # instrumentation from outside: the module-level list
            os.chdir(paths[0])
            ret = CP._find_config_file(io.StringIO())
            os.chdir(old_cwd)
            if ret is None:
                real.append(0)
            else:
                fr = os.path.normpath(os.path.join(paths[0], ret[2]))
                if fr in ufiles:
                    real.append(200 + ufiles.index(fr))
                else:
                    dpath, nm = os.path.split(fr)
                    real.append(100 + 10 * (paths + [top]).index(dpath) + names.index(nm))
            cd = lambda st, root: f"mkdir [{'; '.join(c + '_' for c in st)}] {'true' if root else 'false'}"   # noqa: E731
            exprs.append("enc_found (find_config_file [" + "; ".join(cd(st, root) for st, root in dirs) + "; mkdir [A_; A_; A_; A_] true] ["
                         + "; ".join(c + "_" for c in user) + "])")
    finally:
        defaults.USER_CONFIG_FILES = old_user
        os.chdir(old_cwd)
    hdr = HEADER.replace("%MODS%", "[]")
    res = ctx.eval_cases("discovery", hdr, ["[" + "; ".join(exprs[k:k + 200]) + "]" for k in range(0, len(exprs), 200)])
    if res is None:
        return
    model = [x for r in res for x in nums(r)]
    bad = 0
    for (dirs, user), m, r in zip(cases, model, real):
        if m != r:
            bad += 1
            if bad <= 5:
                ctx.broke("C", "_find_config_file vs find_config_file", f"dirs (cwd first; A absent G good N no table E unparsable; bool = has .git/.hg) {dirs} "
                          f"user {user}: model {m} impl {r}  (1DN = depth D, candidate N; 20N = user file N; 0 = none)", {"dirs": dirs, "user": user})
    if len(model) != len(real):
        ctx.broke("C", "_find_config_file vs find_config_file", f"{len(model)} model results for {len(real)} cases")
    ctx.add("evaluations", len(cases))
    ctx.add("traces_validated_against_impl", len(cases))
    ctx.cov["discovery_cases"] = len(cases)
    ctx.cov["discovery_cases_finding_a_file"] = sum(1 for r in real if r)
    ctx.sample({"discovery": cases[len(cases) // 2], "impl": real[len(cases) // 2]})

# ------------------------------------------------------------------ S: diagnostics on witness programs

# option -> (config key, value, CLI args, inline comment body, witness source)
WITNESS: dict[str, tuple[str, Any, list[str], str, str]] = {
    "disallow_untyped_defs": ("disallow_untyped_defs", True, ["--disallow-untyped-defs"], "disallow-untyped-defs", "def f(x): pass\n"),
    "disallow_incomplete_defs": ("disallow_incomplete_defs", True, ["--disallow-incomplete-defs"], "disallow-incomplete-defs", "def f(x, y: int): pass\n"),
    "check_untyped_defs": ("check_untyped_defs", True, ["--check-untyped-defs"], "check-untyped-defs", "def f():\n    x: int = ''\n"),
    "disallow_untyped_calls": ("disallow_untyped_calls", True, ["--disallow-untyped-calls"], "disallow-untyped-calls", "def g(): pass\ndef f() -> None:\n    g()\n"),
    "disallow_untyped_decorators": ("disallow_untyped_decorators", True, ["--disallow-untyped-decorators"], "disallow-untyped-decorators",
                                    "def d(f): return f\n@d\ndef f() -> None: pass\n"),
    "disallow_any_generics": ("disallow_any_generics", True, ["--disallow-any-generics"], "disallow-any-generics", "from typing import List\ndef f(x: List) -> None: pass\n"),
    "disallow_any_explicit": ("disallow_any_explicit", True, ["--disallow-any-explicit"], "disallow-any-explicit", "from typing import Any\nx: Any = 1\n"),
    "disallow_any_expr": ("disallow_any_expr", True, ["--disallow-any-expr"], "disallow-any-expr", "from typing import Any\ndef g() -> Any: ...\ny = g()\n"),
    "disallow_any_decorated": ("disallow_any_decorated", True, ["--disallow-any-decorated"], "disallow-any-decorated",
                               "from typing import Any\ndef d(f: Any) -> Any: return f\n@d\ndef f() -> None: pass\n"),
    "disallow_subclassing_any": ("disallow_subclassing_any", True, ["--disallow-subclassing-any"], "disallow-subclassing-any", "from typing import Any\nB: Any\nclass C(B): pass\n"),
    "warn_return_any": ("warn_return_any", True, ["--warn-return-any"], "warn-return-any", "from typing import Any\ndef g() -> Any: ...\ndef f() -> int:\n    return g()\n"),
    "warn_unreachable": ("warn_unreachable", True, ["--warn-unreachable"], "warn-unreachable", "def f(x: int) -> None:\n    if not isinstance(x, int):\n        print(x)\n"),
    "warn_no_return": ("warn_no_return", False, ["--no-warn-no-return"], "no-warn-no-return", "def f() -> int:\n    if int():\n        return 1\n"),
    "warn_unused_ignores": ("warn_unused_ignores", True, ["--warn-unused-ignores"], "warn-unused-ignores", "x = 1  # type: ignore\n"),
    "strict_equality": ("strict_equality", True, ["--strict-equality"], "strict-equality", "if 1 == 'a':\n    pass\n"),
    "strict_optional": ("strict_optional", False, ["--no-strict-optional"], "no-strict-optional", "from typing import Optional\ndef f(x: Optional[int]) -> int:\n    return x\n"),
    "implicit_optional": ("implicit_optional", True, ["--implicit-optional"], "implicit-optional", "def f(x: int = None) -> None: pass\n"),
    "ignore_errors": ("ignore_errors", True, [], "ignore-errors", "x: int = ''\n"),
    "allow_untyped_globals": ("allow_untyped_globals", True, ["--allow-untyped-globals"], "allow-untyped-globals", "x = []\n"),
    "allow_redefinition_old": ("allow_redefinition_old", True, ["--allow-redefinition-old"], "allow-redefinition-old", "def f() -> None:\n    x = 1\n    print(x)\n    x = ''\n"),
    "local_partial_types": ("local_partial_types", False, ["--no-local-partial-types"], "no-local-partial-types", "x = None\ndef f() -> None:\n    global x\n    x = 1\n"),
    "extra_checks": ("extra_checks", True, ["--extra-checks"], "extra-checks",
                     "from typing import TypedDict\nclass A(TypedDict):\n    x: int\nclass B(TypedDict, total=False):\n    x: int\n    y: str\ndef f(a: A, b: B) -> None:\n    a2: A = b if int() else a\n    b.update(a)\n    b2: B = a\n"),
    "ignore_missing_imports": ("ignore_missing_imports", True, ["--ignore-missing-imports"], "ignore-missing-imports", "import nonexistent_module_xyz\n"),
    "disable_error_code": ("disable_error_code", ["assignment"], ["--disable-error-code", "assignment"], "disable-error-code=assignment", "x: int = ''\n"),
    "enable_error_code": ("enable_error_code", ["truthy-bool"], ["--enable-error-code", "truthy-bool"], "enable-error-code=truthy-bool",
                          "class C: pass\ndef f(c: C) -> None:\n    if c:\n        pass\n"),
    "always_true": ("always_true", ["FLAG"], ["--always-true", "FLAG"], "always-true=FLAG", "FLAG = 0\nif not FLAG:\n    x: int = ''\n"),
    "always_false": ("always_false", ["FLAG"], ["--always-false", "FLAG"], "always-false=FLAG", "FLAG = 0\nif FLAG:\n    pass\nelse:\n    pass\nif FLAG:\n    x: int = ''\nelse:\n    y: int = ''\n"),
    "disallow_any_unimported": ("disallow_any_unimported", True, ["--disallow-any-unimported"], "disallow-any-unimported",
                                "from nonexistent_module_xyz import T  # type: ignore\ndef f(x: T) -> None: pass\n"),
    "strict_equality_for_none": ("strict_equality_for_none", True, ["--strict-equality", "--strict-equality-for-none"], "strict-equality-for-none",
                                 "def f(x: int) -> None:\n    if x == None:\n        pass\n"),
}
QUICK_WITNESS = ["disallow_untyped_defs", "check_untyped_defs", "warn_no_return", "strict_optional", "ignore_errors", "allow_untyped_globals",
                 "disable_error_code", "enable_error_code", "always_true", "implicit_optional"]


BUILTINS_STUB = """
import _typeshed
from typing import Generic, Iterator, Sequence, TypeVar, Mapping, Iterable
_T = TypeVar('_T')
_KT = TypeVar('_KT')
_VT = TypeVar('_VT')
class object:
    def __init__(self) -> None: pass
    def __eq__(self, o: object) -> bool: pass
class type:
    def __init__(self, x: object) -> None: pass
class int:
    def __init__(self, x: object = ...) -> None: pass
    def __add__(self, other: int) -> int: pass
    def __eq__(self, o: object) -> bool: pass
    def __bool__(self) -> bool: pass
class bool(int): pass
class float: pass
class str:
    def __eq__(self, o: object) -> bool: pass
class bytes: pass
class function:
    __name__: str
class ellipsis: pass
class tuple(Generic[_T]): pass
class list(Generic[_T], Sequence[_T]):
    def __contains__(self, item: object) -> bool: pass
    def __getitem__(self, key: int) -> _T: pass
    def __iter__(self) -> Iterator[_T]: pass
    def append(self, x: _T) -> None: pass
class dict(Mapping[_KT, _VT]):
    def update(self, m: Mapping[_KT, _VT]) -> None: pass
class BaseException: pass
def isinstance(x: object, t: object) -> bool: pass
def print(*a: object) -> None: pass
"""


def make_typeshed(tmp: str) -> str:
    """A small typeshed (mypy's own test stubs + the builtins above) so that one run costs ~1 s CPU instead of ~6 s.
    Only the standard-library stubs are replaced; option/config processing is the real one."""
    ts = os.path.join(tmp, "typeshed")
    sd = os.path.join(ts, "stdlib")
    src = os.path.join(vlib.REPO, "test-data", "unit", "lib-stub")
    os.makedirs(os.path.join(sd, "collections"))
    for f in ("typing.pyi", "typing_extensions.pyi", "types.pyi", "_typeshed.pyi", "abc.pyi", "sys.pyi", "mypy_extensions.pyi"):
        shutil.copy(os.path.join(src, f), os.path.join(sd, f))
    shutil.copy(os.path.join(src, "collections.pyi"), os.path.join(sd, "collections", "__init__.pyi"))
    for f in ("_collections_abc.pyi", os.path.join("collections", "abc.pyi")):
        open(os.path.join(sd, f), "w").close()
    with open(os.path.join(sd, "builtins.pyi"), "w") as f:
        f.write(BUILTINS_STUB)
    mods = sorted({n.split(".")[0] for n in os.listdir(sd)})
    with open(os.path.join(sd, "VERSIONS"), "w") as f:
        f.write("".join(f"{m}: 3.0-\n" for m in mods))
    return ts


TYPESHED: list[str] = []


def make_tree(root: str, src: str, inline: str | None = None) -> None:
    os.makedirs(os.path.join(root, "pkg", "sub"), exist_ok=True)
    for p in ("pkg/__init__.py", "pkg/sub/__init__.py"):
        open(os.path.join(root, p), "w").close()
    with open(os.path.join(root, "pkg", "sub", "w.py"), "w") as f:
        f.write((f"# mypy: {inline}\n" if inline else "#\n") + src)


def run_mypy(root: str, args: list[str], target: list[str] | None = None) -> str:
    cmd = [vlib.PY, "-m", "mypy", "--no-incremental", "--cache-dir", os.devnull, "--no-error-summary", "--hide-error-context",
           "--no-color-output", "--show-error-codes"] + (["--custom-typeshed-dir", TYPESHED[0]] if TYPESHED else []) + args + (target or ["pkg"])
    st, out = vlib.sh(cmd, cwd=root, env=vlib.py_env(), timeout=300)
    lines = sorted(l for l in out.splitlines() if l.strip())
    return f"exit={st}\n" + "\n".join(lines)


def diagnostics_stage(ctx: vlib.Ctx, tmp: str) -> None:
    names = QUICK_WITNESS if ctx.quick else list(WITNESS)
    TYPESHED[:] = [make_typeshed(tmp)]
    jobs: list[tuple[str, str, str, list[str]]] = []       # (option, source label, root, args)
    k = 0

    def job(opt: str, label: str, cfg: tuple[str, dict, list] | None, args: list[str], inline: str | None = None, src: str | None = None) -> None:
        nonlocal k
        k += 1
        root = os.path.join(tmp, f"d{k}")
        make_tree(root, src if src is not None else WITNESS[opt][4], inline)
        a = list(args)
        if cfg is not None:
            p = write_cfg(root, cfg[0], cfg[1], cfg[2])
            a = ["--config-file", p] + a
        else:
            a = ["--config-file="] + a
        jobs.append((opt, label, root, a))

    def neg(v: Any) -> Any:
        return (not v) if isinstance(v, bool) else []

    # documented exception (config_file.rst): a per-module ignore_missing_imports is looked up under the name of the IMPORTED
    # module, so its section names that module and the pattern / inline sources of the importing file do not apply
    imported_target = {"ignore_missing_imports": "nonexistent_module_xyz"}
    for opt in names:
        key, val, cli, inline, src = WITNESS[opt]
        extra = ["--strict-equality"] if opt == "strict_equality_for_none" else []
        gextra = {"strict_equality": True} if opt == "strict_equality_for_none" else {}
        job(opt, "baseline", None, extra)
        if cli:
            job(opt, "cli", None, cli)
        for kind in CFG_KINDS:
            job(opt, f"global:{kind}", (kind, {**gextra, key: val}, []), [])
            if not ctx.quick or kind == CFG_KINDS[len(opt) % 3]:
                job(opt, f"section:{kind}", (kind, gextra, [(imported_target.get(opt, "pkg.sub.w"), {key: val})]), [])
        pats = [("section:a.*", "mypy.ini", "pkg.*"), ("section:*.b", "mypy.ini", "*.w"), ("section:a.*.b", "pyproject.toml", "pkg.*.w")]
        for n_p, (lab, kind, pat) in enumerate(pats):
            if opt in imported_target:
                continue
            if not ctx.quick or n_p == len(opt) % 3:
                job(opt, lab, (kind, gextra, [(pat, {key: val})]), [])
        if opt not in imported_target:
            job(opt, "inline", None, extra, inline=inline)
    # precedence between conflicting sources (documented order), both polarities
    prec_opts = ["disallow_untyped_defs", "ignore_errors"] if ctx.quick else ["disallow_untyped_defs", "ignore_errors", "warn_no_return", "strict_optional", "check_untyped_defs"]
    prec_opts = [x for x in prec_opts if x in names]
    for opt in prec_opts:
        key, val, cli, inline, src = WITNESS[opt]
        if not isinstance(val, bool):
            continue
        for hi in (val, not val):
            lo = not hi
            inl = lambda v: (inline if v == val else (inline[3:] if inline.startswith("no-") else "no-" + inline))   # noqa: E731
            tag = "on" if hi == val else "off"
            job(opt, f"prec:{tag}:inline>concrete", ("mypy.ini", {}, [("pkg.sub.w", {key: lo})]), [], inline=inl(hi))
            job(opt, f"prec:{tag}:concrete>unstructured", ("mypy.ini", {}, [("pkg.sub.w", {key: hi}), ("*.w", {key: lo})]), [])
            job(opt, f"prec:{tag}:unstructured-later>earlier", ("mypy.ini", {}, [("pkg.*.w", {key: lo}), ("*.w", {key: hi})]), [])
            job(opt, f"prec:{tag}:unstructured>structured", ("pyproject.toml", {}, [("*.w", {key: hi}), ("pkg.sub.*", {key: lo})]), [])
            job(opt, f"prec:{tag}:structured-specific>general", ("setup.cfg", {}, [("pkg.sub.*", {key: hi}), ("pkg.*", {key: lo})]), [])
            job(opt, f"prec:{tag}:structured>cli", ("mypy.ini", {}, [("pkg.*", {key: hi})]), (cli if lo == val else []) if cli else [])
            job(opt, f"prec:{tag}:section>global", ("pyproject.toml", {key: lo}, [("pkg.sub.w", {key: hi})]), [])
            if cli:
                job(opt, f"prec:{tag}:inline>cli+global", ("mypy.ini", {key: lo}, []), (cli if lo == val else []), inline=inl(hi))
            if cli:
                inv_cli = ["--" + (cli[0][5:] if cli[0].startswith("--no-") else
                                   ("dis" + cli[0][2:] if cli[0].startswith("--allow-") else
                                    (cli[0][5:] and "allow-" + cli[0][11:] if cli[0].startswith("--disallow-") else "no-" + cli[0][2:])))]
                job(opt, f"prec:{tag}:cli>global", ("mypy.ini", {key: lo}, []), cli if hi == val else inv_cli)
    with ThreadPoolExecutor(max_workers=vlib.NPROC) as ex:
        outs = list(ex.map(lambda j: run_mypy(j[2], j[3]), jobs))
    by: dict[str, dict[str, str]] = {}
    for (opt, label, root, args), out in zip(jobs, outs):
        by.setdefault(opt, {})[label] = out
    no_witness = []
    witnessed = 0
    for opt in names:
        r = by[opt]
        ref_label = "cli" if "cli" in r else "global:mypy.ini"
        ref = r[ref_label]
        if ref == r["baseline"] or "exit=2" in ref:
            no_witness.append(opt)
            continue
        witnessed += 1
        for label, out in r.items():
            if label in ("baseline", ref_label) or label.startswith("prec:"):
                continue
            if out != ref:
                ctx.violation(f"diagnostics:{opt}:{label}",
                              f"option {opt} supplied through {label} gives different diagnostics than through {ref_label}:\n{out}\n-- vs --\n{ref}",
                              {"kind": "diagnostics", "option": opt, "source": label, "reference": ref_label, "got": out, "want": ref,
                               "witness": WITNESS[opt][4]})
    for opt in prec_opts:
        r = by.get(opt, {})
        if opt in no_witness or not isinstance(WITNESS[opt][1], bool):
            continue
        on = r["cli"] if "cli" in r else r["global:mypy.ini"]
        off = r["baseline"]
        for label, out in r.items():
            if not label.startswith("prec:"):
                continue
            want = on if label.split(":")[1] == "on" else off
            if out != want:
                ctx.violation(f"precedence:{opt}:{label}", f"{opt}: {label[5:]} does not hold on real mypy:\n{out}\n-- expected --\n{want}",
                              {"kind": "precedence", "option": opt, "pair": label, "got": out, "want": want})
    ctx.add("evaluations", len(jobs))
    ctx.cov["mypy_runs"] = len(jobs)
    ctx.cov["options_with_witness"] = witnessed
    ctx.cov["options_without_effective_witness"] = no_witness
    from mypy.options import PER_MODULE_OPTIONS
    ctx.cov["per_module_options_without_witness_program"] = sorted(set(PER_MODULE_OPTIONS) - set(WITNESS))
    ctx.sample({"option": names[0], "witness": WITNESS[names[0]][4], "cli": by[names[0]].get("cli", "")[:300]})
    # end-to-end replays of the refutation witnesses (through the real config file reader)
    findings_stage(ctx, tmp)


def findings_stage(ctx: vlib.Ctx, tmp: str) -> None:
    root = os.path.join(tmp, "finding1")
    make_tree(root, "x: int = ''\n")
    with open(os.path.join(root, "mypy.ini"), "w") as f:
        f.write("[mypy]\n[mypy-pkg.*.w]\nignore_errors = True\n[mypy-*.w]\nignore_errors = False\n[mypy-zzz,pkg.*.w]\nignore_errors = True\n")
    out = run_mypy(root, ["--config-file", "mypy.ini"])
    if "error:" in out:
        ctx.violation("dup-pattern-later-section-does-not-win",
                      "mypy.ini with [mypy-pkg.*.w] ignore_errors=True, [mypy-*.w] ignore_errors=False, [mypy-zzz,pkg.*.w] ignore_errors=True: "
                      "the LAST section matching pkg.sub.w says ignore_errors=True (documented: later unstructured section overrides earlier) "
                      "but the error is reported, because per_module_options['pkg.*.w'] keeps its first position in the dict",
                      {"kind": "dup_pattern_e2e", "output": out})
    # the same per-module sections as mypy.ini and as [[tool.mypy.overrides]] (array table first, single-module table second)
    outs = []
    for kind, secs in (("mypy.ini", [("pkg.sub.w,pkg.other", {"disallow_untyped_defs": True}), ("pkg.other", {"ignore_errors": True})]),
                       ("pyproject.toml", [(["pkg.sub.w", "pkg.other"], {"disallow_untyped_defs": True}), ("pkg.other", {"ignore_errors": True})])):
        root = os.path.join(tmp, "translate-" + kind)
        make_tree(root, "def f(x): pass\n")
        with open(os.path.join(root, "pkg", "other.py"), "w") as f:
            f.write("def g(x): pass\n")
        outs.append(run_mypy(root, ["--config-file", write_cfg(root, kind, {}, secs)]))
    if outs[0] != outs[1] or "pkg/sub/w.py" not in outs[0]:
        ctx.violation("ini-vs-pyproject-diagnostics", "[mypy-pkg.sub.w,pkg.other] disallow_untyped_defs + [mypy-pkg.other] ignore_errors: mypy.ini and the "
                      f"equivalent [[tool.mypy.overrides]] tables give different diagnostics:\n{outs[0]}\n-- pyproject --\n{outs[1]}",
                      {"kind": "ini_vs_toml_e2e", "ini": outs[0], "pyproject": outs[1]})
    root = os.path.join(tmp, "finding4")
    make_tree(root, "x: int = ''\n", inline="ignore-errors, Ignore-Errors")
    out = run_mypy(root, ["--config-file="])
    if "INTERNAL ERROR" in out:
        ctx.violation("inline-duplicate-option-differing-in-case-crashes",
                      "a file starting with `# mypy: ignore-errors, Ignore-Errors` makes mypy report INTERNAL ERROR (DuplicateOptionError from configparser "
                      "inside parse_mypy_comments is not caught)", {"kind": "inline_crash_e2e", "output": out[-600:]})
    root = os.path.join(tmp, "finding2")
    make_tree(root, "x: int = ''\n")
    with open(os.path.join(root, "w.py"), "w") as f:
        f.write("x: int = ''\n")
    with open(os.path.join(root, "mypy.ini"), "w") as f:
        f.write("[mypy]\n[mypy-*.w]\nignore_errors = True\n")
    out = run_mypy(root, ["--config-file", "mypy.ini"], ["w.py", "pkg"])
    if "w.py:1: error" in out.replace("pkg/sub/w.py", "-") and "pkg/sub/w.py" not in out:
        ctx.violation("leading-star-does-not-match-zero-components",
                      "[mypy-*.w] ignore_errors=True silences pkg.sub.w but not the top-level module w, although 'stars match zero or more module components'",
                      {"kind": "leading_star_e2e", "output": out})
    root = os.path.join(tmp, "finding3")
    make_tree(root, "x: int = ''\n")
    with open(os.path.join(root, "mypy.ini"), "w") as f:
        f.write("[mypy]\n[mypy-*]\nignore_errors = True\n")
    out = run_mypy(root, ["--config-file", "mypy.ini"])
    if "error:" in out:
        ctx.violation("bare-star-pattern-matches-nothing", "[mypy-*] ignore_errors=True is accepted and applies to no module (errors still reported)",
                      {"kind": "bare_star_e2e", "output": out})


# ------------------------------------------------------------------ driver

def run(ctx: vlib.Ctx) -> None:
    ctx.cov["rule"] = ("C1: every ordered set of 1-3 sections from a pool of concrete / a.* / a.*.b / *.b / bare * patterns (plus random 3-5 sets) x every module "
                       "name over {a,b} to depth 3 (+4 with c), each section setting a different subset of two options and one error code "
                       "(non-trivial = some section applies to the module); C2: every pattern of <=4 components over {a,b,*} x every module of <=4 components; "
                       "C3/C4: every boolean command-line spelling x {CLI, mypy.ini, setup.cfg, pyproject.toml} through process_options, and CLI-vs-config conflicts; "
                       "S: witness program per option x 12 sources, documented-precedence pairs in both polarities")
    ctx.assumptions += [
        "section keys / module names are modelled as lists of dot-separated components; the regex engine (re) and str.split/sorted are not modelled, "
        "their component-level reading is checked against the real strings on every run (C1, C2)",
        "configparser / tomllib (file syntax) are not modelled: the tie enters after parsing (per_module_options dict, parse_section on one key)",
        "invert_flag_name and add_invertible_flag are pinned by ast equality in t17 (fail-closed) and transcribed by hand in C17/Model.v",
        "apply_changes is modelled on plain attributes + the two error-code sets; replace_object_state copying is assumed to copy every attribute",
        "witness programs decide 'same effect on diagnostics'; options without a witness are listed in coverage",
    ]
    try:
        t17.generate()
    except Exception as e:  # noqa
        ctx.broke("T", "t17 translator", repr(e))
    ctx.prove("C17/Properties.v", ["C17", "gen", "lib"])
    tmp = tempfile.mkdtemp(prefix="c17-")
    try:
        live = tables_stage(ctx)
        ctx.log("C3 tables done")
        matcher_stage(ctx)
        ctx.log("C2 matcher done")
        resolution_stage(ctx, tmp)
        ctx.log("C1 resolution done")
        sources_stage(ctx, live, tmp)
        ctx.log("C4 sources done")
        values_stage(ctx, tmp)
        ctx.log("C5 values / strict / inline done")
        translation_stage(ctx, tmp)
        ctx.log("C6 ini <-> pyproject translation done")
        discovery_stage(ctx, tmp)
        ctx.log("C7 config-file discovery done")
        if os.environ.get("C17_SKIP_S") == "1":      # development knob only (mutation experiments); never set by bin/check
            ctx.log("S diagnostics SKIPPED (C17_SKIP_S=1)")
        else:
            diagnostics_stage(ctx, tmp)
            ctx.log("S diagnostics done")
    finally:
        shutil.rmtree(tmp, ignore_errors=True)
    ctx.cov["distinct_nontrivial"] = (ctx.cov.get("resolution_nontrivial", 0) + ctx.cov.get("matcher_pairs_matching", 0)
                                      + ctx.cov.get("spellings_changing_options", 0) + ctx.cov.get("options_with_witness", 0))


def replay(ctx: vlib.Ctx, path: str) -> None:
    d = json.load(open(path))
    print(json.dumps(d, indent=1)[:4000])
    r = d.get("replay", {})
    tmp = tempfile.mkdtemp(prefix="c17-replay-")
    try:
        kind = r.get("kind", "")
        if kind == "dup_pattern":
            mods = gen_modules()
            real = real_resolve_via_file([tuple(x) for x in r["sections"]], mods, tmp)
            i = mods.index(r["module"])
            print("clone_for_module now gives (x,y,enabled,disabled):", real[4 * i:4 * i + 4], "documented for field", r.get("field", 0), ":", r["documented"])
            if real[4 * i + r.get("field", 0)] != r["documented"]:
                ctx.violation(d["key"], d["what"], r)
        elif kind == "inline_crash":
            from mypy import config_parser as CP
            from mypy.options import Options
            try:
                CP.parse_mypy_comments([(1, r["line"])], Options())
                print("parse_mypy_comments no longer raises")
            except Exception as ex:  # noqa
                ctx.violation(d["key"], d["what"], r)
        elif kind.endswith("_e2e") or kind in ("leading_star", "bare_star"):
            TYPESHED[:] = [make_typeshed(tmp)]
            findings_stage(ctx, tmp)
        else:
            run(ctx)
    finally:
        shutil.rmtree(tmp, ignore_errors=True)
