"""C14 -- both parsers mean the same thing and report valid positions  (PARTIAL).

T   tools/extractors/t14.py -> coq/gen/Clamp.v   (the defensive span clamp of Errors.report, regenerated)
P+A C14/Properties.v : report_clamp_valid (all inputs), parsers_agree_on_fragment (all fragment trees, by induction)
C   (1) translated clamp vs the real Errors.report on boundary tuples (self-correspondence);
    (2) fragment: generated fragment programs -> CPython ast -> Coq tree term; the extracted model computes
        `convert t` (fastparse model), `emit t` (serializer model) and `read_native (emit t)`;  compared with
        the REAL fastparse tree, the REAL nativeparse tree (reflective dump incl. line/column/end_line/end_column)
        and the REAL ast_serialize bytes.
S   differential search on the implementation (the main detector; everything outside the fragment is only searched):
    every corpus program x target version: parse-level (both converters, blocker status, parse diagnostics, reflective
    AST dump) and full type check in batches (diagnostics with --show-column-numbers --show-error-end
    --show-error-codes); native == default; blocked by one iff by the other; position validity of EVERY printed
    diagnostic against the source text.

This file is also its own worker:  /venv/bin/python tools/harness/C14.py --worker   (JSON lines on stdin/stdout).
"""
from __future__ import annotations

import hashlib
import io
import json
import os
import queue
import re
import shutil
import subprocess
import sys
import tempfile
import threading
import time
from typing import Any, Callable, Iterable

HERE = os.path.dirname(os.path.abspath(__file__))

# ======================================================================================
# WORKER SIDE (runs under /venv/bin/python with PYTHONPATH=/repo PYTHONHASHSEED=0)
# ======================================================================================

SKIP_ATTRS = {
    # not part of what the parser produces / back references / caches
    "raw_data", "path", "_fullname", "names", "info", "alias_deps", "plugin_deps", "future_import_flags",
    "definition", "fallback", "_hash", "type_guard", "type_is", "unpack_kwargs", "imported_names",
    "_can_be_true", "_can_be_false", "original_def", "node",
}


def reflect_dump(tree: Any) -> list[str]:
    """Structural dump of a freshly parsed MypyFile: one line per node with class, position and every scalar
    attribute, children in attribute order.  Used for AST comparison of the two converters."""
    from mypy.nodes import Node
    from mypy.types import Type
    from mypy.patterns import Pattern
    out: list[str] = []
    seen: set[int] = set()

    def scalar(v: Any) -> bool:
        return v is None or isinstance(v, (str, int, float, bool, complex, bytes))

    def walk(o: Any, depth: int, label: str) -> None:
        pad = " " * depth
        if type(o).__name__ in ("FakeInfo", "TypeInfo"):
            out.append(f"{pad}{label}=<{type(o).__name__}>")
            return
        if isinstance(o, (Node, Type)):
            if id(o) in seen:
                out.append(f"{pad}{label}=<shared {type(o).__name__}>")
                return
            seen.add(id(o))
            d = {}
            for cls in type(o).__mro__:
                for k in getattr(cls, "__slots__", ()):
                    if k not in d:
                        try:
                            d[k] = getattr(o, k)
                        except BaseException:  # noqa: BLE001  (unset slot / property asserting)
                            pass
            if hasattr(o, "__dict__"):
                d.update(vars(o))
            pos = (getattr(o, "line", None), getattr(o, "column", None), getattr(o, "end_line", None), getattr(o, "end_column", None))
            scal = []
            kids = []
            for k in sorted(d):
                if k in SKIP_ATTRS or k in ("line", "column", "end_line", "end_column"):
                    continue
                v = d[k]
                if scalar(v):
                    if v is None or v is False or v == "" or (k.startswith("is_") and not v):
                        continue
                    scal.append(f"{k}={v!r}")
                elif type(v).__name__ in ("ArgKind",):
                    scal.append(f"{k}={v.name}")
                else:
                    kids.append((k, v))
            out.append(f"{pad}{label}:{type(o).__name__}@{pos[0]}:{pos[1]}-{pos[2]}:{pos[3]} " + " ".join(scal))
            for k, v in kids:
                walk(v, depth + 1, k)
        elif isinstance(o, (list, tuple)):
            if not o:
                return
            if all(scalar(x) for x in o):
                out.append(f"{pad}{label}={list(o)!r}")
                return
            if all(type(x).__name__ == "ArgKind" for x in o):
                out.append(f"{pad}{label}=[{','.join(x.name for x in o)}]")
                return
            for i, x in enumerate(o):
                walk(x, depth, f"{label}[{i}]")
        elif isinstance(o, dict):
            if not o:
                return
            for k in sorted(o, key=repr):
                walk(o[k], depth, f"{label}[{k!r}]")
        elif isinstance(o, (set, frozenset)):
            if o:
                out.append(f"{pad}{label}={sorted(o, key=repr)!r}")
        elif scalar(o):
            out.append(f"{pad}{label}={o!r}")
        elif type(o).__name__ == "ArgKind":
            out.append(f"{pad}{label}={o.name}")
        else:
            out.append(f"{pad}{label}=<{type(o).__name__}>")

    walk(tree, 0, "file")
    return out


def _options(ver: list[int], native: bool, extra: dict[str, Any] | None = None) -> Any:
    from mypy.options import Options
    o = Options()
    o.python_version = (ver[0], ver[1])
    o.native_parser = native
    o.incremental = False
    o.show_column_numbers = True
    o.show_error_end = True
    o.hide_error_codes = False
    o.show_traceback = True
    o.cache_dir = os.devnull
    for k, v in (extra or {}).items():
        setattr(o, k, v)
    return o


def parse_one(path: str, module: str, src: str, ver: list[int], native: bool, want_dump: bool,
              extra: dict[str, Any] | None = None) -> dict[str, Any]:
    """What State.parse_file does up to the blocker test, for one converter."""
    from mypy.errors import Errors
    from mypy.parse import parse
    opts = _options(ver, native, extra)
    errors = Errors(opts)
    errors.set_file(path, module, options=opts)
    res: dict[str, Any] = {}
    try:
        tree = parse(src, path, module, errors, opts, eager=True)
    except BaseException as e:  # noqa: BLE001
        import traceback
        res["crash"] = f"{type(e).__name__}: {e}"
        res["tb"] = traceback.format_exc()[-1500:]
        res["blocked"] = None
        res["msgs"] = []
        return res
    infos = errors.error_info_map.get(path, [])
    res["blocked"] = bool(errors.is_blockers())
    res["msgs"] = [[i.line, i.column, i.end_line, i.end_column, i.severity, i.message,
                    i.code.code if i.code else None, bool(i.blocker)] for i in infos]
    res["ignored"] = sorted([k, sorted(v)] for k, v in tree.ignored_lines.items())
    if want_dump and not res["blocked"]:
        try:
            res["dump"] = reflect_dump(tree)
        except BaseException as e:  # noqa: BLE001
            res["dump"] = [f"<dump failed {type(e).__name__}: {e}>"]
        try:
            res["str"] = str(tree)
        except BaseException as e:  # noqa: BLE001
            res["str"] = f"<str failed {type(e).__name__}>"
        res["imports"] = [f"{type(i).__name__}@{i.line}:{i.column} top={i.is_top_level} unreach={i.is_unreachable} mypyonly={i.is_mypy_only} "
                          + repr(getattr(i, 'ids', None) or (getattr(i, 'id', None), getattr(i, 'relative', None), getattr(i, 'names', None)))
                          for i in tree.imports]
    return res


def w_parse(task: dict[str, Any]) -> dict[str, Any]:
    """Parse-level comparison of a list of programs: [{name, src(bytes as latin1 or str), vers:[[3,9],..]}]."""
    from mypy.util import decode_python_encoding
    out = []
    d = tempfile.mkdtemp(prefix="c14p-")
    try:
        for p in task["programs"]:
            name = p["name"]
            path = os.path.join(d, name)
            data = p["src"].encode("utf-8", "surrogateescape") if isinstance(p["src"], str) else bytes(p["src"])
            with open(path, "wb") as f:
                f.write(data)
            r: dict[str, Any] = {"name": name, "vers": {}}
            try:
                src = decode_python_encoding(data)
            except BaseException as e:  # noqa: BLE001
                r["decode_error"] = f"{type(e).__name__}: {e}"
                out.append(r)
                continue
            mod = name.rsplit(".", 1)[0]
            for ver in p["vers"]:
                a = parse_one(path, mod, src, ver, False, task.get("dump", True), task.get("extra"))
                b = parse_one(path, mod, src, ver, True, task.get("dump", True), task.get("extra"))
                # only ship dumps when they differ (volume)
                same_dump = a.get("dump") == b.get("dump") and a.get("imports") == b.get("imports")
                if same_dump and not task.get("keep_dump"):
                    n = len(a.get("dump") or [])
                    for x in (a, b):
                        x.pop("dump", None); x.pop("imports", None)
                        x["dump_n"] = n
                same_str = a.get("str") == b.get("str")
                if not task.get("keep_dump"):
                    if same_str:
                        a.pop("str", None); b.pop("str", None)
                r["vers"][f"{ver[0]}.{ver[1]}"] = {"d": a, "n": b, "same_dump": same_dump, "same_str": same_str}
            out.append(r)
    finally:
        shutil.rmtree(d, ignore_errors=True)
    return {"results": out}


def w_check(task: dict[str, Any]) -> dict[str, Any]:
    """Full type check of a batch of files in one build, under one parser.  Returns the raw output lines."""
    from mypy import api
    d = tempfile.mkdtemp(prefix="c14c-")
    cwd = os.getcwd()
    try:
        names = []
        for name, src in task["files"].items():
            data = src.encode("utf-8", "surrogateescape")
            with open(os.path.join(d, name), "wb") as f:
                f.write(data)
            names.append(name)
        os.chdir(d)
        ver = task["ver"]
        args = ["--no-incremental", "--cache-dir=" + os.devnull, "--show-column-numbers", "--show-error-end",
                "--show-error-codes", "--no-error-summary", "--no-color-output", "--hide-error-context", "--no-pretty",
                "--show-traceback", "--no-site-packages", "--python-version", f"{ver[0]}.{ver[1]}",
                "--config-file=c14.ini"]
        with open(os.path.join(d, "c14.ini"), "w") as f:
            f.write("[mypy]\n")
        args += task.get("flags", [])
        if task["native"]:
            args.append("--native-parser")
        t = time.time()
        try:
            so, se, st = api.run(args + sorted(names))
        except BaseException as e:  # noqa: BLE001
            import traceback
            so, se, st = "", "HARNESS-CAUGHT " + traceback.format_exc()[-3000:], 99
        return {"stdout": so, "stderr": se, "status": st, "secs": round(time.time() - t, 2)}
    finally:
        os.chdir(cwd)
        shutil.rmtree(d, ignore_errors=True)


def w_clamp(task: dict[str, Any]) -> dict[str, Any]:
    """Drive the real Errors.report with the given (line, column, end_line, end_column) tuples (None allowed)."""
    from mypy.errors import Errors
    from mypy.options import Options
    res = []
    for line, col, el, ec in task["tuples"]:
        e = Errors(Options())
        e.set_file("f.py", "f", options=Options())
        info = e.report(line, col, "m", end_line=el, end_column=ec)
        res.append([info.line, info.column, info.end_line, info.end_column])
    return {"results": res}


def w_frag(task: dict[str, Any]) -> dict[str, Any]:
    """Fragment tie: for each source, the real fastparse tree, the real nativeparse tree (fragment dump) and the
    real ast_serialize bytes."""
    import C14_frag as fragdump  # tools/harness/C14_frag.py (HERE is on the worker's sys.path)
    return fragdump.run(task)


WORKERS: dict[str, Callable[[dict[str, Any]], dict[str, Any]]] = {
    "parse": w_parse, "check": w_check, "clamp": w_clamp, "frag": w_frag,
}


def worker_main() -> None:
    sys.set_int_max_str_digits(0)
    sys.setrecursionlimit(20000)
    inp = sys.stdin
    out = os.fdopen(os.dup(1), "w")
    # anything mypy prints must not corrupt the protocol
    devnull = open(os.devnull, "w")
    os.dup2(devnull.fileno(), 1)
    sys.stdout = devnull
    for line in inp:
        if not line.strip():
            continue
        task = json.loads(line)
        try:
            r = WORKERS[task["kind"]](task)
        except BaseException as e:  # noqa: BLE001
            import traceback
            r = {"worker_error": f"{type(e).__name__}: {e}", "tb": traceback.format_exc()[-3000:]}
        out.write(json.dumps(r) + "\n")
        out.flush()


if __name__ == "__main__":
    if "--worker" in sys.argv:
        sys.path.insert(0, HERE)
        worker_main()
        sys.exit(0)
    sys.path.insert(0, os.path.dirname(HERE))

# ======================================================================================
# DRIVER SIDE
# ======================================================================================
import vlib  # noqa: E402

VERSIONS = [[3, 9], [3, 10], [3, 11], [3, 12], [3, 13], [3, 14]]
TYPE_COMMENT = re.compile(r"#\s*type:\s*(?!ignore\b)")


class Pool:
    """N persistent worker subprocesses (own process group each); tasks are JSON lines."""

    def __init__(self, n: int, ctx: "vlib.Ctx"):
        self.n = max(1, n)
        self.ctx = ctx
        self.procs: list[subprocess.Popen | None] = [None] * self.n
        self.cpu = 0.0

    def _spawn(self, i: int) -> subprocess.Popen:
        env = vlib.py_env({"PYTHONPATH": vlib.REPO + os.pathsep + HERE})
        p = subprocess.Popen([vlib.PY, os.path.abspath(__file__), "--worker"], stdin=subprocess.PIPE,
                             stdout=subprocess.PIPE, stderr=subprocess.DEVNULL, text=True, env=env,
                             start_new_session=True)
        self.procs[i] = p
        return p

    def _call(self, i: int, task: dict[str, Any], timeout: float) -> dict[str, Any]:
        import select
        p = self.procs[i]
        if p is None or p.poll() is not None:
            p = self._spawn(i)
        try:
            p.stdin.write(json.dumps(task) + "\n")  # type: ignore[union-attr]
            p.stdin.flush()  # type: ignore[union-attr]
            fd = p.stdout.fileno()  # type: ignore[union-attr]
            t_end = time.time() + timeout
            while True:
                r, _, _ = select.select([fd], [], [], 5.0)
                if r:
                    line = p.stdout.readline()  # type: ignore[union-attr]
                    if not line:
                        raise RuntimeError(f"worker died (status {p.poll()})")
                    return json.loads(line)
                if p.poll() is not None:
                    raise RuntimeError(f"worker died (status {p.poll()})")
                if time.time() > t_end:
                    raise TimeoutError(f"task timed out after {timeout}s")
        except (RuntimeError, TimeoutError, BrokenPipeError, json.JSONDecodeError) as e:
            try:
                os.killpg(p.pid, 9)   # only this worker's own process group
            except OSError:
                pass
            try:
                p.wait(timeout=30)
            except Exception:  # noqa: BLE001
                pass
            self.procs[i] = None
            return {"worker_died": str(e)}

    def map(self, tasks: list[dict[str, Any]], timeout: float = 1800) -> list[dict[str, Any]]:
        res: list[dict[str, Any] | None] = [None] * len(tasks)
        q: "queue.Queue[int]" = queue.Queue()
        for k in range(len(tasks)):
            q.put(k)

        def run(i: int) -> None:
            while True:
                try:
                    k = q.get_nowait()
                except queue.Empty:
                    return
                res[k] = self._call(i, tasks[k], timeout)
        th = [threading.Thread(target=run, args=(i,), daemon=True) for i in range(min(self.n, len(tasks)))]
        for t in th:
            t.start()
        for t in th:
            t.join()
        return res  # type: ignore[return-value]

    def close(self) -> None:
        for p in self.procs:
            if p is not None and p.poll() is None:
                try:
                    p.stdin.close()  # type: ignore[union-attr]
                except Exception:  # noqa: BLE001
                    pass
        for p in self.procs:
            if p is not None and p.poll() is None:
                try:
                    p.wait(timeout=20)
                except Exception:  # noqa: BLE001
                    try:
                        os.killpg(p.pid, 9)
                    except OSError:
                        pass


# ---------------------------------------------------------------------------- corpus

def testdata_cases(paths: list[str]) -> list[tuple[str, str]]:
    """(case id, main program text) for every [case] of the given .test files; also [file x.py|x.pyi] sections."""
    out: list[tuple[str, str]] = []
    for p in paths:
        try:
            text = open(p, encoding="utf-8").read()
        except OSError:
            continue
        base = os.path.basename(p)
        cur_case = None
        cur_kind = None
        buf: list[str] = []

        def flush() -> None:
            if cur_case and cur_kind and buf:
                src = "\n".join(buf) + "\n"
                out.append((f"{base}:{cur_case}:{cur_kind}", src))
        for ln in text.split("\n"):
            m = re.match(r"^\[([a-zA-Z][^\]]*)\]\s*$", ln)
            if m:
                flush()
                buf = []
                head = m.group(1)
                if head.startswith("case "):
                    cur_case = head[5:].strip()
                    cur_kind = "main.py"
                elif head.startswith("file ") and head.split()[1].endswith((".py", ".pyi")):
                    cur_kind = head.split()[1].replace("/", "_")
                else:
                    cur_kind = None
                continue
            if ln.startswith("--") and not ln.startswith("----"):
                continue
            if ln.startswith("----"):
                ln = ln[2:]
            if cur_kind:
                buf.append(ln.replace("\\[", "[") if ln.startswith("\\[") else ln)
        flush()
    return out


SNIPPETS: list[str] = [
    # decorators / defs with every parameter kind
    "import functools\n@functools.wraps\n@ (lambda f: f)\ndef f(a, b: int = 1, /, c=None, *d: str, e, f: int = 3, **g) -> None:\n    return a + d\n",
    "class A:\n    @property\n    def p(self) -> int: return 's'\n    @p.setter\n    def p(self, v: str) -> None: ...\n    @staticmethod\n    def s(x=1, *, y): pass\n    @classmethod\n    async def c(cls, *a, **k): await cls\n",
    "def f(x: int = None, *, y: str = None, z=None): pass\n",
    "def g(*args: int, **kwargs: str) -> None:\n    reveal_type(args); reveal_type(kwargs)\n",
    "def __getitem__(self, i): return i\ndef __init__(a, b=1): pass\n",
    # async
    "import asyncio\nasync def f(x):\n    async with x as y, x as z:\n        pass\n    async for i in x:\n        await i\n    else:\n        return [j async for j in x if await j]\n    return (await x) + 1\n",
    "def f():\n    await x\n    async with y: pass\n",
    # match
    "def f(x: object) -> int:\n    match x:\n        case 1 | 2 | 3: return 1\n        case [a, *rest] if rest: return a\n        case {'k': v, **kw}: return v\n        case str() as s | bytes() as s: return s\n        case A(x=1, y=[_, _]): return 0\n        case None | True | False: pass\n        case (1, 2.0, 'x', -3, 1+2j): pass\n        case a.b: pass\n        case _: return 'no'\n",
    "match = 1\ncase = 2\nmatch (x, y):\n    case (1, _): z: int = 's'\n",
    # PEP 695
    "class C[T, *Ts, **P]:\n    def m[S: int, U: (int, str) = int](self, x: S) -> U: ...\ntype A[T] = list[T] | None\ntype B = int\nx: B = 'a'\n",
    "def f[T = int, *Ts = *tuple[int], **P = [int, str]](x: T) -> T: return 1\n",
    # f-strings
    "x = 1\ny = f'{x!r:>{x}} {x=} {x = :d} {{}} {f\"{x}\"} {x:{x}.{x}f}'\nz: int = f'a{x}b' f'c' 'd'\nw = f'{x + 1!s}' + undefined\n",
    "a = f'''{\n  1 +\n  2}'''\nb = f'{1:{2:{3}}}'\nc: int = rf'\\d{a}' + b'x'\n",
    "x = f'{lambda: 1}'\n",
    "print(f\"{'nested' + f'{1 + undefined_name}'}\")\n",
    "t = t'{x} and {y!r:>10}'\n",
    # walrus, star-expressions
    "if (n := 10) > 5: print(n)\nxs = [y := 1, y ** 2]\ndef f(): return (z := undefined)\nprint(*xs, **{'a': 1}, sep='')\na, *b = xs\n*c, = xs\nfor i, *j in [xs]: pass\nd = [*xs, *b]\ne = {**{}, 'k': 1, **{}}\ng = {*xs, 1}\nh = *xs, 1\n",
    "x = (y := 1) + (y := 's')\n[(q := i) for i in range(3)]\n",
    # comparisons, boolean ops
    "a = 1 < 2 <= 3 != 4 is not None in [] not in ()\nb = a and 1 or 's' and not a or (a and a and a)\nc: int = 1 if a else 's' if b else None\nd = -a + +a - ~a ** 2 @ a // 3 % 4 << 1 >> 2 & 3 | 4 ^ 5\n",
    "x = 1 + 's'\ny = 'a' - 1\nz = (1 +\n     's')\nw = [1,\n 2][\n 's']\n",
    # lambda
    "f = lambda x, /, y=1, *a, k, k2=2, **kw: (x, y, a, k, kw)\ng = lambda: (yield)\nh = lambda *, a: a\ni: int = lambda x: x\n",
    # calls
    "def f(*a, **k): pass\nf(1, *[2], x=3, **{'y': 4}, z=5)\nf(*[1], 2, *[3])\nf(a for a in [])\nf(**{}, x=1)\nint(1, 2, 3, 4)\nint(x=1)\n",
    # comprehension
    "a = [x for x in range(3) if x if x > 1 for y in [x] if y]\nb = {x: y for x in [1] for y in [2]}\nc = {x for x in 'abc'}\nd = (x for x in [1])\ne = [i for i in undefined]\nf = [(i, j) async for i in [] for j in []]\n",
    # statements
    "import os, sys as s\nimport a.b.c\nimport a.b as c\nfrom . import x\nfrom .. import y as z\nfrom .m import (p, q as r,)\nfrom os import *\nfrom os.path import join as j, exists\n",
    "def f():\n    global a, b\n    def g():\n        nonlocal c\n    del a, b[0], a.x\n    assert a, 'msg'\n    assert (a, 'msg')\n    raise E from None\n    raise\n",
    "while x:\n    break\nelse:\n    continue\nfor i in 1:\n    pass\nelse:\n    pass\nwith open('f') as f, g() as (a, b), h():\n    pass\nwith (open('f') as f, open('g') as g,):\n    pass\n",
    "try:\n    pass\nexcept A as e:\n    pass\nexcept (B, C):\n    pass\nexcept:\n    raise\nelse:\n    pass\nfinally:\n    pass\ntry:\n    pass\nexcept* ValueError as eg:\n    pass\n",
    "x: int\ny: int = 's'\nz: 'List[int]' = []\n(a): int = 1\na.b: int = 1\na[0]: int = 1\nx = y = z = 1\nx, y = 1, 2\n[x, y] = 1, 2\nx += 's'\nx @= 1\nx //= 2\nx **= 2\nx >>= 1\n",
    "class A(B, metaclass=M, kw=1):\n    '''doc'''\n    x: int = 's'\n    class C: pass\n@dec\n@dec2(1)\nclass D(*bases, **kw): ...\n",
    "if x:\n    pass\nelif y:\n    pass\nelif z:\n    1 + 's'\nelse:\n    pass\nif a: pass\nelse:\n    if b: pass\n    else: 's' + 1\n",
    "import sys\nif sys.version_info >= (3, 10):\n    x: int = 's'\nelse:\n    x: str = 1\nif sys.platform == 'win32':\n    import winreg\n    y = 1 + 's'\nassert sys.version_info >= (3, 12)\nz = 1 + 's'\n",
    "from typing import TYPE_CHECKING, overload\nif TYPE_CHECKING:\n    import a\nelse:\n    import b\n@overload\ndef f(x: int) -> int: ...\n@overload\ndef f(x: str) -> str: ...\ndef f(x): return x\nif TYPE_CHECKING:\n    @overload\n    def g(x: int) -> int: ...\n@overload\ndef g(x: str) -> str: ...\ndef g(x): return x\n",
    "from typing import overload\nimport sys\n@overload\ndef f(x: int) -> int: ...\nif sys.version_info >= (3, 10):\n    @overload\n    def f(x: str) -> str: ...\nelif maybe:\n    @overload\n    def f(x: bytes) -> bytes: ...\ndef f(x): return x\n",
    # yields
    "def g():\n    x = yield\n    y = yield 1, 2\n    z = yield from g()\n    return (yield)\n",
    # literals
    "a = 0x_ff + 0o17 + 0b1 + 1_000 + 1e10 + 1.5j + .5 + 5. + 10**400 + 123456789012345678901234567890\nb = 'a' 'b' \"c\" '''d''' r'\\e' b'f' rb'g' u'h'\nc = ...\nd = None, True, False, __debug__\ne: int = 99999999999999999999999999999999999999\n",
    "x = 'a' \\\n    'b'\ny = ('c'\n     'd')\nz: int = y\n",
    "s = '\\N{BULLET} \\u1234 \\x00 \\777 \\\n cont'\nb = b'\\xff\\0'\nt: int = s\n",
    # subscripts / slices
    "a = x[1:2, ::3, ..., None, 1:, :2, *y]\nb = x[1:2:3]\nc = x[()]\nd = x[(1, 2)]\ne: int = x[1,]\nx[0] = 1\nx[1:2] = []\n",
    # type annotations of many shapes
    "from typing import Callable, Literal, Annotated\nx: Callable[[int, str], None]\ny: Callable[..., int]\nz: Literal[1, 'a', b'b', True, None, -1]\nw: Annotated[int, 'meta', 1 + 2]\nv: int | str | None\nu: 'int | str'\nt: tuple[int, ...]\ns: list['Undefined']\nr: Callable[[Arg(int, 'x'), VarArg(str)], int]\nq: {'a': int}\np: [int]\no: (int, str)\nn: 1\nm: -1\nl: 1.5\nk: x.y.z\nj: x[0].y\ni: f()\nh: lambda: 1\n",
    "def f(x: 'int', y: \"List['A']\", *a: *Ts, **k: 'Unpack[TD]') -> 'None': pass\n",
    # type: ignore placement
    "x: int = 's'  # type: ignore\ny: int = 's'  # type: ignore[assignment]\nz: int = 's'  # type: ignore[misc]\nw: int = ('s'  # type: ignore\n  )\ndef f(  # type: ignore\n    a: int = 's'): pass\nv: int = '''\n'''  # type: ignore\n",
    "# type: ignore\nx: int = 's'\n",
    "import a  # type: ignore[import]\nx = 1  # type: ignore[\ny = 2  # type:ignore\nz: int = 's' # type: ignore # noqa\nw: int = 's' # type: ignore[assignment, misc] # why\nv: int = 's' # type: ignore [assignment]\nu: int = 's' #type: ignore[]\n",
    "# mypy: disable-error-code=assignment\nx: int = 's'\ny = 1 + 's'\n",
    "# mypy: implicit-optional\ndef f(x: int = None) -> None: pass\nf(None)\n",
    # decorators positions
    "@undefined_dec\ndef f(): pass\n@  undefined2 . attr (\n  1)\nclass C: pass\n@1 + 2\ndef g(): pass\n",
    "def dec(f): return f\nclass A:\n    @dec\n    @dec\n    def m(self, x: int) -> str:\n        return x\n    @dec\n\n    def n(self) -> int:\n        return 's'\n",
    # semantic-analysis / pass1 errors located at nodes
    "def f(x, x): pass\ndef g(): return\nreturn 1\nbreak\nclass A:\n    continue\n    yield 1\nawait z\n",
    "x = 1\nx: str = 's'\ndef x(): pass\nclass x: pass\nimport x\n",
    "def f(a, b=1, *c, d, e=2, **f): pass\nf()\nf(1, 2, 3, 4)\nf(1, d=1, g=2)\nf(*1)\nf(**1)\n",
    "print((yield))\n[x for x in (yield)]\n",
    "nonlocal q\nglobal r\ndef f():\n    r = 1\n    global r\n",
    "del 1\n1 = x\nf() = 1\nx + 1 = 2\n(a, 1) = 2\n",
    "def f(x=1, y): pass\n",
    "class A:\n    def f(self): return super().f() + super(A, self).g()\n    x = super.y\n",
    "a.b.c.d(1)(2)[3].e = 1\nx = a.b(\n   c=1,\n   d=2).e(\n   3)\n",
    "def f() -> int:\n    pass\ndef g() -> int:\n    ...\ndef h() -> int:\n    '''doc'''\ndef i() -> int:\n    return\n",
    "x = [\n    1,\n    's',\n]\ny: list[int] = [\n    1,\n    's',\n]\nz: dict[str, int] = {\n  'a': 1,\n  2: 's',\n  **{3: 4},\n}\n",
    "from typing import NamedTuple, TypedDict\nclass N(NamedTuple):\n    x: int\n    y: str = 1\nclass T(TypedDict, total=False):\n    a: int\nt: T = {'a': 's', 'b': 1}\nn = N('s', y=2, z=3)\n",
    "import enum\nclass E(enum.Enum):\n    A = 1\n    B = 's'\n    def m(self): return self.C\nE.A = 2\n",
    "with a as b.c, d as e[0], f as (g, h), i as [j, k]: pass\n",
    "for x.y in z: pass\nfor a[0] in z: pass\nfor (a, b), c in z: pass\nfor 1 in z: pass\n",
    "try: pass\nexcept A as e: pass\nexcept B as e.x: pass\n",
    "x = yield\n",
    "def f():\n    return 1\n    x = 2\n    y = 3\nwhile True:\n    pass\nz = 's' + 1\n",
    "from __future__ import annotations\nfrom __future__ import nope\nx: Undefined\n",
    "def f(*, a): pass\ndef g(*): pass\ndef h(a, /): pass\ndef i(/, a): pass\ndef j(a, /, b, /): pass\n",
    "print 1\n",
    "exec 'x'\n",
    "x = 1 if 2\n",
    "class A: x = 1; y: int = 's'; z = x + y\nif 1: a = 1; b = 's' + 1\n",
    "a = 1; b = 's' - 1; c: int = 'x'\n",
    "x = (\n)\ny = (\n  1\n  +\n  's'\n)\n",
    "def f(\n    a: int\n    =\n    's',\n    *\n    b\n    ,\n    **\n    c\n) -> None: pass\n",
    "lambda x=1, *y, **z: (yield x)\n(lambda: 1)(2)\n",
    "x = not 1 + 's'\ny = not (1 + 's')\nz = -'s'\nw = ~'s'\n",
    "x = a if b else c if d else e\ny: int = 's' if b else 1.0\n",
    "x = 1 < 's' < 2\ny = 's' in 1\nz = 1 is 's'\n",
    "x = a or 1 + 's' or b\ny: int = 1 and 's'\nz: int = 's' or 1 or b'x' or None\n",
    "t: tuple[int, str] = (1, 2)\nu = (1, 's')[2]\nv = ()\nw = (1,)\nx = 1,\ny: list[int] = [1, 's', 2.0]\n",
    "class A:\n    x: int\na = A()\na.y\na.x.z\na.x = 's'\nA.w = 1\n",
    "from m import (a,\n   b,\n   c as d)\nimport os.path, sys, undefined_mod\nfrom undefined_mod2.sub import thing\n",
    "def f(x) -> int:\n    if x:\n        return 's'\n    elif x > 1:\n        return None\n    else:\n        return\n",
    "while 1 + 's':\n    pass\nelse:\n    1 + 's'\nfor i in 's' + 1:\n    i + 's'\nelse:\n    2 + 's'\n",
    # `# type: ignore` attribution over multi-line nodes (span_from_context uses end_line)
    "i: int = lambda x: (\n    x)  # type: ignore[assignment]\nj: int = lambda x: (\n    x)\n",
    "from typing import Callable\ndef g(f: Callable[[int], str]) -> None: ...\ng(lambda x:\n  x)  # type: ignore\n",
    "x: int = (\n  's'\n)  # type: ignore\ny: int = [\n  1,\n]  # type: ignore[assignment]\nz: 'int' = f'{1}' \\\n  'a'  # type: ignore\n",
    "def f(\n    a: int = 's',\n    b: str = 1,  # type: ignore\n) -> None: pass\n",
    "@undefined  # type: ignore\ndef f(): pass\n@undefined2\ndef g(): pass  # type: ignore\n",
    "if x:  # type: ignore\n    pass\nelif y:  # type: ignore\n    pass\nelif z:\n    pass\n",
    "a = (1 +\n     's')  # type: ignore\nb = (1 +  # type: ignore\n     's')\nc = f(\n  1,\n  undefined)  # type: ignore\n",
    "x = 1 if y else (\n   's' + 1)  # type: ignore\nfor i in (\n   1):  # type: ignore\n    pass\n",
    "(a) + 's' * (b)\n(1) + 's'\nx = (1 + 's')\ny = ((1) + ('s'))\n(f)(1)\n(a).b\n",
    "x = 1 and 's' and 2 + 's' and z\ny = a or b or c or 1 + 's'\n",
    "def dec(f): return f\n@dec\ndef f(): pass\n@dec\ndef f(): pass\nclass A:\n    @dec\n    def m(self): pass\n    @dec\n    def m(self): pass\n",
    "def f(*, k=1, j): pass\nf()\nf(j=1)\nf(k=2)\ndef g(a, /, b, *, c=1): pass\ng(1, 2)\ng(a=1, b=2)\ng(1, b=2, c=3, d=4)\n",
    "while x:\n    y = 1\nelse:\n    y = 's' + 1\nfor i in x:\n    pass\nelse:\n    z: int = 's'\n",
    # found by the fragment model: `__x` keyword-only / star parameters and positional-only-ness
    "def f(*, __x=1): pass\nf(__x=2)\ndef g(*a, __y): pass\ng(__y=1)\ndef h(__p, q): pass\nh(__p=1, q=2)\nclass A:\n    def m(self, *, __k): pass\nA().m(__k=1)\n",
    # wave 3: diagnostics that use the positions on which the Coq model shows the converters differ (parenthesised operand, @(dec))
    "reveal_type((1) + 2)\nreveal_type((1) +\n  (2))\n",
    "def dec(f): return f\n@(dec)\ndef f(): pass\n@(dec)\ndef f(): pass\n",
    "reveal_type(a and b and c)\nx = [1, (2) * 's']\ndel (a), b\n",
]


def layout_variants(src: str, rng: "vlib.Rng") -> list[tuple[str, str]]:
    """Unusual layouts of a valid program (same tokens, different bytes)."""
    out = []
    out.append(("crlf", src.replace("\n", "\r\n")))
    out.append(("cr", src.replace("\n", "\r")))
    out.append(("tabs", re.sub(r"(?m)^((?:    )+)", lambda m: "\t" * (len(m.group(1)) // 4), src)))
    out.append(("formfeed", "\x0c\n" + src.replace("\n\n", "\n\x0c\n")))
    out.append(("noeol", src.rstrip("\n")))
    out.append(("bom", "\ufeff" + src))
    out.append(("coding", "# -*- coding: latin-1 -*-\n" + src))
    out.append(("blank+comment", "\n\n# c\n" + src.replace("\n", "  # k\n", 1)))
    # unicode identifiers / strings: shifts UTF-8 byte offsets vs character offsets
    out.append(("unicode", re.sub(r"\bx\b", "\u00e9\u00e8", src).replace("'s'", "'\u00fc\U0001F600s'")))
    out.append(("unicode-prefix", "\u00e4\u00f6 = '\U0001F600'; " + src if not src.startswith(("from __future__", "#", "@", " ")) and "\n" in src else src))
    # explicit line continuations after operators / commas
    out.append(("backslash", re.sub(r" (\+|-|and|or|==|<|=) ", lambda m: f" {m.group(1)} \\\n      ", src, count=4)))
    out.append(("longline", src.replace("'s'", "'" + "s" * 5000 + "'", 1) if "'s'" in src else "x" * 3000 + " = 1\n" + src))
    out.append(("trailing-ws", re.sub(r"\n", "   \n", src)))
    return [(k, v) for k, v in out if v != src]


def corruptions(src: str, rng: "vlib.Rng", k: int) -> list[tuple[str, str]]:
    """Single-token corruptions: delete / duplicate / replace one token."""
    import tokenize
    try:
        toks = [t for t in tokenize.generate_tokens(io.StringIO(src).readline)
                if t.type not in (tokenize.ENCODING, tokenize.ENDMARKER, tokenize.NL, tokenize.NEWLINE,
                                  tokenize.INDENT, tokenize.DEDENT, tokenize.COMMENT) and t.string]
    except (tokenize.TokenError, IndentationError, SyntaxError):
        return []
    if not toks:
        return []
    lines = src.split("\n")
    out = []
    repl = ["(", ")", "[", "]", ":", ",", "=", "def", "class", "if", "else", "1", "x", "'", "*", "**", ".", "lambda",
            "in", "not", "import", "from", "->", ":=", "@", "await", "async", "match", "case", "type", "{", "}", "\\", "f'{", "$", "?", "!"]
    for _ in range(k):
        t = rng.choice(toks)
        if t.start[0] != t.end[0]:
            continue
        kind = rng.choice(["del", "dup", "rep"])
        ln = lines[t.start[0] - 1]
        a, b = t.start[1], t.end[1]
        if kind == "del":
            new = ln[:a] + ln[b:]
        elif kind == "dup":
            new = ln[:b] + " " + ln[a:b] + ln[b:]
        else:
            new = ln[:a] + rng.choice(repl) + ln[b:]
        ls = list(lines)
        ls[t.start[0] - 1] = new
        out.append((f"{kind}@{t.start[0]}:{a}", "\n".join(ls)))
    return out


# ---------------------------------------------------------------------------- oracle

def split_lines(data: bytes) -> list[bytes]:
    """Physical lines as CPython's tokenizer sees them (\\n, \\r\\n, \\r end a line; form feed does not)."""
    return re.split(rb"\r\n|\r|\n", data)


LOC = re.compile(r"^(?P<file>[^:\n]+):(?P<line>\d+)(?::(?P<col>\d+)(?::(?P<el>\d+):(?P<ec>\d+))?)?: (?P<sev>error|note|warning): (?P<msg>.*)$")


def position_problem(line: int, col: int | None, el: int | None, ec: int | None, src: bytes) -> str | None:
    """Validity of a PRINTED location (col is 1-based = internal column + 1; ec is printed as stored = 1-based
    inclusive end).  Columns are UTF-8 byte offsets in fastparse (CPython col_offset); a tab is one column.
    Accepted as 'inside': the position just after the last character of a line (errors at the line end / EOF)."""
    lines = split_lines(src)
    if line < 1 or line > len(lines):
        return "line-out-of-file"
    if col is not None:
        ln = lines[line - 1]
        if col < 1 or col > len(ln) + 1:
            # columns could be counted in characters rather than bytes: then they are <= bytes, so still flagged only if beyond
            return "column-out-of-line"
    if el is not None and ec is not None:
        if el < line:
            return "end-line-before-start"
        if el > len(lines):
            return "end-line-out-of-file"
        if el == line and col is not None and ec < col:
            return "end-column-before-start"
        if ec > len(lines[el - 1]) + 1 or ec < 0:
            return "end-column-out-of-line"
    return None


def msg_shape(msg: str) -> str:
    if msg.startswith("Invalid syntax"):
        return "Invalid syntax"
    s = re.sub(r'"[^"]*"', '"_"', msg)
    s = re.sub(r"'[^']*'", "'_'", s)
    s = re.sub(r"\d+", "N", s)
    return s[:70]


def node_kind_at(src: str, line: int, col0: int | None) -> str:
    """Class name of the innermost CPython ast node covering (line, col0) -- 'node kind' part of a finding key."""
    import ast
    try:
        tree = ast.parse(src)
    except (SyntaxError, ValueError, RecursionError, MemoryError):
        return "unparsable"
    best = None
    best_size = None
    for n in ast.walk(tree):
        l0 = getattr(n, "lineno", None)
        if l0 is None:
            continue
        l1 = getattr(n, "end_lineno", l0) or l0
        c0 = getattr(n, "col_offset", 0)
        c1 = getattr(n, "end_col_offset", 10 ** 9)
        if col0 is None:
            inside = l0 <= line <= l1
        else:
            inside = (l0, c0) <= (line, col0) and (line, col0) < (l1, c1 if c1 is not None else 10 ** 9)
        if inside:
            size = (l1 - l0, (c1 or 0) - c0 if l1 == l0 else 10 ** 6)
            if best_size is None or size <= best_size:
                best, best_size = n, size
    return type(best).__name__ if best is not None else "none"


class Findings:
    """Collects differences keyed stably; keeps the smallest witness per key."""

    def __init__(self) -> None:
        self.items: dict[str, dict[str, Any]] = {}
        self.counts: dict[str, int] = {}
        self.by_name: dict[str, set[str]] = {}

    def add(self, key: str, what: str, data: dict[str, Any]) -> None:
        self.counts[key] = self.counts.get(key, 0) + 1
        self.by_name.setdefault(str(data.get("name")), set()).add(key)
        size = len(data.get("source", ""))
        cur = self.items.get(key)
        if cur is None or size < len(cur["data"].get("source", "")):
            self.items[key] = {"what": what, "data": data}


def classify_parse(name: str, src: str, ver: str, pr: dict[str, Any], F: Findings, leads: dict[str, int],
                   stats: dict[str, int]) -> str:
    """Compare the parse-level results of both converters for one (program, version).
    Returns 'blocked-both' | 'blocked-one' | 'open' | 'crash'."""
    d, n = pr["d"], pr["n"]
    data = src.encode("utf-8", "surrogateescape")
    base = {"source": src, "name": name, "python_version": ver, "level": "parse"}
    for who, r in (("default", d), ("native", n)):
        if r.get("crash"):
            F.add(f"parse-crash:{who}:{r['crash'].split(':')[0]}", f"{who} parser raises {r['crash'][:120]} where the other reports diagnostics",
                  dict(base, default=d, native=n))
    if d.get("crash") or n.get("crash"):
        return "crash"
    # position validity of every parse diagnostic (both parsers): printed col = col+1
    for who, r in (("default", d), ("native", n)):
        for (line, col, el, ec, sev, msg, code, blk) in r["msgs"]:
            stats["positions_checked"] = stats.get("positions_checked", 0) + 1
            prob = position_problem(line, col + 1 if col is not None and col >= 0 else None,
                                    el if (el is not None and el >= 0 and ec is not None and ec >= 0 and col >= 0) else None,
                                    ec if (el is not None and el >= 0 and ec is not None and ec >= 0 and col >= 0) else None, data)
            if prob:
                F.add(f"pos:{prob}:{who}:" + ("syntax-error" if blk else "parse:" + msg_shape(msg)), f"{who} parser diagnostic '{msg}' at {line}:{col + 1}:{el}:{ec} is outside the file ({prob})",
                      dict(base, diagnostic=[line, col, el, ec, sev, msg, code], parser=who))
    if d["blocked"] != n["blocked"]:
        who = "default-only" if d["blocked"] else "native-only"
        r = d if d["blocked"] else n
        first = next((m for m in r["msgs"] if m[7]), r["msgs"][0] if r["msgs"] else [0, 0, 0, 0, "", "?", None, True])
        F.add(f"blocker-mismatch:{who}:{msg_shape(first[5])}",
              f"file rejected with a blocking error by the {who.split('-')[0]} parser only: {first[5]!r} at line {first[0]}",
              dict(base, default={"blocked": d["blocked"], "msgs": d["msgs"]}, native={"blocked": n["blocked"], "msgs": n["msgs"]}))
        return "blocked-one"
    if d["blocked"]:
        # both reject: the statement still asks for the same diagnostics
        dm = [(m[0], m[1], m[5]) for m in d["msgs"]]
        nm = [(m[0], m[1], m[5]) for m in n["msgs"]]
        if dm != nm:
            if [m[0] for m in dm] != [m[0] for m in nm]:
                k = "syntax-error:line-differs"
            elif [m[:2] for m in dm] != [m[:2] for m in nm]:
                k = "syntax-error:column-differs"
            else:
                k = "syntax-error:text-differs"
            F.add(k, f"both parsers reject the file but with different diagnostics: default {dm[:2]} native {nm[:2]}",
                  dict(base, default=d["msgs"], native=n["msgs"]))
        return "blocked-both"
    # neither blocked: non-blocking parse diagnostics must agree
    dm = sorted(tuple(m[:7]) for m in d["msgs"])
    nm = sorted(tuple(m[:7]) for m in n["msgs"])
    if dm != nm:
        ds, ns = set(dm), set(nm)
        for m in sorted(ds - ns):
            twin = [x for x in ns - ds if x[4:] == m[4:]]
            kind = "position" if twin else "missing-in-native"
            F.add(f"parse-diag:{kind}:{m[6]}:{msg_shape(m[5])}", f"parse diagnostic {list(m)} of the default parser {'is placed elsewhere' if twin else 'is absent'} under the native parser",
                  dict(base, default=d["msgs"], native=n["msgs"]))
        for m in sorted(ns - ds):
            if [x for x in ds - ns if x[4:] == m[4:]]:
                continue
            F.add(f"parse-diag:extra-in-native:{m[6]}:{msg_shape(m[5])}", f"parse diagnostic {list(m)} only under the native parser",
                  dict(base, default=d["msgs"], native=n["msgs"]))
    if d.get("ignored") != n.get("ignored"):
        leads["ignored-lines"] = leads.get("ignored-lines", 0) + 1
    if not pr["same_dump"]:
        # leads only: which (node class, field) differ
        dd, nn = d.get("dump") or [], n.get("dump") or []
        import difflib
        for tag, i1, i2, j1, j2 in difflib.SequenceMatcher(None, dd, nn, autojunk=False).get_opcodes():
            if tag == "equal":
                continue
            for a, b in zip(dd[i1:i2], nn[j1:j2]):
                ma = re.match(r"\s*([\w\[\]'\-]+?)(?:\[\d+\])*:(\w+)@(\S+) ?(.*)$", a)
                mb = re.match(r"\s*([\w\[\]'\-]+?)(?:\[\d+\])*:(\w+)@(\S+) ?(.*)$", b)
                if ma and mb and ma.group(2) == mb.group(2):
                    if ma.group(3) != mb.group(3):
                        pa = re.split(r"[:\-]", ma.group(3)); pb = re.split(r"[:\-]", mb.group(3))
                        which = ",".join(nm_ for nm_, x, y in zip(("line", "column", "end_line", "end_column"), pa, pb) if x != y)
                        k = f"ast:{ma.group(2)}:{which}"
                    else:
                        k = f"ast:{ma.group(2)}:attrs"
                else:
                    k = "ast:structure:" + (ma.group(2) if ma else "?") + "/" + (mb.group(2) if mb else "?")
                leads[k] = leads.get(k, 0) + 1
            if (i2 - i1) != (j2 - j1):
                leads["ast:structure:length"] = leads.get("ast:structure:length", 0) + 1
    return "open"


def parse_output(out: str) -> dict[str, list[tuple]]:
    """mypy output -> per file list of (line, col, end_line, end_col, severity, message-with-code)."""
    per: dict[str, list[tuple]] = {}
    for ln in out.splitlines():
        m = LOC.match(ln)
        if not m:
            per.setdefault("<other>", []).append((ln,))
            continue
        g = m.groupdict()
        per.setdefault(g["file"], []).append((int(g["line"]), int(g["col"]) if g["col"] else None,
                                              int(g["el"]) if g["el"] else None, int(g["ec"]) if g["ec"] else None,
                                              g["sev"], g["msg"]))
    return per


def code_of(msg: str) -> str:
    m = re.search(r"\[([a-z0-9\-]+)\]$", msg)
    return m.group(1) if m else "note"


def compare_check(files: dict[str, str], ver: str, od: dict[str, Any], on: dict[str, Any], F: Findings,
                  stats: dict[str, int]) -> None:
    pd_, pn = parse_output(od["stdout"]), parse_output(on["stdout"])
    for name, src in files.items():
        a, b = pd_.get(name, []), pn.get(name, [])
        base = {"source": src, "name": name, "python_version": ver, "level": "check"}
        data = src.encode("utf-8", "surrogateescape")
        stats["files_checked"] = stats.get("files_checked", 0) + 1
        if a or b:
            stats["files_with_diagnostics"] = stats.get("files_with_diagnostics", 0) + 1
        for who, lst in (("default", a), ("native", b)):
            for (line, col, el, ec, sev, msg) in lst:
                stats["positions_checked"] = stats.get("positions_checked", 0) + 1
                prob = position_problem(line, col, el, ec, data)
                if prob:
                    nk = node_kind_at(src, line, col - 1 if col else None)
                    F.add(f"pos:{prob}:{who}:{code_of(msg)}:{nk}", f"{who} parser: diagnostic at {line}:{col}:{el}:{ec} ({msg[:80]}) is outside the file text ({prob})",
                          dict(base, diagnostic=[line, col, el, ec, sev, msg], parser=who))
        if a == b:
            continue
        stats["files_differing"] = stats.get("files_differing", 0) + 1
        sa, sb = list(a), list(b)
        for x in a:
            if x in sb:
                sb.remove(x)
                sa.remove(x)
        # sa: only default, sb: only native
        used = set()
        for x in sa:
            twin = next((j for j, y in enumerate(sb) if j not in used and y[4:] == x[4:]), None)
            nk = node_kind_at(src, x[0], x[1] - 1 if x[1] else None)
            if twin is not None:
                used.add(twin)
                y = sb[twin]
                which = ",".join(nm_ for nm_, p, q in zip(("line", "column", "end_line", "end_column"), x[:4], y[:4]) if p != q)
                se = "start" if ("line" in which.split(",") or "column" in which.split(",")) else "end"
                src_lines = split_lines(data)
                if any(1 <= ln_ <= len(src_lines) and any(b > 127 for b in src_lines[ln_ - 1]) for ln_ in (x[0], x[2]) if ln_):
                    # one root cause whatever the node: columns are UTF-8 bytes under fastparse, characters under nativeparse
                    nk = "non-ascii-line"
                elif se == "end" and (x[2], x[3]) == (x[0], x[1]) and (y[2], y[3]) != (y[0], y[1]):
                    # the node had no end position under the default parser (Errors.report clamped it to one column)
                    nk = "no-end-in-default"
                elif se == "end" and (y[2], y[3]) == (y[0], y[1]) and (x[2], x[3]) != (x[0], x[1]):
                    nk = "no-end-in-native"
                F.add(f"diag-position:{se}:{nk}",
                      f"same diagnostic, different location: default {x[:4]} native {y[:4]}: {x[5][:90]}",
                      dict(base, default=[list(t) for t in a], native=[list(t) for t in b]))
            else:
                F.add(f"diag-missing-in-native:{code_of(x[5])}:{nk}",
                      f"diagnostic only under the default parser: {list(x)}",
                      dict(base, default=[list(t) for t in a], native=[list(t) for t in b]))
        for j, y in enumerate(sb):
            if j in used:
                continue
            nk = node_kind_at(src, y[0], y[1] - 1 if y[1] else None)
            F.add(f"diag-extra-in-native:{code_of(y[5])}:{nk}",
                  f"diagnostic only under the native parser: {list(y)}",
                  dict(base, default=[list(t) for t in a], native=[list(t) for t in b]))
        if not sa and not sb:
            F.add("diag-order", "same diagnostics in a different order", dict(base, default=[list(t) for t in a], native=[list(t) for t in b]))


def crashed(o: dict[str, Any]) -> bool:
    return bool(o.get("worker_died")) or o.get("status") == 99 or "INTERNAL ERROR" in (o.get("stderr") or "") \
        or "Traceback (most recent call last)" in (o.get("stderr") or "")


def run_check_batches(pool: Pool, batches: list[tuple[dict[str, str], list[int], list[str]]], F: Findings,
                      stats: dict[str, int], ctx: "vlib.Ctx", depth: int = 0) -> None:
    """Each batch: (files, version, flags).  Both parsers; on blocker / crash the batch is bisected."""
    if not batches:
        return
    tasks = []
    for files, ver, flags in batches:
        for native in (False, True):
            tasks.append({"kind": "check", "files": files, "ver": ver, "native": native, "flags": flags})
    res = pool.map(tasks, timeout=3600)
    again: list[tuple[dict[str, str], list[int], list[str]]] = []
    for k, (files, ver, flags) in enumerate(batches):
        od, on = res[2 * k], res[2 * k + 1]
        stats["check_runs"] = stats.get("check_runs", 0) + 2
        vs = f"{ver[0]}.{ver[1]}"
        bad_d = crashed(od) or od.get("status") == 2
        bad_n = crashed(on) or on.get("status") == 2
        if (bad_d or bad_n) and len(files) > 1:
            names = sorted(files)
            h = len(names) // 2
            again.append(({n_: files[n_] for n_ in names[:h]}, ver, flags))
            again.append(({n_: files[n_] for n_ in names[h:]}, ver, flags))
            continue
        if crashed(od) or crashed(on):
            name = next(iter(files))
            if crashed(od) != crashed(on):
                who = "default" if crashed(od) else "native"
                o = od if crashed(od) else on
                tb = (o.get("stderr") or o.get("worker_died") or "")
                last = [l for l in tb.strip().splitlines() if l.strip()][-1:] or ["?"]
                F.add(f"check-crash:{who}:{msg_shape(last[0])}", f"type checking crashes only with the {who} parser: {last[0][:150]}",
                      {"source": files[name], "name": name, "python_version": vs, "level": "check",
                       "default": od.get("stdout", "")[-2000:] + od.get("stderr", "")[-2000:], "native": on.get("stdout", "")[-2000:] + on.get("stderr", "")[-2000:]})
            else:
                stats["crash_both_parsers"] = stats.get("crash_both_parsers", 0) + 1
            continue
        if (od.get("status") == 2) != (on.get("status") == 2):
            name = next(iter(files))
            who = "default-only" if od.get("status") == 2 else "native-only"
            o = od if od.get("status") == 2 else on
            first = (o["stdout"].splitlines() or ["?"])[0]
            mm = LOC.match(first)
            F.add(f"blocker-mismatch:{who}:{msg_shape(mm.group('msg') if mm else first)}",
                  f"build stops with a blocking error under one parser only ({who}): {first[:150]}",
                  {"source": files[name], "name": name, "python_version": vs, "level": "check",
                   "default": od["stdout"], "native": on["stdout"]})
            continue
        compare_check(files, vs, od, on, F, stats)
    if again and depth < 12:
        run_check_batches(pool, again, F, stats, ctx, depth + 1)


FIXED_SHARD = os.path.join(vlib.VERIF, "corpus", "C14", "fixed.json")


def stable_hash(x: str) -> int:
    return int(hashlib.sha1(x.encode("utf-8", "surrogateescape")).hexdigest()[:12], 16)


def hver(x: str, k: int = 0) -> list[int]:
    return VERSIONS[(stable_hash(x) + k) % 6]


def testdata_corpus() -> tuple[list[tuple[str, str]], int]:
    td = os.path.join(vlib.REPO, "test-data", "unit")
    tfiles = sorted(os.path.join(td, f) for f in os.listdir(td)
                    if re.match(r"^(check-.*|parse.*|native-parser.*|semanal-.*)\.test$", f))
    allc = testdata_cases(tfiles)
    cases = sorted({i: s for i, s in allc if not TYPE_COMMENT.search(s) and s.strip()}.items())
    return cases, sum(1 for i, s in allc if TYPE_COMMENT.search(s))


def make_fixed() -> list[dict[str, Any]]:
    """The seed-independent shard (committed as corpus/C14/fixed.json): one minimal program per construct x layout,
    frozen corruptions, the minimal witness of every recorded finding, a frozen selection of test-data cases."""
    out: list[dict[str, Any]] = []
    rng = vlib.Rng(0, "C14-fixed")
    for k, s in enumerate(SNIPPETS):
        sid = f"snippet:{k}"
        out.append({"id": sid, "src": s, "parse": VERSIONS, "check": [[3, 9], [3, 12], [3, 14]]})
        for kind, v in layout_variants(s, rng):
            if kind == "longline" and k % 10:
                continue
            lid = f"{sid}:{kind}"
            hv = hver(lid)
            out.append({"id": lid, "src": v, "parse": [hv] if hv == [3, 12] else [hv, [3, 12]],
                        "check": [hv] if stable_hash(lid) % 8 == 0 else []})
        for kind, v in corruptions(s, rng, 6):
            cid = f"{sid}:corrupt:{kind}"
            out.append({"id": cid, "src": v, "parse": [hver(cid)], "check": []})
    fj = os.path.join(vlib.VERIF, "notes", "C14-findings.json")
    if os.path.exists(fj):
        seen = set()
        for f in json.load(open(fj))["findings"]:
            src = f.get("source")
            if not isinstance(src, str) or (src, f.get("python_version")) in seen:
                continue
            seen.add((src, f.get("python_version")))
            ver = [int(x) for x in str(f.get("python_version", "3.12")).split(".")]
            wid = "witness:" + hashlib.sha1((src + str(ver)).encode("utf-8", "surrogateescape")).hexdigest()[:10] + \
                  (".pyi" if str(f.get("name", "")).endswith(".pyi") else "")
            out.append({"id": wid, "src": src, "parse": [ver], "check": [ver]})
    cases, _ = testdata_corpus()
    sel = sorted(cases, key=lambda c: stable_hash(c[0]))[:200]
    for i, src in sorted(sel):
        out.append({"id": "frozen:" + i, "src": src, "parse": [hver(i)], "check": [hver(i)]})
    # unique ids
    seen_ids: set[str] = set()
    res = []
    for e in out:
        if e["id"] in seen_ids:
            continue
        seen_ids.add(e["id"])
        res.append(e)
    return res


def load_fixed(ctx: "vlib.Ctx") -> list[dict[str, Any]]:
    if os.path.exists(FIXED_SHARD):
        return json.load(open(FIXED_SHARD, encoding="utf-8"))["programs"]
    ctx.log("S: corpus/C14/fixed.json missing: generated in memory (python tools/harness/C14.py --make-fixed writes it)")
    return make_fixed()


def build_corpus(ctx: "vlib.Ctx") -> list[dict[str, Any]]:
    """Every program of the run: {id, src, parse: [versions], check: [versions], flags}.
    FIXED part (independent of VERIF_SEED): the committed shard + every test-data case of /repo at parse level with a
    version chosen by a stable hash.  SEEDED part (small in the quick tier): random test-data cases for the full
    check, random single-token corruptions, mypy's own files."""
    rng = vlib.Rng(ctx.seed, "corpus")
    progs: list[dict[str, Any]] = []
    only = os.environ.get("C14_ONLY")
    fixed = load_fixed(ctx)
    if only == "snippets1":     # development aid (mutation tests): the hand-written forms only, one version
        fixed = [dict(e, parse=[[3, 12]], check=[[3, 12]]) for e in fixed if re.match(r"^snippet:\d+$", e["id"])]
    progs += [dict(e, flags=[]) for e in fixed]
    n_fixed = len(progs)
    cases, n_type_comment = testdata_corpus()
    if only in ("snippets", "snippets1"):
        cases = cases[:40] if only == "snippets" else []
    for i, s in cases:
        vs = [hver(i)] if ctx.quick else [hver(i), hver(i, 2), hver(i, 4)]
        progs.append({"id": i, "src": s, "parse": vs, "check": [], "flags": []})
    # ---- seeded part
    n_seed_check = ctx.n(60, 2600)
    n_seed_corrupt_src = ctx.n(80, 4000)
    per_src = ctx.n(4, 6)
    n_seeded = 0
    if cases:
        byid = {p_["id"]: p_ for p_ in progs}
        for i, s in rng.sample(cases, min(n_seed_check, len(cases))):
            v = rng.choice(VERSIONS)
            e = byid[i]
            if v not in e["parse"]:
                e["parse"] = e["parse"] + [v]
            e["check"] = e["check"] + [v]
            n_seeded += 1
        n_cor = 0
        for i, s in rng.sample(cases, min(n_seed_corrupt_src, len(cases))):
            for kind, v in corruptions(s, rng, per_src):
                progs.append({"id": f"{i}:corrupt:{kind}:{n_cor}", "src": v, "parse": [VERSIONS[n_cor % 6]], "check": [], "flags": []})
                n_cor += 1
        n_seeded += n_cor
    own = []
    if not only:
        for root, dirs, files in os.walk(os.path.join(vlib.REPO, "mypy")):
            dirs[:] = sorted(x for x in dirs if x not in ("typeshed", "__pycache__", "xml"))
            for f in sorted(files):
                if f.endswith(".py"):
                    p = os.path.join(root, f)
                    try:
                        s = open(p, encoding="utf-8").read()
                    except (OSError, UnicodeDecodeError):
                        continue
                    if not TYPE_COMMENT.search(s):
                        own.append((os.path.relpath(p, vlib.REPO), s))
        rng.shuffle(own)
        for k, (i, s) in enumerate(own[:ctx.n(30, len(own))]):
            progs.append({"id": i, "src": s, "parse": [VERSIONS[k % 6]], "check": [[3, 12]] if k < ctx.n(2, 24) else [],
                          "flags": ["--follow-imports=skip"]})
    ctx.cov["corpus"] = {"fixed_shard_programs": n_fixed, "testdata_cases_parse_level(all, stable version)": len(cases),
                         "testdata_cases_excluded_type_comments": n_type_comment, "seeded_sample": n_seeded, "own_files": len(own),
                         "snippets": len(SNIPPETS)}
    return progs


def search_stage(ctx: "vlib.Ctx", pool: Pool) -> Findings:
    F = Findings()
    leads: dict[str, int] = {}
    stats: dict[str, int] = {}
    corpus = build_corpus(ctx)
    progs: list[tuple[str, str, list[list[int]]]] = [(e["id"], e["src"], e["parse"]) for e in corpus]
    ctx.log(f"S: parse level on {len(progs)} programs ({sum(len(v) for _, _, v in progs)} program x version pairs)")

    # ---------------- parse level
    chunk = 25
    tasks = []
    index: list[list[tuple[str, str]]] = []
    for a in range(0, len(progs), chunk):
        part = progs[a:a + chunk]
        tasks.append({"kind": "parse", "programs": [{"name": f"c14_{a + j:05d}.py" + ("i" if pid.endswith(".pyi") else ""), "src": s, "vers": vs}
                                                    for j, (pid, s, vs) in enumerate(part)]})
        index.append([(pid, s) for pid, s, _ in part])
    t0 = time.time()
    res = pool.map(tasks, timeout=3600)
    status: dict[tuple[str, str], str] = {}
    lead_srcs: dict[str, int] = {}
    for t, r, idx in zip(tasks, res, index):
        if "results" not in r:
            if "worker_error" in r:
                ctx.broke("S", "parse worker (harness error)", json.dumps(r)[:1500])
                continue
            # find the culprit: rerun one by one
            for pr_, (pid, s) in zip(t["programs"], idx):
                r1 = pool.map([{"kind": "parse", "programs": [pr_]}], timeout=1200)[0]
                if "results" not in r1:
                    F.add("parse-crash:worker-died", f"a parser kills or hangs the process on this file: {str(r1)[:200]}",
                          {"source": s, "name": pid, "level": "parse", "detail": r1})
            continue
        for x, (pid, s) in zip(r["results"], idx):
            if "decode_error" in x:
                stats["undecodable"] = stats.get("undecodable", 0) + 1
                continue
            for ver, pr in x["vers"].items():
                stats["parse_pairs"] = stats.get("parse_pairs", 0) + 1
                before = dict(leads)
                st = classify_parse(pid, s, ver, pr, F, leads, stats)
                status[(pid, ver)] = st
                stats["parse_" + st] = stats.get("parse_" + st, 0) + 1
                if leads != before:
                    lead_srcs[pid] = lead_srcs.get(pid, 0) + 1
    ctx.log(f"S: parse level done in {time.time() - t0:.0f}s: " + ", ".join(f"{k}={v}" for k, v in sorted(stats.items())))

    # ---------------- full type check in batches (programs neither parser blocks)
    def open_in(pid: str, ver: list[int]) -> bool:
        return status.get((pid, f"{ver[0]}.{ver[1]}")) == "open"
    batches: list[tuple[dict[str, str], list[int], list[str]]] = []
    src_of: dict[str, tuple[str, str]] = {}

    def add_batches(items: list[tuple[str, str, list[int]]], size: int, flags: list[str]) -> None:
        byver: dict[tuple[int, int], list[tuple[str, str]]] = {}
        for pid, s, ver in items:
            byver.setdefault((ver[0], ver[1]), []).append((pid, s))
        for ver, lst in sorted(byver.items()):
            for a in range(0, len(lst), size):
                files = {}
                for pid, s in lst[a:a + size]:
                    nm = f"c14_{len(src_of):05d}.py" + ("i" if pid.endswith(".pyi") else "")
                    src_of[nm] = (pid, s)
                    files[nm] = s
                batches.append((files, [ver[0], ver[1]], flags))
    by_flags: dict[tuple[str, ...], list[tuple[str, str, list[int]]]] = {}
    for e in corpus:
        for v in e["check"]:
            if open_in(e["id"], v):
                by_flags.setdefault(tuple(e.get("flags", [])), []).append((e["id"], e["src"], v))
    for fl, items in sorted(by_flags.items()):
        add_batches(items, 2 if fl else 40, list(fl))
    ctx.log(f"S: full check of {len(src_of)} files in {len(batches)} batches x 2 parsers")
    t0 = time.time()
    F2 = Findings()
    run_check_batches(pool, batches, F2, stats, ctx)
    # translate batch file names back to corpus ids
    for k, it in F2.items.items():
        nm = it["data"].get("name")
        if nm in src_of:
            it["data"]["name"] = src_of[nm][0]
        F.items[k] = it
        F.counts[k] = F2.counts[k]
    ctx.log(f"S: full check done in {time.time() - t0:.0f}s: " + ", ".join(f"{k}={v}" for k, v in sorted(stats.items())))
    ctx.cov["search"] = stats
    ctx.cov["ast_leads"] = dict(sorted(leads.items(), key=lambda kv: -kv[1])[:60])
    ctx.cov["finding_counts"] = dict(sorted(F.counts.items()))
    return F


def shrink_all(ctx: "vlib.Ctx", pool: Pool, F: Findings, keys: list[str], max_rounds: int = 10) -> None:
    """Line-based delta debugging of the witnesses of `keys`, all keys in lock step (one pool.map per round)."""
    st: dict[str, dict[str, Any]] = {}
    for k in keys:
        d = F.items[k]["data"]
        if "source" not in d or d["source"].count("\n") < 2:
            continue
        st[k] = {"lines": d["source"].split("\n"), "n": 2, "ver": [int(x) for x in d.get("python_version", "3.12").split(".")],
                 "level": d.get("level", "parse"), "stub": str(d.get("name", "")).endswith(".pyi")}
    for rnd in range(max_rounds):
        active = [k for k, v in st.items() if not v.get("done")]
        if not active:
            break
        cands: dict[str, list[tuple[str, str]]] = {}
        uid = 0
        for k in active:
            v = st[k]
            L = v["lines"]
            n = min(v["n"], len(L))
            size = max(1, len(L) // n)
            cs = []
            for a0 in range(0, len(L), size):
                rest = L[:a0] + L[a0 + size:]
                if rest and any(x.strip() for x in rest):
                    uid += 1
                    cs.append((f"c14s_{uid:05d}.py" + ("i" if v["stub"] else ""), "\n".join(rest)))
            cands[k] = cs[:12]
        ptasks = [{"kind": "parse", "programs": [{"name": nm, "src": src, "vers": [st[k]["ver"]]} for nm, src in cands[k]], "dump": False}
                  for k in active]
        pres = pool.map(ptasks, timeout=1800)
        keysets: dict[str, set[str]] = {}
        open_files: dict[str, dict[str, str]] = {}
        for k, r in zip(active, pres):
            FF = Findings()
            for x, (nm, src) in zip(r.get("results", []), cands[k]):
                for ver, pr in x.get("vers", {}).items():
                    stt = classify_parse(nm, src, ver, pr, FF, {}, {})
                    if stt == "open" and st[k]["level"] == "check":
                        open_files.setdefault(k, {})[nm] = src
            for nm, ks in FF.by_name.items():
                keysets.setdefault(nm, set()).update(ks)
        ck = [k for k in active if open_files.get(k)]
        if ck:
            FF = Findings()
            run_check_batches(pool, [(open_files[k], st[k]["ver"], []) for k in ck], FF, {}, ctx)
            for nm, ks in FF.by_name.items():
                keysets.setdefault(nm, set()).update(ks)
        for k in active:
            v = st[k]
            hit = next(((nm, src) for nm, src in cands[k] if k in keysets.get(nm, set())), None)
            if hit is not None:
                v["lines"] = hit[1].split("\n")
                v["n"] = max(v["n"] - 1, 2)
                if len(v["lines"]) < 2:
                    v["done"] = True
            elif v["n"] >= len(v["lines"]):
                v["done"] = True
            else:
                v["n"] = min(len(v["lines"]), v["n"] * 2)
    shrunk = []
    for k, v in st.items():
        new = "\n".join(v["lines"])
        d = F.items[k]["data"]
        if len(new) < len(d["source"]):
            d["source_before_shrinking_len"] = len(d["source"])
            d["source"] = new
            shrunk.append(k)
    # record the outputs of the shrunk witnesses themselves
    if shrunk:
        ptasks = [{"kind": "parse", "programs": [{"name": "w.py" + ("i" if st[k]["stub"] else ""), "src": F.items[k]["data"]["source"],
                                                  "vers": [st[k]["ver"]]}], "dump": False} for k in shrunk]
        ctasks = [{"kind": "check", "files": {"w.py" + ("i" if st[k]["stub"] else ""): F.items[k]["data"]["source"]}, "ver": st[k]["ver"],
                   "native": nat, "flags": []} for k in shrunk if st[k]["level"] == "check" for nat in (False, True)]
        res = pool.map(ptasks + ctasks, timeout=1800)
        ci = len(ptasks)
        for j, k in enumerate(shrunk):
            d = F.items[k]["data"]
            if st[k]["level"] == "check":
                od, on = res[ci], res[ci + 1]
                ci += 2
                d["default"] = (od.get("stdout") or "").splitlines() + [l for l in (od.get("stderr") or "").splitlines()[-3:]]
                d["native"] = (on.get("stdout") or "").splitlines() + [l for l in (on.get("stderr") or "").splitlines()[-3:]]
            else:
                r = res[j]
                try:
                    pr = next(iter(r["results"][0]["vers"].values()))
                    d["default"] = {"blocked": pr["d"].get("blocked"), "msgs": pr["d"].get("msgs"), "crash": pr["d"].get("crash")}
                    d["native"] = {"blocked": pr["n"].get("blocked"), "msgs": pr["n"].get("msgs"), "crash": pr["n"].get("crash")}
                except Exception:  # noqa: BLE001
                    pass
            d["note"] = "witness shrunk by line-based delta debugging; `default`/`native` are the outputs for the shrunk source"


CLAMP_HEADER = """From Coq Require Import ZArith List Bool.
From Gen Require Import Clamp.
Open Scope Z_scope.
"""


def clamp_stage(ctx: "vlib.Ctx", pool: Pool) -> None:
    """Translator self-correspondence: Gen.Clamp.report_clamp (vm_compute) vs the real Errors.report."""
    def o(v: int | None) -> str:
        return "None" if v is None else f"(Some ({v}))"
    tuples = [[l, c, el, ec] for l in (-1, 0, 1, 2, 5) for c in (None, -1, 0, 3) for el in (None, -1, 0, 1, 2, 5, 7)
              for ec in (None, -1, 0, 3, 4, 9)]
    rng = vlib.Rng(ctx.seed, "clamp")
    for _ in range(ctx.n(100, 600)):
        tuples.append([rng.randint(-2, 50), rng.choice([None, rng.randint(-2, 200)]), rng.choice([None, rng.randint(-2, 60)]),
                       rng.choice([None, rng.randint(-2, 200)])])
    r = pool.map([{"kind": "clamp", "tuples": tuples}], timeout=1200)[0]
    if "results" not in r:
        ctx.broke("C", "clamp: real Errors.report", json.dumps(r)[:1500])
        return
    out = ctx.eval_cases("clamp", CLAMP_HEADER, [f"report_clamp ({l}) {o(c)} {o(el)} {o(ec)}" for l, c, el, ec in tuples], per_file=500)
    if out is None:
        return
    bad = 0
    changed = 0
    for t, real, m in zip(tuples, r["results"], out):
        mm = [int(x) for x in re.findall(r"-?\d+", m)]
        if mm != real:
            bad += 1
            if bad <= 3:
                ctx.broke("C", "clamp translator self-correspondence", f"report{tuple(t)}: model {mm} real {real}", {"tuple": t})
        if real != [t[0], t[1], t[2], t[3]]:
            changed += 1
        # the theorem's conclusion, observed on the real object
        if not (real[2] >= real[0] and (real[2] != real[0] or real[3] > real[1])):
            ctx.violation("clamp:malformed-span-stored", f"Errors.report{tuple(t)} stores the malformed span {real}", {"tuple": t, "stored": real})
    ctx.add("evaluations", len(tuples))
    ctx.add("traces_validated_against_impl", len(tuples) - bad)
    ctx.cov["clamp"] = {"tuples": len(tuples), "tuples_where_the_clamp_changes_something": changed, "mismatches": bad}
    ctx.sample({"clamp_input": tuples[37], "stored": r["results"][37]})
    ctx.log(f"C: clamp self-correspondence on {len(tuples)} tuples ({changed} changed by the clamp), mismatches={bad}")


def run(ctx: "vlib.Ctx") -> None:
    from extractors import t14
    from py2gallina import Unsupported
    ctx.cov["rule"] = ("S: a case is a (program, target version) pair run under BOTH parsers; non-trivial = at least one parser prints a "
                       "diagnostic or rejects the file; distinct = distinct source text.  C: fragment programs (exhaustive list of forms + "
                       "seeded random), non-trivial = inside the fragment; clamp tuples: boundary grid + random")
    ctx.assumptions += [
        "PARTIAL: proved = (a) span clamp of Errors.report for all inputs, (b) agreement of the two converters (positions included) on "
        "well-formed trees of a syntax fragment; every other construct and the whole type checker are covered by differential search only",
        "the serializer (ast_serialize, external Rust binary) is modelled by `emit` for the fragment only; tie = token-exact comparison with "
        "the real bytes on generated fragment programs (is_unreachable=false, i.e. no version/platform/TYPE_CHECKING tests in the fragment)",
        "CPython 3.12 `ast` positions are the input of both models; librt.internal primitive codec (read_tag/int/str/bool) trusted",
        "mypy's checker is a deterministic function of the parsed tree (C10); diagnostics compared textually",
        "position validity: columns are UTF-8 byte offsets (CPython col_offset), a tab is one column, the position just after the last "
        "character of a line counts as inside the line",
    ]
    stages = os.environ.get("C14_STAGES", "TPCS")   # development aid: e.g. C14_STAGES=S for corpus sweeps
    # ---- T
    if "T" in stages:
        try:
            t14.generate()
        except (Unsupported, Exception) as e:  # noqa: BLE001
            ctx.broke("T", "t14 (Errors.report clamp -> gen/Clamp.v)", f"{type(e).__name__}: {e}")
    # ---- P + A
    if "P" in stages:
        ctx.prove("C14/Properties.v", ["C14", "gen", "lib"])
    pool = Pool(vlib.NPROC, ctx)
    try:
        # ---- C
        if "C" in stages:
            clamp_stage(ctx, pool)
            frag_stage(ctx, pool)
        # ---- S
        F = search_stage(ctx, pool) if "S" in stages else Findings()
    finally:
        t_close = time.time()
        pool.close()
        ctx.log(f"workers closed in {time.time() - t_close:.0f}s")
    known = {k["key"] for k in vlib.load_known() if k.get("property") == "C14"}
    todo = [k for k in sorted(F.items) if (k not in known or os.environ.get("C14_SHRINK_ALL")) and len(F.items[k]["data"].get("source", "")) > 60]
    if todo and not os.environ.get("C14_NO_SHRINK"):
        ctx.log(f"S: shrinking the witnesses of {len(todo)} findings")
        pool2 = Pool(vlib.NPROC, ctx)
        try:
            shrink_all(ctx, pool2, F, todo[:60], max_rounds=ctx.n(8, 14))
        finally:
            pool2.close()
    for k, it in sorted(F.items.items()):
        ctx.violation(k, it["what"], it["data"])
    if os.environ.get("C14_WRITE_FINDINGS"):
        with open(os.environ["C14_WRITE_FINDINGS"], "w") as f:
            json.dump({"findings": [{"key": k, "count": F.counts.get(k, 1), "what": it["what"], **it["data"]}
                                    for k, it in sorted(F.items.items())]}, f, indent=1, default=str)
    st = ctx.cov.get("search", {})
    ctx.add("evaluations", st.get("parse_pairs", 0) + st.get("files_checked", 0))
    ctx.cov["distinct_nontrivial"] = st.get("files_with_diagnostics", 0) + st.get("parse_blocked-both", 0) + st.get("parse_blocked-one", 0)


def replay(ctx: "vlib.Ctx", path: str) -> None:
    rec = json.load(open(path))
    data = rec["replay"]
    pool = Pool(1, ctx)
    try:
        src = data["source"]
        ver = [int(x) for x in data.get("python_version", "3.12").split(".")]
        F = Findings()
        stats: dict[str, int] = {}
        r = pool.map([{"kind": "parse", "programs": [{"name": "replay.py", "src": src, "vers": [ver]}]}])[0]
        for x in r.get("results", []):
            for v, pr in x["vers"].items():
                st = classify_parse("replay", src, v, pr, F, {}, stats)
                if st == "open":
                    run_check_batches(pool, [({"replay.py": src}, ver, [])], F, stats, ctx)
        for k, it in sorted(F.items.items()):
            ctx.log("replayed difference:", k, "-", it["what"])
            if k == rec["key"]:
                ctx.violation(k, it["what"], it["data"])
    finally:
        pool.close()


# ======================================================================================
# fragment tie (stage C for coq/C14/Model.v)
# ======================================================================================
COQ_TAGS = ["LITERAL_NONE", "LITERAL_INT", "LITERAL_STR", "LIST_GEN", "LIST_INT", "LOCATION", "END_TAG", "EXPR_STMT", "CALL_EXPR",
            "NAME_EXPR", "STR_EXPR", "MEMBER_EXPR", "OP_EXPR", "INT_EXPR", "IF_STMT", "ASSIGNMENT_STMT", "TUPLE_EXPR", "BLOCK",
            "LIST_EXPR", "RETURN_STMT", "WHILE_STMT", "COMPARISON_EXPR", "BOOL_OP_EXPR", "PASS_STMT", "UNARY_EXPR", "FOR_STMT",
            "CONDITIONAL_EXPR", "FUNC_DEF_STMT", "CLASS_DEF", "DICT_STR_GEN", "DECORATOR", "SET_EXPR", "DICT_EXPR", "INDEX_EXPR",
            "SLICE_EXPR", "STAR_EXPR", "LAMBDA_EXPR", "OPERATOR_ASSIGNMENT_STMT", "BREAK_STMT", "CONTINUE_STMT", "GLOBAL_DECL",
            "NONLOCAL_DECL", "DEL_STMT", "ASSERT_STMT", "RAISE_STMT", "IMPORT", "IMPORT_FROM", "IMPORT_ALL", "WITH_STMT", "TRY_STMT",
            "TEMP_NODE", "UNBOUND_TYPE", "UNION_TYPE", "ELLIPSIS_EXPR", "GENERATOR_EXPR", "LIST_COMPREHENSION", "SET_COMPREHENSION",
            "DICT_COMPREHENSION", "YIELD_EXPR", "YIELD_FROM_EXPR", "AWAIT_EXPR", "ASSIGNMENT_EXPR", "BYTES_EXPR", "FLOAT_EXPR",
            "COMPLEX_EXPR", "LITERAL_FLOAT"]
BINOP_C = {"+": "Add", "-": "Sub", "*": "Mult", "@": "MatMult", "/": "Div", "%": "Mod", "**": "Pow", "<<": "LShift", ">>": "RShift",
           "|": "BitOr", "^": "BitXor", "&": "BitAnd", "//": "FloorDiv"}
CMPOP_C = {"==": "Eq", "!=": "NotEq", "<": "Lt", "<=": "LtE", ">": "Gt", ">=": "GtE", "is": "Is", "is not": "IsNot", "in": "In", "not in": "NotIn"}
UNOP_C = {"~": "Invert", "not": "Not", "+": "UAdd", "-": "USub"}


def cq_s(s: str) -> str:
    assert all(32 <= ord(c) < 127 for c in s), s
    return '"' + s.replace('"', '""') + '"%string'


def cq_z(n: int) -> str:
    return f"({n})%Z"


def cq_pos(p: list) -> str:
    return "(P " + " ".join(cq_z(x) for x in p[1:]) + ")"


def cq_oe(o: list) -> str:
    return "ONone" if len(o) == 1 else f"(OSome {cq_expr(o[1])})"


def cq_params(ps: list) -> str:
    r = "PNil"
    for x in reversed(ps):
        r = f"(PCons {cq_pos(x[1])} {cq_pos(x[2])} {cq_s(x[3])} {x[4]} {cq_oe(x[5])} {r})"
    return r


def cq_strlist(l: list) -> str:
    return "[" + "; ".join(cq_s(x[1]) for x in l) + "]"


def cq_aliases(l: list) -> str:
    return "[" + "; ".join(f"({cq_s(a[1])}, " + (f"Some {cq_s(a[2])}" if a[2] is not None else "None") + ")" for a in l) + "]"


def cq_expr(e: list) -> str:
    k = e[0]
    if k == "ESet":
        return f"(ESet {cq_pos(e[1])} {cq_exprs(e[2])})"
    if k == "EDict":
        d = "DNil"
        for it in reversed(e[2]):
            d = f"(DCons {cq_oe(it[1])} {cq_expr(it[2])} {d})"
        return f"(EDict {cq_pos(e[1])} {d})"
    if k == "ESubscript":
        return f"(ESubscript {cq_pos(e[1])} {cq_expr(e[2])} {cq_expr(e[3])})"
    if k == "ESlice":
        return f"(ESlice {cq_pos(e[1])} {cq_oe(e[2])} {cq_oe(e[3])} {cq_oe(e[4])})"
    if k == "EStar":
        return f"(EStar {cq_pos(e[1])} {cq_expr(e[2])})"
    if k == "ELambda":
        return f"(ELambda {cq_pos(e[1])} {cq_params(e[2])} {cq_expr(e[3])})"
    if k == "EYield":
        return f"(EYield {cq_pos(e[1])} {cq_oe(e[2])})"
    if k in ("EYieldFrom", "EAwait"):
        return f"({k} {cq_pos(e[1])} {cq_expr(e[2])})"
    if k == "EWalrus":
        return f"(EWalrus {cq_pos(e[1])} {cq_pos(e[2])} {cq_s(e[3])} {cq_expr(e[4])})"
    if k == "EBytes":
        return f"(EBytes {cq_pos(e[1])} {cq_s(e[2])})"
    if k == "EFloat":
        return f"(EFloat {cq_pos(e[1])} {cq_z(e[2])})"
    if k == "EComplex":
        return f"(EComplex {cq_pos(e[1])} {cq_z(e[2])} {cq_z(e[3])})"
    if k == "EConst":
        return f"(EConst {cq_pos(e[1])} {e[2]})"
    if k == "EEllipsis":
        return f"(EEllipsis {cq_pos(e[1])})"
    if k in ("EComp", "EDictComp"):
        g = "GNil"
        for x in reversed(e[-1]):
            g = f"(GCons {cq_expr(x[1])} {cq_expr(x[2])} {cq_exprs(x[3])} {g})"
        if k == "EComp":
            return f"(EComp {cq_pos(e[1])} {e[2]} {cq_expr(e[3])} {g})"
        return f"(EDictComp {cq_pos(e[1])} {cq_expr(e[2])} {cq_expr(e[3])} {g})"
    if k == "EName":
        return f"(EName {cq_pos(e[1])} {cq_s(e[2])})"
    if k == "EInt":
        return f"(EInt {cq_pos(e[1])} {cq_z(e[2])})"
    if k == "EStr":
        return f"(EStr {cq_pos(e[1])} {cq_s(e[2])})"
    if k == "EAttr":
        return f"(EAttr {cq_pos(e[1])} {cq_expr(e[2])} {cq_s(e[3])})"
    if k == "ECall":
        a = "ANil"
        items = []
        for x in e[3]:
            items.append(("APos" if x[0] == "PPos" else "AStar", x[1]))
        for x in e[4]:
            items.append((f"(ANamed {cq_s(x[1])})", x[2]) if x[0] == "KNamed" else ("ADStar", x[1]))
        for kd, x in reversed(items):
            a = f"(ACons {kd} {cq_expr(x)} {a})"
        return f"(ECall {cq_pos(e[1])} {cq_expr(e[2])} {a})"
    if k == "EBin":
        return f"(EBin {cq_pos(e[1])} {BINOP_C[e[2][1]]} {cq_expr(e[3])} {cq_expr(e[4])})"
    if k == "EUnary":
        return f"(EUnary {cq_pos(e[1])} {UNOP_C[e[2][1]]} {cq_expr(e[3])})"
    if k == "ECompare":
        c = "CNil"
        for pr in reversed(e[3]):
            c = f"(CCons {CMPOP_C[pr[1][1]]} {cq_expr(pr[2])} {c})"
        return f"(ECompare {cq_pos(e[1])} {cq_expr(e[2])} {c})"
    if k == "EBoolOp":
        return f"(EBoolOp {cq_pos(e[1])} {'And' if e[2][1] == 'and' else 'Or'} {cq_expr(e[3])} {cq_expr(e[4])} {cq_exprs(e[5])})"
    if k == "EIfExp":
        return f"(EIfExp {cq_pos(e[1])} {cq_expr(e[2])} {cq_expr(e[3])} {cq_expr(e[4])})"
    if k in ("ETuple", "EList"):
        return f"({k} {cq_pos(e[1])} {cq_exprs(e[2])})"
    raise ValueError(k)


def cq_exprs(l: list) -> str:
    r = "ENil"
    for x in reversed(l):
        r = f"(ECons {cq_expr(x)} {r})"
    return r


def cq_stmts(l: list) -> str:
    r = "SNil"
    for x in reversed(l):
        r = f"(SCons {cq_stmt(x)} {r})"
    return r


def cq_ty(t: list) -> str:
    k = t[0]
    if k == "TyName":
        return f"(TyName {cq_pos(t[1])} {cq_s(t[2])})"
    if k == "TyNone":
        return f"(TyNone {cq_pos(t[1])})"
    if k == "TySub":
        a = "TNil"
        for x in reversed(t[4]):
            a = f"(TCons {cq_ty(x)} {a})"
        return f"(TySub {cq_pos(t[1])} {cq_s(t[2])} {'true' if t[3] else 'false'} {a})"
    if k == "TyUnion":
        return f"(TyUnion {cq_pos(t[1])} {cq_ty(t[2])} {cq_ty(t[3])})"
    raise ValueError(k)


def cq_stmt(s: list) -> str:
    k = s[0]
    if k == "SAnnAssign":
        return f"(SAnnAssign {cq_pos(s[1])} {cq_expr(s[2])} {cq_ty(s[3])} {cq_oe(s[4])})"
    if k == "SClass":
        kw = "KNil"
        for x in reversed(s[4]):
            kw = f"(KCons {cq_s(x[1])} {cq_expr(x[2])} {kw})"
        return f"(SClass {cq_pos(s[1])} {cq_s(s[2])} {cq_exprs(s[3])} {kw} {cq_exprs(s[5])} {cq_stmt(s[6][0])} {cq_stmts(s[6][1:])})"
    if k == "SDef":
        return f"(SDef {cq_pos(s[1])} {cq_s(s[2])} {cq_params(s[3])} {cq_exprs(s[4])} {cq_pos(s[5])} {cq_stmt(s[6][0])} {cq_stmts(s[6][1:])})"
    if k == "SAugAssign":
        return f"(SAugAssign {cq_pos(s[1])} {BINOP_C[s[2][1]]} {cq_expr(s[3])} {cq_expr(s[4])})"
    if k in ("SBreak", "SContinue"):
        return f"({k} {cq_pos(s[1])})"
    if k in ("SGlobal", "SNonlocal"):
        return f"({k} {cq_pos(s[1])} {cq_strlist(s[2])})"
    if k == "SDel":
        return f"(SDel {cq_pos(s[1])} {cq_expr(s[2][0])} {cq_exprs(s[2][1:])})"
    if k == "SAssert":
        return f"(SAssert {cq_pos(s[1])} {cq_expr(s[2])} {cq_oe(s[3])})"
    if k == "SRaise":
        return f"(SRaise {cq_pos(s[1])} {cq_oe(s[2])} {cq_oe(s[3])})"
    if k == "SImport":
        return f"(SImport {cq_pos(s[1])} {cq_aliases(s[2])})"
    if k == "SImportFrom":
        return f"(SImportFrom {cq_pos(s[1])} {cq_z(s[2])} {cq_s(s[3])} {cq_aliases(s[4])})"
    if k == "SImportAll":
        return f"(SImportAll {cq_pos(s[1])} {cq_z(s[2])} {cq_s(s[3])})"
    if k == "SWith":
        w = "WNil"
        for it in reversed(s[2]):
            w = f"(WCons {cq_expr(it[1])} {cq_oe(it[2])} {w})"
        return f"(SWith {cq_pos(s[1])} {w} {cq_stmt(s[3][0])} {cq_stmts(s[3][1:])})"
    if k == "STry":
        h = "HNil"
        for it in reversed(s[3]):
            nm = "None" if it[3] is None else f"(Some ({cq_s(it[3][0])}, {cq_pos(it[3][1])}))"
            h = f"(HCons {cq_pos(it[1])} {cq_oe(it[2])} {nm} {cq_stmt(it[4][0])} {cq_stmts(it[4][1:])} {h})"
        return f"(STry {cq_pos(s[1])} {cq_stmt(s[2][0])} {cq_stmts(s[2][1:])} {h} {cq_stmts(s[4])} {cq_stmts(s[5])})"
    if k == "SExpr":
        return f"(SExpr {cq_pos(s[1])} {cq_expr(s[2])})"
    if k == "SAssign":
        return f"(SAssign {cq_pos(s[1])} {cq_exprs(s[2])} {cq_expr(s[3])})"
    if k == "SReturn":
        return f"(SReturn {cq_pos(s[1])} {cq_oe(s[2])})"
    if k == "SPass":
        return f"(SPass {cq_pos(s[1])})"
    if k == "SWhile":
        return f"(SWhile {cq_pos(s[1])} {cq_expr(s[2])} {cq_stmt(s[3][0])} {cq_stmts(s[3][1:])} {cq_stmts(s[4])})"
    if k == "SFor":
        return f"(SFor {cq_pos(s[1])} {cq_expr(s[2])} {cq_expr(s[3])} {cq_stmt(s[4][0])} {cq_stmts(s[4][1:])} {cq_stmts(s[5])})"
    if k == "SIf":
        # elif = orelse is a single If that starts in the column of this `if`
        elifs = []
        cur = s
        orelse = cur[4]
        while len(orelse) == 1 and orelse[0][0] == "SIf" and orelse[0][1][2] == s[1][2]:
            cur = orelse[0]
            elifs.append(cur)
            orelse = cur[4]
        el = "LNil"
        for c in reversed(elifs):
            el = f"(LCons {cq_pos(c[1])} {cq_expr(c[2])} {cq_stmt(c[3][0])} {cq_stmts(c[3][1:])} {el})"
        return f"(SIf {cq_pos(s[1])} {cq_expr(s[2])} {cq_stmt(s[3][0])} {cq_stmts(s[3][1:])} {el} {cq_stmts(orelse)})"
    raise ValueError(k)


def parse_coq_term(text: str) -> Any:
    """Coq's printing of a closed constructor term -> nested structure
       (constructor application = [name, args...]; list = ['list', ...]; pair = ['pair', a, b]; strings = ('s', v))."""
    toks = [t for t in re.findall(r'"(?:[^"]|"")*"|%[A-Za-z_]+|[()\[\];,]|-?\d+|[A-Za-z_][\w\.\']*', text) if not t.startswith("%")]
    pos = 0

    def atom() -> Any:
        nonlocal pos
        t = toks[pos]
        if t == "(":
            pos += 1
            a = app()
            if toks[pos] == ",":
                items = [a]
                while toks[pos] == ",":
                    pos += 1
                    items.append(app())
                a = ["pair"] + items
            assert toks[pos] == ")", (toks[pos - 3:pos + 3])
            pos += 1
            return a
        if t == "[":
            pos += 1
            items = []
            if toks[pos] != "]":
                items.append(app())
                while toks[pos] == ";":
                    pos += 1
                    items.append(app())
            assert toks[pos] == "]"
            pos += 1
            return ["list"] + items
        pos += 1
        if t.startswith('"'):
            return ("s", t[1:-1].replace('""', '"'))
        if re.match(r"-?\d+$", t):
            return int(t)
        return [t]

    def app() -> Any:
        nonlocal pos
        head = atom()
        args = []
        while pos < len(toks) and toks[pos] not in (")", "]", ";", ","):
            args.append(atom())
        if args:
            assert isinstance(head, list) and len(head) == 1, head
            return head + args
        return head
    r = app()
    assert pos == len(toks), (pos, len(toks))
    return r


def norm_real(x: Any) -> Any:
    """Rendering of real mypy trees / tokens (C14_frag) -> the structure parse_coq_term yields."""
    if isinstance(x, bool):
        return ["true"] if x else ["false"]
    if isinstance(x, int):
        return x
    if isinstance(x, str):
        return ("s", x)
    if isinstance(x, list):
        if x and isinstance(x[0], str):
            h = x[0]
            if h == "opt":
                return ["None"] if len(x) == 1 else ["Some", norm_real(x[1])]
            if h == "kind":
                return [x[1]]
            if h == "str":
                return ("s", x[1])
            if h == "none":
                return ["<None>"]
            if h == "pair":
                return ["pair"] + [norm_real(y) for y in x[1:]]
            if h == "P" or h.startswith("M"):
                return [h] + [norm_real(y) for y in x[1:]]
        return ["list"] + [norm_real(y) for y in x]
    raise ValueError(x)


FRAG_HEADER = """From Coq Require Import ZArith List String Bool.
From C14 Require Import Model.
Import ListNotations.
Open Scope Z_scope.
Set Printing Depth 1000000.
Set Printing Width 200.
"""

FRAG_FIXED = [
    "x\n", "1\n", "'s'\n", "a.b.c\n", "f()\n", "f(a, *b, k=1, **d)\n", "f(*a, b, *c)\n", "f(k=1, *a)\n", "f(**d, k=2)\n",
    "a + b\n", "a - b * c // d % e @ f / g ** h << i >> j | k ^ l & m\n", "(a) + b\n", "a + (b)\n", "(a + b)\n", "-a\n", "not a\n", "~a\n", "+a\n",
    "a < b\n", "a < b <= c != d == e > f >= g is h is not i in j not in k\n", "a and b\n", "a or b\n", "a and b and c\n",
    "a or b or c or d\n", "a and b or c and d\n", "(a and b) and c\n", "a if b else c\n", "(a, b)\n", "a, b\n", "()\n", "(a,)\n", "[]\n", "[a, b]\n",
    "x = 1\n", "x = y = z\n", "x, y = 1, 2\n", "a.b = c\n", "return\n", "return x\n", "return 1, 2\n", "pass\n",
    "while a:\n    pass\n", "while a:\n    x\n    y\nelse:\n    z\n", "for i in x:\n    pass\n", "for i, j in x:\n    a\nelse:\n    b\n    c\n",
    "if a:\n    pass\n", "if a:\n    b\nelse:\n    c\n", "if a:\n    b\nelif c:\n    d\n", "if a:\n    b\nelif c:\n    d\nelif e:\n    f\nelse:\n    g\n",
    "if a:\n    b\nelse:\n    if c:\n        d\n", "if a:\n    if b:\n        c\n    else:\n        d\n", "super().f\n", "super(A, b).f(x)\n", "sup().f\n",
    "f(\n  a,\n  b\n)\n", "x = (1 +\n     2)\n", "a.b(c).d(e)(f)\n", "f(g(h(1)), k=g(x=2))\n", "(a)\n", "((a, b))\n", "x = [a, (b, c), [d]]\n",
    "if (a):\n    pass\n", "while (a and b):\n    (x)\n", "a = -1\n", "f(-1, +2)\n", "not a and not b\n", "a if b else c if d else e\n",
    "'a' 'b'\n", "x = 'it''s'\n", "a  +  b\n", "a +\\\n  b\n", "if a: pass\n", "if a: b; c\n", "x = 1; y = 2\n", "while a: pass\nelse: pass\n",
    "for x in a, b: pass\n", "for x.y in z: pass\n", "1 if 2 else 3\n", "a[0]\n", "lambda: 1\n", "x: int = 1\n", "def f(): pass\n", "0x10\n", "10**30\n",
    "12345678901234567890123\n", "\"q\\\"uote\"\n", "'\\n'\n",
    "def f(): pass\n", "def f(a, b=1, /, c=2, *d, e, g=3, **h):\n    return a\n", "def f(a, b):\n    x = a\n    return b\n",
    "def f(*, k): pass\n", "def f(*a): pass\n", "def f(**k): pass\n", "def f(* a, ** k): pass\n", "def f(__a, b, __c__): pass\n",
    "def __add__(self, other): pass\n", "def __init__(self, x=1): pass\n", "def __call__(self, x): pass\n", "def f(a, /): pass\n",
    "def f(a=(1, 2), b=g(x)): pass\n", "def f():\n    def g(x):\n        return x\n    return g\n", "def f(): pass\ndef f(): pass\ndef g(): pass\n",
    "if a:\n    def f(): pass\nelse:\n    def f(x): pass\n", "def f(a,\n      b=1,\n      *c): pass\n", "async def f(): pass\n", "@d\ndef f(): pass\n",
    "def f(x: int): pass\n", "def f() -> int: pass\n", "def f(x, x): pass\n",
    "class A: pass\n", "class A():\n    x = 1\n", "class A(B, c.D, metaclass=M, k=1):\n    def f(self): pass\n", "@dec\n@a.b(1)\nclass A(B):\n    pass\n",
    "class A(metaclass=M, metaclass2=N):\n    pass\n", "class A(*b): pass\n", "class A(**k): pass\n", "class A(B,\n        C):\n    class D: pass\n",
    "if a:\n    class A: pass\nelse:\n    class A(B): pass\n",
    # wave 3 constructs
    "x += 1\n", "a.b //= c\n", "x[0] **= 2\n", "while a:\n    break\n    continue\n", "global a, b\n", "def f():\n    nonlocal x\n    global y\n",
    "del a\n", "del a, b\n", "del a.b, c[0]\n", "del (a)\n", "assert a\n", "assert a, 'msg'\n", "assert (a, b)\n", "raise\n", "raise E\n", "raise E(1) from None_\n",
    "import a\n", "import a.b.c\n", "import a as b, c.d as e, f\n", "from m import x\n", "from . import x\n", "from .. import x as y, z\n",
    "from .m.n import (p, q as r,)\n", "from os import *\n", "from . import *\n", "def f():\n    import a\n    from b import c\n",
    "class C:\n    import a\n    def g(self):\n        from . import *\n", "if a:\n    import b\nelse:\n    from c import d\n",
    "with a:\n    pass\n", "with a as b, c as (d, e), f:\n    x\n", "with (a as b, c):\n    pass\n", "with a as b.c, d as e[0]:\n    pass\n",
    "try:\n    pass\nexcept:\n    pass\n", "try:\n    a\nexcept E:\n    b\nexcept (F, G) as e:\n    c\nelse:\n    d\nfinally:\n    e\n",
    "try:\n    a\nfinally:\n    b\n", "try:\n    a\nexcept E as err:\n    raise X from err\n", "try:\n    a\nexcept (E) as err:\n    pass\n",
    "@d\ndef f(): pass\n", "@a.b\n@c(1, k=2)\ndef f(x, *y):\n    return x\n", "@(d)\ndef f(): pass\n", "class A:\n    @property\n    def p(self): return 1\n",
    "@d\ndef f(): pass\n@d\ndef g(): pass\n", "if a:\n    @d\n    def f(): pass\n", "@d\ndef f(): pass\n@e\ndef f(): pass\n",
    "{}\n", "{a: 1}\n", "{a: 1, **b, 'c': d}\n", "{a}\n", "{a, (b, c)}\n", "a[0]\n", "a[b][c]\n", "a[1:2]\n", "a[:]\n", "a[::2]\n", "a[1:2, ::3, b]\n",
    "a[b:c:d].e\n", "x[0] = 1\n", "a, *b = c\n", "[*a, b]\n", "(*a,)\n", "f(*a)[*b]\n", "*a, b = c\n", "for x, *y in z: pass\n",
    "lambda: 1\n", "f = lambda x, y=1, *a, k, **kw: x\n", "lambda x: (x)\n", "(lambda: a)()\n", "f(lambda x, /: x, key=lambda: 0)\n", "lambda *, k=(1, 2): k\n",
    "x = lambda a: lambda b: a + b\n", "lambda __x, y: 0\n", "def f(a=lambda: 1): pass\n",
    "x: int\n", "x: int = 1\n", "x: a.b.C = f()\n", "x: None = None_\n", "x: list[int] = []\n", "x: dict[str, list[a.B]]\n", "x: A | B\n",
    "x: A | B | None = 1\n", "x: t[()]\n", "x: t[A | B, None]\n", "(x): int = 1\n", "a.b: int = 1\n", "a[0]: C\n", "x: (int)\n", "x: t[\n  A,\n  B]\n",
    "class K:\n    y: int\n    z: Opt[K] = None_\n", "x: 'int'\n", "x: 1\n", "x: t[1]\n", "x: f()\n",
    # final round: constants and comprehensions
    "None\n", "x = None, True, False, ...\n", "f(None, k=True)\n", "x: int = None\n", "def f(a=None, *, b=False): return ...\n", "a[...]\n",
    "if x is None: pass\n", "while True:\n    break\n", "assert not False, None\n",
    "[a for b in c]\n", "[a for b in c if d if e for f in g]\n", "{a for b in c}\n", "(a for b in c)\n", "{k: v for k in z}\n",
    "{k: v for k, v in z if k if v for w in k}\n", "x = [i + 1 for i in range(3) if i]\n", "f((a for a in b))\n", "f(a for a in b)\n",
    "f(x, (a for a in b), k=[c for c in d])\n", "[(i, j) for i in a for j in b]\n", "[[j for j in i] for i in m]\n", "sum(x for x in y)\n",
    "[a async for a in b]\n", "[a for a.b in c]\n", "[a for a, *b in c]\n", "[lambda: a for a in b]\n", "[a for a in (b)]\n", "( a for a in b )\n",
    "x = {a: b for a, b in c}.y[0]\n", "[a\n for a in b\n if a]\n",
    "def g():\n    x = yield\n    y = yield a, b\n    z = yield from g()\n    return (yield)\n", "yield\n", "x = yield a\n", "def f():\n    await x\n",
    "await (a)\n", "f(await a, (yield))\n", "if (n := 10) > 5: pass\n", "x = (y := f(1))\n", "[y := 1, y]\n", "f(a := 1)\n", "while (c := g()):\n    c\n",
    "x = b'ab'\n", "f(b'', b'a b', b'a' b'b')\n", "x = b'\\x00\\n'\n", "x = br'\\d'\n", "x = 1.5\n", "x = 2j\n", "lambda: (yield)\n", "[(z := i) for i in a]\n",
    "x = 0.0, 1e10, .5, 5., 1e-3, 1_0.0_1, 1e999, 3.14j, 0j\n", "f(1.0, k=2.5)\n", "x = -1.5 + 2j\n",
]


def gen_frag_programs(rng: "vlib.Rng", n: int) -> list[str]:
    names = ["a", "b", "c", "x", "y", "foo", "bar_1", "super", "f"]
    bins = list(BINOP_C)
    cmps = list(CMPOP_C)

    def expr(d: int) -> str:
        k = rng.choice(["name", "name", "int", "str", "attr", "call", "bin", "bin", "unary", "cmp", "bool", "ifexp", "tuple", "list", "paren",
                        "set", "dict", "sub", "slice", "lambda", "starlist", "const", "comp", "comp"]) if d > 0 \
            else rng.choice(["name", "int", "str", "const"])
        if k == "const":
            return rng.choice(["None", "True", "False", "...", "b'ab'", "b''", "(yield)", "(yield x)", "(yield from y)", "(await x)", "(w := 1)", "(w := a.b)", "1.5", "0.25", "1e3", "2j"])
        if k == "comp":
            clauses = []
            for _ in range(rng.choice([1, 1, 2])):
                cl = f"for {rng.choice(['i', 'j', 'i, j', 'v.w'])} in {operand(d - 1)}"
                for _ in range(rng.choice([0, 0, 1, 2])):
                    cl += f" if {operand(d - 1)}"
                clauses.append(cl)
            body = " ".join(clauses)
            kind = rng.choice(["list", "set", "gen", "dict"])
            if kind == "dict":
                return "{" + f"{operand(d - 1)}: {operand(d - 1)} {body}" + "}"
            o, c = {"list": "[]", "set": "{}", "gen": "()"}[kind]
            return f"{o}{operand(d - 1)} {body}{c}"
        if k == "set":
            return "{" + ", ".join(expr(d - 1) for _ in range(rng.randint(1, 3))) + "}"
        if k == "dict":
            items = [f"{expr(d - 1)}: {expr(d - 1)}" if rng.random() < 0.8 else f"**{atom(d - 1)}" for _ in range(rng.randint(0, 3))]
            return "{" + ", ".join(items) + "}"
        if k == "sub":
            return f"{atom(d - 1)}[{expr(d - 1)}]"
        if k == "slice":
            part = lambda: expr(d - 1) if rng.random() < 0.5 else ""  # noqa: E731
            sl = f"{part()}:{part()}" + (f":{part()}" if rng.random() < 0.4 else "")
            return f"{atom(d - 1)}[{sl}" + (f", {expr(d - 1)}" if rng.random() < 0.2 else "") + "]"
        if k == "lambda":
            ps = rng.choice(["", "x", "x, y=1", "*a", "x, /, y", "*, k", "x, *a, k=2, **kw", "__x", "self, *, __k=1"])
            return f"(lambda {ps}: {expr(d - 1)})"
        if k == "starlist":
            return "[" + ", ".join(("*" if rng.random() < 0.5 else "") + atom(d - 1) for _ in range(rng.randint(1, 3))) + "]"
        if k == "name":
            return rng.choice(names)
        if k == "int":
            return str(rng.choice([0, 1, 7, 42, 1000, 2 ** 31, 2 ** 40]))
        if k == "str":
            return rng.choice(["'s'", '"t"', "''", "'a b'"])
        if k == "attr":
            return f"{atom(d - 1)}.{rng.choice(names)}"
        if k == "call":
            args = [expr(d - 1) for _ in range(rng.randint(0, 2))]
            if rng.random() < 0.3:
                args.append("*" + atom(d - 1))
            for _ in range(rng.randint(0, 2)):
                args.append(f"{rng.choice(['k', 'key', 'z'])}={expr(d - 1)}")
            if rng.random() < 0.25:
                args.append("**" + atom(d - 1))
            if rng.random() < 0.15:
                rng.shuffle(args)
                # keep it valid: positional after keyword is a syntax error; such programs are skipped by the worker
            sep = rng.choice([", ", ",", ",\n      "])
            return f"{atom(d - 1)}({sep.join(args)})"
        if k == "bin":
            return f"{operand(d - 1)} {rng.choice(bins)} {operand(d - 1)}"
        if k == "unary":
            return rng.choice(["-", "not ", "~", "+"]) + atom(d - 1)
        if k == "cmp":
            s = operand(d - 1)
            for _ in range(rng.randint(1, 3)):
                s += f" {rng.choice(cmps)} {operand(d - 1)}"
            return s
        if k == "bool":
            op = rng.choice([" and ", " or "])
            return op.join(operand(d - 1) for _ in range(rng.choice([2, 2, 2, 3, 4])))
        if k == "ifexp":
            return f"{operand(d - 1)} if {operand(d - 1)} else {operand(d - 1)}"
        if k == "tuple":
            n_ = rng.randint(0, 3)
            return "(" + ", ".join(expr(d - 1) for _ in range(n_)) + ("," if n_ == 1 else "") + ")"
        if k == "list":
            return "[" + ", ".join(expr(d - 1) for _ in range(rng.randint(0, 3))) + "]"
        return "(" + expr(d - 1) + ")"

    def atom(d: int) -> str:
        e = expr(d)
        return e if re.match(r"^[\w\.]+$", e) and not e[0].isdigit() else f"({e})"

    def operand(d: int) -> str:
        e = expr(d)
        if re.match(r"^[\w\.]+$|^'[^']*'$|^\(.*\)$|^\[.*\]$", e) and e.count("(") <= 1:
            return e
        # sometimes leave bare (precedence decides), mostly parenthesise to keep the intended tree
        return f"({e})"

    def tyexpr(d: int) -> str:
        k = rng.choice(["n", "n", "dot", "none", "sub", "sub", "union"]) if d > 0 else rng.choice(["n", "dot", "none"])
        if k == "n":
            return rng.choice(["int", "str", "A", "T"])
        if k == "dot":
            return rng.choice(["a.B", "m.n.C"])
        if k == "none":
            return "None"
        if k == "sub":
            args = [tyexpr(d - 1) for _ in range(rng.randint(0, 3))]
            return rng.choice(["list", "t.Dict", "G"]) + "[" + (", ".join(args) if args else "()") + ("," if len(args) == 1 and rng.random() < 0.2 else "") + "]"
        return f"{tyexpr(d - 1)} | {tyexpr(d - 1)}"

    def stmt(d: int, ind: str) -> list[str]:
        k = rng.choice(["expr", "expr", "assign", "return", "pass", "while", "for", "if", "if", "def", "def", "class", "simple", "simple", "with", "try", "try"]) if d > 0 \
            else rng.choice(["expr", "assign", "pass", "return", "simple"])
        if k == "simple":
            return [ind + rng.choice([
                f"x {rng.choice(bins)}= {expr(1)}", f"a.b += {expr(1)}", "break", "continue", "global g1, g2", "nonlocal n1",
                f"del {atom(1)}", f"del a, {atom(1)}.x", f"assert {expr(1)}", f"assert {expr(1)}, {expr(1)}", "raise", f"raise {expr(1)}",
                f"raise {expr(1)} from {expr(1)}", "import m1", "import m1.m2 as m3, m4", "from m1 import n1, n2 as n3", "from . import n1",
                "from ..m1.m2 import (n1,)", "from m1 import *", f"a, *b = {expr(1)}", f"x[{expr(1)}] = {expr(1)}",
                f"v: {tyexpr(2)}", f"v: {tyexpr(2)} = {expr(1)}", f"a.b: {tyexpr(1)} = {expr(1)}"])]
        if k == "expr":
            return [ind + expr(2)]
        if k == "assign":
            t = rng.choice(["x", "x = y", "a.b", "x, y", "(x, y)"])
            return [ind + f"{t} = {expr(2)}"]
        if k == "return":
            return [ind + rng.choice(["return", "return " + expr(2)])]
        if k == "pass":
            return [ind + "pass"]
        body = lambda: [l for _ in range(rng.randint(1, 2)) for l in stmt(d - 1, ind + "    ")]  # noqa: E731
        if k == "with":
            items = [expr(1) + rng.choice(["", " as w", " as (w1, w2)", " as w.x"]) for _ in range(rng.randint(1, 3))]
            return [ind + f"with {', '.join(items)}:"] + body()
        if k == "try":
            out = [ind + "try:"] + body()
            nh = rng.randint(0, 2)
            for _ in range(nh):
                out += [ind + rng.choice(["except:", f"except {atom(1)}:", f"except {atom(1)} as err:", "except (A, B) as e2:", "except A.B as  e3:"])] + body()
            if nh and rng.random() < 0.4:
                out += [ind + "else:"] + body()
            if nh == 0 or rng.random() < 0.4:
                out += [ind + "finally:"] + body()
            # a bare except must be last
            return out if all(("except:" not in l) for l in out[:-1]) or True else out
        if k == "class":
            heads = []
            for _ in range(rng.randint(0, 2)):
                heads.append(atom(1))
            for kwn in rng.sample(["metaclass", "total", "k"], rng.randint(0, 2)):
                heads.append(f"{kwn}={expr(1)}")
            decos = [ind + "@" + rng.choice(["dec", "a.b", "dec(1)", "f(x, k=2)"]) for _ in range(rng.choice([0, 0, 1, 2]))]
            return decos + [ind + f"class {rng.choice(['A', 'Bc', '__C'])}" + (f"({', '.join(heads)})" if heads or rng.random() < 0.2 else "") + ":"] + body()
        if k == "def":
            ps = []
            pool_ = ["a", "b", "c", "self", "__x", "__y__", "k", "_"]
            rng.shuffle(pool_)
            npos = rng.randint(0, 3)
            ndef = rng.randint(0, npos)
            for j in range(npos):
                ps.append(pool_.pop() + (f"={expr(1)}" if j >= npos - ndef else ""))
            if ps and rng.random() < 0.3:
                ps.insert(rng.randint(1, len(ps)), "/")
            if rng.random() < 0.35:
                ps.append(rng.choice(["*", "* ", "*  "]).rstrip(" ") + "args" if rng.random() < 0.7 else "* args")
                star = True
            else:
                star = False
            nkw = rng.randint(0, 2)
            if nkw and not star:
                ps.append("*")
            for j in range(nkw):
                ps.append(pool_.pop() + (f"={expr(1)}" if rng.random() < 0.5 else ""))
            if rng.random() < 0.3:
                ps.append("**kw")
            name = rng.choice(["f", "g", "meth", "__add__", "__init__", "__call__", "__private", "__eq__"])
            decos = [ind + "@" + rng.choice(["dec", "a.b", "dec(1)", "(dec)", "f(x, k=2)"]) for _ in range(rng.choice([0, 0, 0, 1, 2]))]
            return decos + [ind + f"def {name}({', '.join(ps)}):"] + body()
        if k == "while":
            out = [ind + f"while {expr(2)}:"] + body()
            if rng.random() < 0.4:
                out += [ind + "else:"] + body()
            return out
        if k == "for":
            out = [ind + f"for {rng.choice(['i', 'i, j', 'a.b'])} in {expr(2)}:"] + body()
            if rng.random() < 0.4:
                out += [ind + "else:"] + body()
            return out
        out = [ind + f"if {expr(2)}:"] + body()
        for _ in range(rng.choice([0, 0, 1, 2])):
            out += [ind + f"elif {expr(1)}:"] + body()
        if rng.random() < 0.5:
            out += [ind + "else:"] + body()
        return out
    progs = []
    for _ in range(n):
        lines = [l for _ in range(rng.randint(1, 3)) for l in stmt(2, "")]
        progs.append("\n".join(lines) + "\n")
    return progs


def frag_stage(ctx: "vlib.Ctx", pool: Pool) -> None:
    rng = vlib.Rng(ctx.seed, "frag")
    sources = list(FRAG_FIXED) + gen_frag_programs(rng, ctx.n(250, 1500))
    chunk = 25
    tasks = [{"kind": "frag", "sources": sources[a:a + chunk], "tag_names": COQ_TAGS} for a in range(0, len(sources), chunk)]
    res = pool.map(tasks, timeout=1800)
    items: list[tuple[str, dict[str, Any]]] = []
    skips: dict[str, int] = {}
    tagmap: dict[int, str] = {}
    for t, r in zip(tasks, res):
        if "results" not in r:
            ctx.broke("C", "fragment worker", json.dumps(r)[:1500])
            return
        tagmap = {v: k for k, v in r["tags"].items()}
        for src, x in zip(t["sources"], r["results"]):
            if "skip" in x:
                key = re.sub(r"\d+", "N", x["skip"])[:40]
                skips[key] = skips.get(key, 0) + 1
            else:
                items.append((src, x))
    ctx.cov["fragment_skipped"] = dict(sorted(skips.items(), key=lambda kv: -kv[1])[:12])
    exprs = []
    for src, x in items:
        exprs.append(f"(let t := {cq_stmts(x['tree'])} in (convert t, emit t, read_native (emit t), nconvert t))")
    out = ctx.eval_cases("frag", FRAG_HEADER, exprs, per_file=60, timeout=1800)
    if out is None:
        return
    n_ok = n_agree = n_disagree = 0
    bad = 0
    for (src, x), o in zip(items, out):
        try:
            term = parse_coq_term(o)
            assert term[0] == "pair" and len(term) == 5
            m_conv, m_emit, m_read, m_nconv = term[1], term[2], term[3], term[4]
        except Exception as e:  # noqa: BLE001
            ctx.broke("C", "fragment: cannot parse model output", f"{src!r}: {e}: {o[:300]}")
            return
        real_fast = norm_real(x["fast"])
        real_native = ["Some", norm_real(x["native"])]
        real_toks = ["list"] + [[k, [tagmap.get(v, f"?{v}")]] if k == "T" else [k, norm_real(v)] for k, v in x["tokens"]]
        probs = []
        if not x["covered"]:
            probs.append("recorded primitive reads do not re-encode to the serialized bytes")
        if m_conv != real_fast:
            probs.append(f"convert != fastparse: model {str(m_conv)[:300]} real {str(real_fast)[:300]}")
        if m_emit != real_toks:
            probs.append(f"emit != ast_serialize stream: model {str(m_emit)[:400]} real {str(real_toks)[:400]}")
        if m_read != real_native:
            probs.append(f"read_native(emit) != nativeparse: model {str(m_read)[:300]} real {str(real_native)[:300]}")
        if ["Some", m_nconv] != real_native:
            probs.append(f"nconvert != nativeparse: model {str(m_nconv)[:300]} real {str(real_native)[:300]}")
        if probs:
            bad += 1
            if bad <= 5:
                ctx.broke("C", "fragment correspondence", f"{src!r}: " + " | ".join(probs), {"source": src})
        else:
            n_ok += 1
        if x["fast"] == x["native"]:
            n_agree += 1
        else:
            n_disagree += 1
    # how often each source form occurs in the tied programs (constructor names of Model.v)
    forms: dict[str, int] = {}

    def count_forms(t: Any) -> None:
        if isinstance(t, list):
            if t and isinstance(t[0], str) and re.match(r"^(E|S|Ty)[A-Z]", t[0]):
                forms[t[0]] = forms.get(t[0], 0) + 1
            for y in t:
                count_forms(y)
    for _, x in items:
        count_forms(x["tree"])
    ctx.cov["fragment_forms_tied"] = dict(sorted(forms.items(), key=lambda kv: -kv[1]))
    ctx.add("traces_validated_against_impl", n_ok)
    ctx.add("evaluations", len(items) * 3)
    ctx.cov["fragment"] = {"programs": len(sources), "in_fragment": len(items), "model_matches_both_real_converters_and_bytes": n_ok,
                           "real_converters_agree": n_agree, "real_converters_disagree(positions: parenthesised operands, elif, 3+ary and/or)": n_disagree}
    ctx.sample({"fragment_source": items[len(items) // 2][0], "tokens": len(items[len(items) // 2][1]["tokens"])})
    ctx.log(f"C: fragment tie: {n_ok}/{len(items)} programs: model = real fastparse tree, real stream, real reader "
            f"(real converters agree on {n_agree}, differ on {n_disagree}); skipped {sum(skips.values())}")


if __name__ == "__main__" and "--make-fixed" in sys.argv:
    os.makedirs(os.path.dirname(FIXED_SHARD), exist_ok=True)
    progs_ = make_fixed()
    with open(FIXED_SHARD, "w", encoding="utf-8") as f_:
        json.dump({"comment": "C14 fixed corpus shard (seed independent): regenerate with `python tools/harness/C14.py --make-fixed`",
                   "programs": progs_}, f_, indent=0, ensure_ascii=True)
    print(len(progs_), "programs ->", FIXED_SHARD, os.path.getsize(FIXED_SHARD), "bytes")
