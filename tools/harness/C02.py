"""C02 — incremental (warm-cache) runs report exactly what a cold run reports.

This file is both the harness (`run(ctx)`, `replay(ctx, path)`) and, when executed as a
script (`/venv/bin/python C02.py --driver spec.json`), the child-side driver that runs the
REAL mypy (mypy.main.main -> mypy.build.build) in a fresh process and reports, besides the
diagnostics and the exit status, what the build manager decided (state of every module at
`process_graph` time, SCC list, stale/rechecked modules) and the cache records it left.
Nothing in /repo is modified: the driver wraps three module-level functions from outside.
"""
from __future__ import annotations

import json
import os
import sys

# ----------------------------------------------------------------------------------------
# child-side driver (no vlib import here: it runs with PYTHONPATH=/repo only)
# ----------------------------------------------------------------------------------------


def _hex(b):  # bytes | str | None -> str
    if b is None:
        return ""
    if isinstance(b, bytes):
        return b.hex()
    return str(b)


def driver_main(spec_path: str) -> int:
    spec = json.load(open(spec_path))
    os.chdir(spec["cwd"])
    root = os.path.realpath(spec["cwd"]) + os.sep
    import io
    import mypy.build as B
    import mypy.main as M
    from mypy.cache import CacheMeta, CacheMetaEx, ReadBuffer

    cap: dict = {"runs": 0}

    def is_user(st) -> bool:
        p = st.abspath or ""
        return os.path.realpath(p).startswith(root) if p else False

    def snap_state(st, full: bool) -> dict:
        d = {"ih": _hex(st.interface_hash)}
        if full:
            d.update(
                path=st.path,
                rel=os.path.relpath(os.path.realpath(st.abspath or st.path), root.rstrip(os.sep)) if st.path else None,
                meta=st.meta is not None,
                is_fresh=bool(st.is_fresh()),
                deps=list(st.dependencies),
                supp=list(st.suppressed),
                prio={k: int(v) for k, v in st.priorities.items()},
                dep_hashes={k: _hex(v) for k, v in st.dep_hashes.items()},
                n_err=len(st.error_lines),
                order=st.order,
                ignore_all=bool(st.ignore_all),
                thash=_hex(st.trans_dep_hash),
                meta_thash=_hex(st.meta.trans_dep_hash) if st.meta is not None else "",
                sdo=_hex(st.suppressed_deps_opts()),
                meta_deps=list(st.meta.dependencies) if st.meta is not None else None,
                src_hash=st.meta_source_hash or "",
            )
        return d

    orig_build = B.build
    orig_pg = B.process_graph
    orig_sc = B.sorted_components
    orig_fss = B.find_stale_sccs

    def build(*a, **k):
        cap["runs"] += 1
        res = orig_build(*a, **k)
        cap["res"] = res
        return res

    def sorted_components(graph):
        r = orig_sc(graph)
        cap["sccs"] = [sorted(s.mod_ids) for s in r]
        # state as the freshness decision will see it (trans_dep_hash is set by sorted_components)
        cap["pre"] = {i: snap_state(st, is_user(st)) for i, st in graph.items()}
        return r

    def find_stale_sccs(sccs, graph, manager):
        # what every SCC looked like at the moment it was judged (dep interface hashes final)
        for s in sccs:
            for i in s.mod_ids:
                st = graph[i]
                if is_user(st):
                    cap.setdefault("at_judge", {})[i] = {
                        "dep_ih": {d: _hex(graph[d].interface_hash) for d in st.dep_hashes if d in graph},
                    }
        stale, fresh = orig_fss(sccs, graph, manager)
        cap.setdefault("judged", []).extend(
            [[sorted(s.mod_ids), "stale"] for s in stale] + [[sorted(s.mod_ids), "fresh"] for s in fresh])
        return stale, fresh

    B.build = build
    B.sorted_components = sorted_components
    B.find_stale_sccs = find_stale_sccs

    out, err = io.StringIO(), io.StringIO()
    status = 0
    crash = None
    try:
        M.main(args=list(spec["args"]), stdout=out, stderr=err, clean_exit=True)
    except SystemExit as e:
        status = e.code if isinstance(e.code, int) else (0 if e.code is None else 1)
    except BaseException as e:  # noqa: internal error of mypy (reported, never hidden)
        import traceback
        crash = traceback.format_exc()
        status = 70
    result: dict = {"status": status, "stdout": out.getvalue(), "stderr": err.getvalue(), "crash": crash,
                    "pre": cap.get("pre"), "sccs": cap.get("sccs"), "judged": cap.get("judged"),
                    "at_judge": cap.get("at_judge")}
    res = cap.get("res")
    if res is not None:
        man = res.manager
        graph = res.graph
        result["stale_modules"] = sorted(man.stale_modules)
        result["rechecked_modules"] = sorted(man.rechecked_modules)
        result["post"] = {i: snap_state(st, False) for i, st in graph.items()}
        result["user"] = sorted(i for i, st in graph.items() if is_user(st))
        # read back the cache records of the user modules with a NEW store object
        entries = {}
        try:
            store = B.create_metastore(man.options, parallel_worker=False)
            for i, st in graph.items():
                if not is_user(st) or not st.path:
                    continue
                meta_file, data_file, _ = B.get_cache_names(i, st.path, man.options)
                ex_file = B.get_meta_ex_name(meta_file)
                ent: dict = {"meta_file": meta_file}
                try:
                    raw = store.read(meta_file)
                    if man.options.fixed_format_cache:
                        m = CacheMeta.read(ReadBuffer(raw[2:]), data_file)
                    else:
                        m = CacheMeta.deserialize(json.loads(raw), data_file)
                except Exception:  # noqa
                    m = None
                try:
                    raw = store.read(ex_file)
                    if man.options.fixed_format_cache:
                        me = CacheMetaEx.read(ReadBuffer(raw))
                    else:
                        me = CacheMetaEx.deserialize(json.loads(raw))
                except Exception:  # noqa
                    me = None
                try:
                    dm = int(store.getmtime(data_file))
                except Exception:  # noqa
                    dm = None
                if m is not None:
                    ent["meta"] = {
                        "id": m.id, "path": m.path, "mtime": m.mtime, "size": m.size, "hash": m.hash,
                        "deps": list(m.dependencies), "supp": list(m.suppressed), "prios": list(m.dep_prios),
                        "dep_hashes": [_hex(x) for x in m.dep_hashes], "ih": _hex(m.interface_hash),
                        "thash": _hex(m.trans_dep_hash), "options": json.dumps(m.options, sort_keys=True, default=str),
                        "sdo": _hex(m.suppressed_deps_opts), "ignore_all": bool(m.ignore_all),
                        "version": m.version_id, "plugin": json.dumps(m.plugin_data, sort_keys=True, default=str),
                        "data_mtime": m.data_mtime,
                    }
                if me is not None:
                    ent["ex"] = {"deps": list(me.dependencies), "supp": list(me.suppressed),
                                 "dep_hashes": [_hex(x) for x in me.dep_hashes],
                                 "errors": [list(map(str, e)) for e in me.error_lines]}
                ent["data_mtime"] = dm
                entries[i] = ent
            store.close()
        except Exception:  # noqa
            import traceback
            result["readback_error"] = traceback.format_exc()
        result["entries"] = entries
    with open(spec["out"], "w") as f:
        json.dump(result, f)
    return 0



# ----------------------------------------------------------------------------------------
# harness side
# ----------------------------------------------------------------------------------------
try:
    import vlib  # type: ignore
except ImportError:  # running as the child-side driver
    vlib = None  # type: ignore

import copy
import hashlib
import re
import shutil
import subprocess
import tempfile
import time
from concurrent.futures import ThreadPoolExecutor

SELF = os.path.abspath(__file__)
CONFIGS = {
    "sqlite-bin": ["--sqlite-cache"],
    "sqlite-json": ["--sqlite-cache", "--no-fixed-format-cache"],
    "fs-bin": ["--no-sqlite-cache"],
    "fs-json": ["--no-sqlite-cache", "--no-fixed-format-cache"],
}
BASE_MTIME = 1_700_000_000
TYPES = ["int", "str", "bytes"]
VAL = {"int": "0 ", "str": "''", "bytes": "b''"}   # int<->str edits keep the file size (hash path of validate_meta)
TOP = ["main", "a", "b", "c", "d"]
SUBS = ["pkg.s1", "pkg.s2"]


# ------------------------------------------------------------------ program generator
# A program is {"mods": {name: spec}, "stubs": {name: spec}, "roots": "all"|"entry"}; a spec is a dict
# of feature lists (see render_module).  An edit history is a list of programs; what is executed
# (and stored in replays) is the list of rendered file dictionaries.

def new_spec() -> dict:
    return {"imports": [], "classes": [], "funcs": [], "mk": [], "uses": [], "attruses": [], "body": [],
            "fromuses": [], "infer": [], "iuses": [], "finals": [], "fuses": [], "comment": 0}


def render_module(name: str, sp: dict, stub: bool = False) -> str:
    L: list[str] = []
    if sp.get("syntax_error"):
        L.append("def broken(:")
    if sp.get("finals") or sp.get("fuses"):
        L.append("from typing import Final, Literal")
    for imp in sp["imports"]:
        kind, tgt = imp[0], imp[1]
        if kind == "import":
            L.append(f"import {tgt}")
        elif kind == "from":          # from tgt import NAME   (NAME is a function/class — or a submodule)
            L.append(f"from {tgt} import {imp[2]}" + ("  # type: ignore" if len(imp) > 3 and imp[3] else ""))
        elif kind == "tc":
            L.append("from typing import TYPE_CHECKING")
            L.append("if TYPE_CHECKING:")
            L.append(f"    import {tgt}")
    for cname, base, t in sp["classes"]:
        L.append(f"class {cname}({base}):" if base else f"class {cname}:")
        L.append(f"    attr: {t}" if stub else f"    attr: {t} = {VAL[t]}")
    for nm_, val in sp.get("finals", []):        # literal types survive only if the cache keeps last_known_value
        L.append(f"{nm_}: int" if stub else f"{nm_}: Final = {val}")
    for fname, t in sp["funcs"]:
        L.append(f"def {fname}() -> {t}: ..." if stub else f"def {fname}() -> {t}:\n    return {VAL[t]}")
    for fname, mod, cname in sp["mk"]:
        L.append(f"def {fname}() -> {mod}.{cname}: ..." if stub else f"def {fname}() -> {mod}.{cname}:\n    return {mod}.{cname}()")
    if not stub:
        for v, t, mod, f, ign in sp["uses"]:
            L.append(f"{v}: {t} = {mod}.{f}()" + ("  # type: ignore" if ign else ""))
        for v, t, mod, f, ign in sp["attruses"]:
            L.append(f"{v}: {t} = {mod}.{f}().attr" + ("  # type: ignore" if ign else ""))
        for v, mod, f in sp.get("infer", []):       # inferred type: the module's interface depends on the dependency's
            L.append(f"{v} = {mod}.{f}()")
        for v, t, mod, ign in sp.get("iuses", []):
            L.append(f"{v}: {t} = {mod}.i0" + ("  # type: ignore" if ign else ""))
        for v, val, mod, nm_ in sp.get("fuses", []):
            L.append(f"{v}: Literal[{val}] = {mod}.{nm_}")
        for v, t, nm, ign in sp["fromuses"]:
            L.append(f"{v}: {t} = {nm}()" + ("  # type: ignore" if ign else ""))
        for h, bad, lazy in sp["body"]:
            L.append(f"def {h}() -> None:")
            if lazy:
                L.append(f"    import {lazy}")
                L.append(f"    q: int = {lazy}.f0()")
            L.append("    z: int = 's'" if bad else "    z: int = 1")
    for _ in range(sp["comment"]):
        L.append("# edited")
    return "\n".join(L) + "\n"


def mod_path(name: str, prog: dict, stub: bool = False) -> str:
    ext = ".pyi" if stub else ".py"
    parts = name.split(".")
    is_pkg = any(m.startswith(name + ".") for m in list(prog["mods"]) + list(prog["stubs"])) or name == "pkg"
    if is_pkg:
        return os.path.join(*parts, "__init__" + ext)
    return os.path.join(*parts) + ext


def render(prog: dict) -> dict:
    files = {}
    for n, sp in prog["mods"].items():
        files[mod_path(n, prog)] = render_module(n, sp)
    for n, sp in prog["stubs"].items():
        files[mod_path(n, prog, True)] = render_module(n, sp, True)
    return files


def gen_module(rng, name: str, avail: list[str]) -> dict:
    sp = new_spec()
    for k in range(rng.randint(1, 2)):
        sp["funcs"].append((f"f{k}", rng.choice(TYPES)))
    if rng.random() < 0.7:
        sp["classes"].append(("C0", None, rng.choice(TYPES)))
    if rng.random() < 0.4:
        sp["finals"].append(("K0", rng.choice([1, 2, 3])))
    deps = [m for m in avail if m != name]
    rng.shuffle(deps)
    for d in deps[: rng.randint(0, min(2, len(deps)))]:
        add_use(rng, sp, d)
    sp["body"].append(("h0", rng.random() < 0.3, None))
    return sp


def add_use(rng, sp: dict, d: str) -> None:
    k = len(sp["uses"]) + len(sp["attruses"]) + len(sp["fromuses"]) + len(sp["mk"])
    r = rng.random()
    if r < 0.2:
        nm = rng.choice(["f0", "f1", "C0"])
        sp["imports"].append(("from", d, nm, rng.random() < 0.15))
        if nm != "C0":
            sp["fromuses"].append((f"t{k}", rng.choice(TYPES), nm, rng.random() < 0.15))
        return
    if ("import", d) not in sp["imports"]:
        sp["imports"].append(("tc", d) if r > 0.93 else ("import", d))
    r = rng.random()
    if r < 0.08:
        sp.setdefault("fuses", []).append((f"l{k}", rng.choice([1, 2, 3]), d, "K0"))
        return
    if r < 0.12:
        sp.setdefault("infer", []).append((f"i{len(sp.get('infer', []))}", d, rng.choice(["f0", "f1"])))
    elif r < 0.24:
        sp.setdefault("iuses", []).append((f"j{k}", rng.choice(TYPES), d, rng.random() < 0.1))
    elif r < 0.45:
        sp["uses"].append((f"u{k}", rng.choice(TYPES), d, rng.choice(["f0", "f1"]), rng.random() < 0.15))
    elif r < 0.7:
        sp["mk"].append((f"mk{len(sp['mk'])}", d, "C0"))
    elif r < 0.9:
        sp["attruses"].append((f"w{k}", rng.choice(TYPES), d, "mk0", rng.random() < 0.1))
    else:
        sp["classes"].append((f"D{k}", f"{d}.C0", rng.choice(TYPES)))


def gen_program(rng) -> dict:
    n = rng.randint(3, 7)
    names = ["main"] + rng.sample(["a", "b", "c", "d"], min(n - 1, rng.randint(2, 4)))
    with_pkg = len(names) < n or rng.random() < 0.35
    if with_pkg:
        names.append("pkg")
        names += rng.sample(SUBS, min(max(n - len(names), 1), 2))
    names = names[:7]
    prog = {"mods": {}, "stubs": {}, "roots": rng.choice(["all", "all", "entry"])}
    # mostly a DAG (later names are lower level) with occasional back edges = import cycles
    for i, nm in enumerate(names):
        lower = names[i + 1:]
        avail = lower if rng.random() < 0.8 else names
        if nm == "pkg":
            avail = [x for x in avail if not x.startswith("pkg.")] if rng.random() < 0.7 else avail
        prog["mods"][nm] = gen_module(rng, nm, avail)
    if with_pkg:
        subs = [m for m in names if m.startswith("pkg.")]
        for user in rng.sample(names[:-1], min(2, len(names) - 1)):
            if user.startswith("pkg"):
                continue
            s = rng.choice(subs).split(".")[1]
            r = rng.random()
            if r < 0.5:   # `from pkg import s1`: s1 is a submodule only while pkg/s1.py exists
                prog["mods"][user]["imports"].append(("from", "pkg", s, False))
                prog["mods"][user]["uses"].append((f"p{s}", rng.choice(TYPES), s, "f0", False))
            else:
                prog["mods"][user]["imports"].append(("import", f"pkg.{s}"))
                prog["mods"][user]["uses"].append((f"p{s}", rng.choice(TYPES), f"pkg.{s}", "f0", False))
    if prog["roots"] == "entry":
        # make everything reachable from main most of the time
        for nm in names[1:]:
            if rng.random() < 0.6 and not nm.startswith("pkg") and ("import", nm) not in prog["mods"]["main"]["imports"]:
                prog["mods"]["main"]["imports"].append(("import", nm))
    return prog


EDITS = ["ret_type", "ret_type", "attr_type", "body", "body", "comment", "touch", "add_import", "add_cycle",
         "del_import", "del_mod", "add_mod", "add_stub", "del_stub", "toggle_ignore", "add_sub", "del_sub",
         "lazy_import", "retarget", "syntax", "two_at_once", "follow_imports", "fromsub", "mtime_back", "mtime_back",
         "touch_back", "final_val"]


def apply_edit(rng, prog: dict, removed: dict) -> tuple[dict, str]:
    """Return (new program, description).  `removed` remembers deleted specs so they can come back."""
    for _ in range(30):
        p = copy.deepcopy(prog)
        p.pop("touch", None)
        p.pop("mtime_back", None)
        kind = rng.choice(EDITS)
        mods = sorted(p["mods"])
        m = rng.choice(mods)
        sp = p["mods"][m]
        if kind == "ret_type" and sp["funcs"]:
            i = rng.randrange(len(sp["funcs"]))
            f, t = sp["funcs"][i]
            sp["funcs"][i] = (f, rng.choice([x for x in TYPES if x != t]))
            return p, f"ret_type {m}.{f}"
        if kind == "attr_type" and sp["classes"]:
            i = rng.randrange(len(sp["classes"]))
            c, b, t = sp["classes"][i]
            sp["classes"][i] = (c, b, rng.choice([x for x in TYPES if x != t]))
            return p, f"attr_type {m}.{c}"
        if kind == "body" and sp["body"]:
            h, bad, lazy = sp["body"][0]
            sp["body"][0] = (h, not bad, lazy)
            return p, f"body {m}"
        if kind == "comment":
            sp["comment"] += 1
            return p, f"comment {m}"
        if kind == "mtime_back" and sp["funcs"]:
            # a content change (same size for int<->str) that carries an OLDER mtime: restored backup / os.replace
            i = rng.randrange(len(sp["funcs"]))
            f, t = sp["funcs"][i]
            sp["funcs"][i] = (f, {"int": "str", "str": "int"}.get(t, "int"))
            p["mtime_back"] = m
            return p, f"mtime_back {m}.{f}"
        if kind == "touch_back":
            p["touch"] = m
            p["mtime_back"] = m
            return p, f"touch_back {m}"
        if kind == "final_val" and sp.get("finals"):
            nm_, val = sp["finals"][0]
            sp["finals"][0] = (nm_, rng.choice([x for x in (1, 2, 3) if x != val]))
            return p, f"final_val {m}.{nm_}"
        if kind == "touch":
            p["touch"] = m
            return p, f"touch {m}"
        if kind in ("add_import", "add_cycle"):
            others = [x for x in mods if x != m]
            if kind == "add_cycle":
                others = [x for x in others if any(i[1] == m for i in p["mods"][x]["imports"])] or others
            if others:
                d = rng.choice(others)
                add_use(rng, sp, d)
                return p, f"{kind} {m}->{d}"
        if kind == "del_import" and sp["imports"]:
            imp = rng.choice(sp["imports"])
            sp["imports"].remove(imp)
            if rng.random() < 0.7:   # otherwise leave dangling uses (name-defined errors)
                tgt = imp[1]
                sp["uses"] = [u for u in sp["uses"] if u[2] != tgt and u[2] != (imp[2] if len(imp) > 2 else None)]
                sp["attruses"] = [u for u in sp["attruses"] if u[2] != tgt]
                sp["mk"] = [u for u in sp["mk"] if u[1] != tgt]
                sp["infer"] = [u for u in sp.get("infer", []) if u[1] != tgt]
                sp["iuses"] = [u for u in sp.get("iuses", []) if u[2] != tgt]
                sp["classes"] = [c for c in sp["classes"] if not (c[1] or "").startswith(tgt + ".")]
                if imp[0] == "from":
                    sp["fromuses"] = [u for u in sp["fromuses"] if u[2] != imp[2]]
            return p, f"del_import {m}:{imp[1]}"
        if kind == "del_mod" and m != "main" and m != "pkg" and len(mods) > 2:
            removed[m] = p["mods"].pop(m)
            return p, f"del_mod {m}"
        if kind == "add_mod":
            cand = [x for x in list(removed) + TOP if x not in p["mods"] and (not x.startswith("pkg.") or "pkg" in p["mods"])]
            if cand:
                nm = rng.choice(cand)
                p["mods"][nm] = removed.pop(nm, None) or gen_module(rng, nm, [x for x in mods if x != "main"])
                return p, f"add_mod {nm}"
        if kind == "add_stub" and m not in p["stubs"] and m != "main":
            st = copy.deepcopy(sp)
            if st["funcs"] and rng.random() < 0.6:
                f, t = st["funcs"][0]
                st["funcs"][0] = (f, rng.choice([x for x in TYPES if x != t]))
            st["imports"] = [i for i in st["imports"] if i[0] == "import" and any(k[1] == i[1] for k in st["mk"])
                             or any((c[1] or "").startswith(i[1] + ".") for c in st["classes"])]
            p["stubs"][m] = st
            return p, f"add_stub {m}"
        if kind == "del_stub" and p["stubs"]:
            s = rng.choice(sorted(p["stubs"]))
            del p["stubs"][s]
            return p, f"del_stub {s}"
        if kind == "toggle_ignore":
            for key in ("uses", "attruses"):
                if sp[key]:
                    i = rng.randrange(len(sp[key]))
                    u = list(sp[key][i])
                    u[4] = not u[4]
                    sp[key][i] = tuple(u)
                    return p, f"toggle_ignore {m}.{u[0]}"
        if kind == "add_sub" and "pkg" in p["mods"]:
            cand = [s for s in SUBS if s not in p["mods"]]
            if cand:
                s = rng.choice(cand)
                p["mods"][s] = removed.pop(s, None) or gen_module(rng, s, [])
                return p, f"add_sub {s}"
        if kind == "del_sub":
            cand = [s for s in SUBS if s in p["mods"]]
            if cand:
                s = rng.choice(cand)
                removed[s] = p["mods"].pop(s)
                return p, f"del_sub {s}"
        if kind == "lazy_import" and sp["body"]:
            others = [x for x in mods if x != m and not x.startswith("pkg")]
            if others:
                h, bad, lazy = sp["body"][0]
                sp["body"][0] = (h, bad, None if lazy else rng.choice(others))
                return p, f"lazy_import {m}"
        if kind == "retarget" and sp["uses"]:
            i = rng.randrange(len(sp["uses"]))
            u = list(sp["uses"][i])
            u[1] = rng.choice([x for x in TYPES if x != u[1]])
            sp["uses"][i] = tuple(u)
            return p, f"retarget {m}.{u[0]}"
        if kind == "follow_imports" and prog["roots"] == "entry":
            cur = p.get("flags") or []
            p["flags"] = rng.choice([x for x in ([], ["--follow-imports=silent"], ["--follow-imports=skip"]) if x != cur])
            return p, f"follow_imports {' '.join(p['flags']) or 'normal'}"
        if kind == "fromsub" and "pkg" in p["mods"] and not m.startswith("pkg"):
            # `from pkg import sN`: sN is a submodule only while pkg/sN.py exists (it may not exist now)
            sN = rng.choice(SUBS).split(".")[1]
            if not any(i[0] == "from" and i[1] == "pkg" and i[2] == sN for i in sp["imports"]):
                sp["imports"].append(("from", "pkg", sN, rng.random() < 0.3))
                if rng.random() < 0.7:
                    sp["uses"].append((f"q{sN}{len(sp['uses'])}", rng.choice(TYPES), sN, "f0", False))
                return p, f"fromsub {m}:{sN}"
        if kind == "syntax" and rng.random() < 0.4:
            sp["syntax_error"] = not sp.get("syntax_error")
            return p, f"syntax {m}"
        if kind == "two_at_once":
            p1, d1 = apply_edit(rng, p, removed)
            p2, d2 = apply_edit(rng, p1, removed)
            return p2, d1 + " + " + d2
    p = copy.deepcopy(prog)
    p["mods"]["main"]["comment"] += 1
    return p, "comment main"


FEATURE_LIB = '''from typing import Final, Literal, TypedDict, NamedTuple, overload, Generic, TypeVar, Protocol, Callable
from enum import Enum
from dataclasses import dataclass
from lib2 import reexp as reexp
X: Final = 3
S: Final = "s"
Mode = Literal["r", "w"]
class TD(TypedDict):
    a: int
    b: str
class TDp(TypedDict, total=False):
    c: int
class NT(NamedTuple):
    p: int
    q: str = "x"
@overload
def ov(v: int) -> int: ...
@overload
def ov(v: str) -> str: ...
def ov(v):
    return v
T = TypeVar("T")
class Box(Generic[T]):
    def __init__(self, v: T) -> None:
        self.v = v
    def get(self) -> T:
        return self.v
class Proto(Protocol):
    def meth(self) -> int: ...
class Color(Enum):
    RED = 1
    BLUE = 2
@dataclass
class DC:
    n: int
    s: str = "d"
@dataclass(frozen=True)
class FDC:
    n: int
class WithProp:
    @property
    def pr(self) -> int:
        return 1
    @staticmethod
    def sm() -> str:
        return ""
    @classmethod
    def cm(cls) -> "WithProp":
        return cls()
def cb(f: Callable[[int, str], bool], *a: int, k: str = "k", **kw: float) -> None: ...
tup: tuple[int, ...] = ()
opt: int | None = None
__all__ = ["X", "Mode", "TD", "NT", "ov", "Box", "Color", "DC"]
'''
FEATURE_USE = '''from typing import Literal
import lib
from lib import *
def f(v: Literal[3]) -> None: ...
f(lib.X)
reveal_type(lib.X)
reveal_type(lib.S)
m: lib.Mode = "r"
reveal_type(m)
td: lib.TD = {"a": 1, "b": "s"}
reveal_type(td)
tdp: lib.TDp = {}
reveal_type(tdp)
nt = lib.NT(1)
reveal_type(nt)
reveal_type(nt.q)
reveal_type(lib.ov(1))
reveal_type(lib.ov("s"))
reveal_type(lib.ov)
b = lib.Box(1)
reveal_type(b)
reveal_type(b.get())
class Impl:
    def meth(self) -> int:
        return 1
p: lib.Proto = Impl()
reveal_type(lib.Color.RED)
reveal_type(lib.Color.RED.value)
def g(c: lib.Color) -> int:
    if c is lib.Color.RED:
        return 1
    elif c is lib.Color.BLUE:
        return 2
d = lib.DC(1)
reveal_type(d)
reveal_type(lib.DC)
reveal_type(d.s)
fd = lib.FDC(1)
fd.n = 2
reveal_type(lib.reexp())
lib.hidden
w = lib.WithProp()
reveal_type(w.pr)
reveal_type(lib.WithProp.sm())
reveal_type(lib.WithProp.cm())
reveal_type(X)
reveal_type(lib.cb)
reveal_type(lib.tup)
reveal_type(lib.opt)
Color.RED
WithProp
'''


def hand_histories() -> list[dict]:
    """Fixed histories run first in every tier: the `from pkg import name` probe (finding F6) and its relatives."""
    def H(idx, key, roots, *files):
        return {"idx": idx, "roots": roots, "key": key, "descs": ["initial"] + [f"hand-edit-{i}" for i in range(1, len(files))],
                "states": [{"files": f, "touch": [], "flags": [], "mtimes": {}} for f in files]}
    sub = "def f0() -> int:\n    return 0\n"
    b0 = {"main.py": "from pkg import name\n", "pkg/__init__.py": ""}
    b1 = dict(b0, **{"pkg/name.py": sub})
    u0 = {"main.py": "from pkg import name\ny: str = name.f0()\n", "pkg/__init__.py": ""}
    u1 = dict(u0, **{"pkg/name.py": sub})
    m0 = {"main.py": "import pkg.name\ny: str = pkg.name.f0()\n", "pkg/__init__.py": ""}
    m1 = dict(m0, **{"pkg/name.py": sub})
    # --- directed histories for seeded bugs that random histories miss (each verified against a scratch mutant)
    chain = {"pkg/q1.py": "import pkg.q2\n", "pkg/q2.py": "import pkg.q3\n", "pkg/q3.py": "import pkg.q4\n",
             "pkg/q4.py": "import pkg.q5\n", "pkg/q5.py": "Z = 1\n"}
    # a,b form an import cycle; a uses pkg.mod.C with only `import pkg` (indirect dependency); z, two levels below a, stops
    # importing pkg.mod inside a function (no interface hash changes); pkg.mod stays in the build through `other` and is
    # scheduled after a: a must be re-checked (verify_transitive_deps slow path) and report the undefined name
    t0 = {"main.py": "import a\nimport other\n", "a.py": "import pkg\nimport b\nimport y\nx: pkg.mod.C\n", "b.py": "import a\n",
          "y.py": "import z\n", "z.py": "def h() -> None:\n    import pkg.mod\n", "other.py": "import pkg.mod\n",
          "pkg/__init__.py": "", "pkg/mod.py": "import pkg.q1\nclass C: pass\n", **chain}
    t1 = dict(t0, **{"z.py": "def h() -> None:\n    pass\n"})
    # an unchanged importer whose three missing plain modules appear in one edit (m2 is scheduled after main)
    g = "def g(x: int) -> None: ...\n"
    s0 = {"main.py": "import m1\nimport m2\nimport m3\nm1.g('s')\nm2.g('s')\nm3.g('s')\n", "c1.py": "import c2\n",
          "c2.py": "import c3\n", "c3.py": "Z = 1\n"}
    s1 = dict(s0, **{"m1.py": g, "m2.py": "import c1\n" + g, "m3.py": g})
    # `import m  # type: ignore`, then m is deleted while the importer is untouched (imports_ignored of the cached meta)
    i0 = {"main.py": "import user\n", "user.py": "import m  # type: ignore\n", "m.py": "X = 1\n"}
    i1 = {k: v for k, v in i0.items() if k != "m.py"}
    # b.py replaced by b.pyi with IDENTICAL content (finding F7)
    p0 = {"main.py": "from b import y\n", "b.py": "from c import y\n", "c.py": "y = 1\n"}
    p1 = {"main.py": "from b import y\n", "b.pyi": "from c import y\n", "c.py": "y = 1\n"}
    # the once-per-build missing-imports note (finding F8): main is replayed with its note, a is re-checked and gets one too
    n0 = {"main.py": "import a\nimport missing2\n", "a.py": "import missing1\n"}
    n1 = {"main.py": "import a\nimport missing2\n", "a.py": "import missing1\n# edited\n"}
    # F11: a 3-cycle x -> y -> z -> x with a cycle-only error in x; z drops `import x` (z's interface changes, y is
    # re-checked, y's interface does not change): x stays fresh and replays the error computed inside the cycle
    c0 = {"main.py": "import y\nimport x\n", "x.py": "import y\nv: int = y.w0\n",
          "y.py": "import z\ndef g() -> int:\n    return 1\nw0 = g()\n", "z.py": "import x\nZ = 1\n"}
    c1 = dict(c0, **{"z.py": "Z = 1\n"})
    extra = []
    # (a) a submodule imported as `from a.b import c` / `import a.b.c` / `from a.b.c import f` is DELETED at depth 2, 3, 4
    #     while the importer is untouched (exist_removed_submodules must force a re-parse of the importer)
    modsrc = "def f0() -> int:\n    return 0\n"
    n_ = 9020
    for depth in (2, 3, 4):
        parts = ["pa", "pb", "pc", "pd"][:depth]
        files = {"/".join(parts[:i]) + "/__init__.py": "" for i in range(1, depth)}
        files["/".join(parts) + ".py"] = modsrc
        full, parent, last = ".".join(parts), ".".join(parts[:-1]), parts[-1]
        for form, src in (("from-parent-import-mod", f"from {parent} import {last}\ny: str = {last}.f0()\n"),
                          ("import-full", f"import {full}\ny: str = {full}.f0()\n"),
                          ("from-full-import-name", f"from {full} import f0\ny: str = f0()\n")):
            with_mod = dict(files, **{"main.py": "import user\n", "user.py": src})
            without = {k: v for k, v in with_mod.items() if k != "/".join(parts) + ".py"}
            extra.append(H(n_, f"directed:submodule-deleted-depth{depth}-{form}", "entry", with_mod, without))
            n_ += 1
    # (b) a same-size content change that carries an OLDER / newer mtime (restored backup, os.replace of an older file)
    a_ = "import b\nx: int = b.f0()\n"
    sz1, sz2 = "def f0() -> int:\n    return 0 \n", "def f0() -> str:\n    return ''\n"
    for nm, off in (("older", -1000), ("newer", 1000)):
        hh = H(n_, f"directed:same-size-edit-with-{nm}-mtime", "all", {"a.py": a_, "b.py": sz1}, {"a.py": a_, "b.py": sz2}, {"a.py": a_, "b.py": sz1})
        hh["states"][1]["mtimes"] = {"b.py": off}
        hh["states"][2]["mtimes"] = {"b.py": 2 * off}
        extra.append(hh)
        n_ += 1
    # (c) interface features whose loss in the cache changes a DEPENDANT's diagnostics: check all; touch only the importer;
    #     then the library; then only the library.  Run under all four configurations (reveal_type makes every detail visible)
    f0_ = {"lib.py": FEATURE_LIB, "lib2.py": "def reexp() -> int:\n    return 1\nhidden = 1\n", "use.py": FEATURE_USE}
    hh = H(9040, "directed:interface-features-through-the-cache", "all", f0_, dict(f0_, **{"use.py": FEATURE_USE + "# edited\n"}),
           dict(f0_, **{"lib.py": FEATURE_LIB + "# edited\n", "use.py": FEATURE_USE + "# edited\n"}),
           dict(f0_, **{"lib.py": FEATURE_LIB + "# edited\n"}))
    hh["all_configs"] = True
    extra.append(hh)
    # (d) F12: --follow-imports=error --ignore-missing-imports, `import b`, then b.py is deleted
    hh = H(9050, "F12:follow-imports-error-deleted-module-replays-import-ignored", "entry", {"main.py": "import b\n", "b.py": "X = 1\n"}, {"main.py": "import b\n"})
    for st_ in hh["states"]:
        st_["flags"] = ["--follow-imports=error", "--ignore-missing-imports"]
    extra.append(hh)
    # (e) F13: whether `from pkg import s2` (s2 not a module on disk) is an error depends on ANOTHER module importing the
    #     missing `pkg.s2` (manager.missing_modules is global); dropping / adding that other import leaves the importer fresh
    g1 = {"main.py": "import pkg.s2  # type: ignore\nimport b\n", "b.py": "from pkg import s2\n", "pkg/__init__.py": ""}
    g0 = {"main.py": "import b\n", "b.py": "from pkg import s2\n", "pkg/__init__.py": ""}
    extra.append(H(9060, "F13:from-import-of-missing-submodule-depends-on-other-modules-imports", "entry", g1, g0))
    extra.append(H(9061, "F13:from-import-of-missing-submodule-depends-on-other-modules-imports", "entry", g0, g1))
    return extra + [
        H(9016, "F11:cycle-shrunk-member-stays-fresh", "entry", c0, c1),
        H(9010, "directed:trans-dep-hash-of-cycle", "entry", t0, t1),
        H(9015, "F9:implicit-submodule-reference-depends-on-transitive-imports", "entry", t0, t1, t0),
        H(9011, "directed:unsuppress-several-appearing-modules", "entry", s0, s1, s1),
        H(9012, "directed:type-ignore-on-import-of-deleted-module", "entry", i0, i1, i0),
        H(9013, "F7:py-replaced-by-identical-pyi", "entry", p0, p1, p0),
        H(9014, "only-once-note-placement:missing-imports", "entry", n0, n1),
        H(9001, "F6:from-import-name-becomes-submodule", "entry", b0, b1),
        H(9002, "F6:from-import-name-becomes-submodule", "all", b0, b1, b0, b1),
        H(9003, "hand:from-import-used-name-becomes-submodule", "entry", u0, u1, u0),
        H(9004, "hand:submodule-removed", "entry", b1, b0, b1),
        H(9005, "hand:import-pkg.name-appears", "entry", m0, m1, m0),
    ]


def gen_history(seed: int, idx: int, steps: int | None = None) -> dict:
    rng = vlib.Rng(seed, f"C02/history/{idx}")
    prog = gen_program(rng)
    if prog["roots"] == "entry" and rng.random() < 0.25:
        prog["flags"] = ["--follow-imports=silent"]
    removed: dict = {}
    progs = [prog]
    descs = ["initial"]
    n = steps if steps is not None else rng.randint(3, 8)
    for _ in range(n):
        prog, d = apply_edit(rng, prog, removed)
        # a syntax error is repaired by the following step most of the time
        progs.append(prog)
        descs.append(d)
    states = []
    used: dict[str, set] = {}      # mtimes already used per path: equal mtime+size with different content is mypy's documented
    prev_files: dict[str, str] = {}  # blind spot - exactly that case is excluded (the offset is moved until the mtime is new)
    for k_, p in enumerate(progs):
        st = {"files": render(p), "touch": [], "flags": list(p.get("flags") or []), "mtimes": {}}
        if p.get("touch"):
            st["touch"] = [mod_path(p["touch"], p)] if p["touch"] in p["mods"] else []
        back = mod_path(p["mtime_back"], p) if p.get("mtime_back") in p["mods"] else None
        for rel, text in st["files"].items():
            if prev_files.get(rel) != text or rel in st["touch"]:
                off = -(10 * k_) - 1000 - 7 * k_ if rel == back else 0
                while BASE_MTIME + 10 * k_ + off in used.setdefault(rel, set()):
                    off -= 1
                used[rel].add(BASE_MTIME + 10 * k_ + off)
                if off:
                    st["mtimes"][rel] = off
        prev_files = dict(st["files"])
        states.append(st)
    return {"idx": idx, "roots": progs[0]["roots"], "states": states, "descs": descs}


# ------------------------------------------------------------------ running the implementation

def write_state(proj: str, prev: dict | None, st: dict, step: int) -> None:
    """Make the project directory equal to st['files']; every changed/new/touched file gets the explicit
    mtime BASE_MTIME + 10*step (so nothing hides inside the 1-second granularity), unchanged files keep theirs."""
    old = prev["files"] if prev else {}
    for rel in old:
        if rel not in st["files"]:
            os.remove(os.path.join(proj, rel))
    for rel, text in st["files"].items():
        p = os.path.join(proj, rel)
        if old.get(rel) != text or rel in st.get("touch", []):
            os.makedirs(os.path.dirname(p), exist_ok=True)
            with open(p, "w") as f:
                f.write(text)
            t = BASE_MTIME + 10 * step + int((st.get("mtimes") or {}).get(rel, 0))   # explicit offset: may go BACKWARDS
            os.utime(p, (t, t))
    # remove directories that became empty (a deleted package)
    for d, _, _ in sorted(os.walk(proj, topdown=False)):
        if d != proj and not os.listdir(d):
            os.rmdir(d)


def root_args(roots: str, st: dict) -> list[str]:
    if roots == "entry":
        return ["main.py"]
    # all existing sources, stubs shadow their .py (as the command line `mypy .` would select)
    fs = sorted(st["files"])
    return [f for f in fs if not (f.endswith(".py") and f + "i" in st["files"])]


def run_mypy(proj: str, cache: str, cfg: str, roots: list[str], work: str, tag: str, extra: list[str] | None = None) -> dict:
    spec = {"cwd": proj, "args": ["--cache-dir", cache] + CONFIGS[cfg] + (extra or []) + roots,
            "out": os.path.join(work, f"out-{tag}.json")}
    sp = os.path.join(work, f"spec-{tag}.json")
    with open(sp, "w") as f:
        json.dump(spec, f)
    st, out = vlib.sh([vlib.PY, SELF, "--driver", sp], timeout=300, env=vlib.py_env({"MYPY_CACHE_DIR": cache}), cwd=proj)
    try:
        r = json.load(open(spec["out"]))
    except Exception:  # noqa
        r = {"status": -1, "stdout": "", "stderr": out, "crash": f"driver failed (status {st}): {out[-2000:]}"}
    for pth in (sp, spec["out"]):
        try:
            os.remove(pth)
        except OSError:
            pass
    return r


def canon(r: dict) -> dict:
    """What the property compares: exit status + per-file diagnostics in emission order (+ summary line).
    The order of whole file blocks is NOT compared (see notes: fresh SCCs are replayed before queued stale ones)."""
    by_file: dict[str, list[str]] = {}
    other: list[str] = []
    for ln in (r["stdout"] + r["stderr"]).splitlines():
        m = re.match(r"^([^:\s][^:]*\.pyi?):(\d+)?", ln)
        if m:
            by_file.setdefault(m.group(1), []).append(ln)
        elif ln.strip():
            other.append(ln)
    return {"status": r["status"], "files": by_file, "other": sorted(other), "crash": bool(r.get("crash"))}


def block_order(r: dict) -> list[str]:
    seq: list[str] = []
    for ln in r["stdout"].splitlines():
        m = re.match(r"^([^:\s][^:]*\.pyi?):", ln)
        if m and (not seq or seq[-1] != m.group(1)):
            seq.append(m.group(1))
    return seq


class Prewarmed:
    """One cache per configuration holding only the typeshed modules a trivial program pulls in."""

    def __init__(self, base: str):
        self.base = base
        self.dirs: dict[str, str] = {}

    def build(self, cfgs: list[str]) -> None:
        def one(cfg: str) -> None:
            d = os.path.join(self.base, "pre-" + cfg)
            proj = os.path.join(d, "proj")
            os.makedirs(proj)
            with open(os.path.join(proj, "seed.py"), "w") as f:
                f.write("from typing import TYPE_CHECKING\nx: int = 0\n")
            r = run_mypy(proj, os.path.join(d, "cache"), cfg, ["seed.py"], d, "pre")
            if r["status"] != 0:
                raise RuntimeError(f"prewarm {cfg} failed: {r}")
            self.dirs[cfg] = os.path.join(d, "cache")
        with ThreadPoolExecutor(max_workers=4) as ex:
            list(ex.map(one, cfgs))

    def copy_to(self, cfg: str, dst: str) -> None:
        shutil.copytree(self.dirs[cfg], dst, copy_function=shutil.copy2)


def state_flags(h: dict, st: dict) -> list[str]:
    return list(st.get("flags") or h.get("flags") or [])


def run_history(h: dict, cfg: str, pre: Prewarmed, base: str, true_cold_steps: tuple = (), keep: bool = False) -> dict:
    """Run one history under one configuration: after every edit a warm run (cache carried along) and an
    independent cold run (fresh copy of the typeshed-only cache: every user module is cold)."""
    work = tempfile.mkdtemp(prefix=f"h{h['idx']}-{cfg}-", dir=base)
    proj = os.path.join(work, "proj")
    os.makedirs(proj)
    wcache = os.path.join(work, "wcache")
    pre.copy_to(cfg, wcache)
    steps = []
    prev = None
    try:
        for k, st in enumerate(h["states"]):
            write_state(proj, prev, st, k)
            prev = st
            roots = root_args(h["roots"], st)
            fl = state_flags(h, st)
            warm = run_mypy(proj, wcache, cfg, roots, work, f"w{k}", fl)
            ccache = os.path.join(work, f"ccache{k}")
            pre.copy_to(cfg, ccache)
            cold = run_mypy(proj, ccache, cfg, roots, work, f"c{k}", fl)
            shutil.rmtree(ccache, ignore_errors=True)
            rec = {"k": k, "warm": warm, "cold": cold}
            if k in true_cold_steps:
                tc = os.path.join(work, f"tcache{k}")
                rec["cold2"] = run_mypy(proj, tc, cfg, roots, work, f"t{k}", fl)
                shutil.rmtree(tc, ignore_errors=True)
            steps.append(rec)
    finally:
        if not keep:
            shutil.rmtree(work, ignore_errors=True)
    return {"idx": h["idx"], "cfg": cfg, "steps": steps}


def first_diff(res: dict) -> int | None:
    for rec in res["steps"]:
        if canon(rec["warm"]) != canon(rec["cold"]):
            return rec["k"]
    return None


def describe_diff(w: dict, c: dict) -> tuple[str, str]:
    cw, cc = canon(w), canon(c)
    only_w, only_c = [], []
    for f in sorted(set(cw["files"]) | set(cc["files"])):
        a, b = cw["files"].get(f, []), cc["files"].get(f, [])
        only_w += [x for x in a if x not in b]
        only_c += [x for x in b if x not in a]
    codes = sorted({"warm-only:" + (re.findall(r"\[([\w-]+)\]\s*$", x) or ["note"])[0] for x in only_w}
                   | {"cold-only:" + (re.findall(r"\[([\w-]+)\]\s*$", x) or ["note"])[0] for x in only_c})
    NOTE = "note: See https://mypy.readthedocs.io/en/stable/running_mypy.html#missing-imports"
    if (only_w or only_c) and all(x.endswith(NOTE) for x in only_w + only_c) and cw["status"] == cc["status"]:
        return "only-once-note-placement:missing-imports", (
            f"the once-per-build note is placed differently / printed twice: only in warm {only_w[:3]}, only in cold {only_c[:3]}")
    if cw["crash"] != cc["crash"]:
        codes.append("crash:" + ("warm" if cw["crash"] else "cold"))
    if not codes and cw["status"] != cc["status"]:
        codes.append(f"status:{cw['status']}!={cc['status']}")
    if not codes:
        codes.append("order-within-file-or-summary")
    what = (f"status warm={cw['status']} cold={cc['status']}; only in warm: {only_w[:4]}; only in cold: {only_c[:4]}"
            + (f"; warm crash: {(w.get('crash') or '')[-300:]}" if w.get("crash") else ""))
    return ",".join(codes), what


def is_f6(w: dict, c: dict, files: dict) -> bool:
    """The divergence is exactly finding F6: warm-only `Module "p" has no attribute "n"` where p/n.py(i) exists now."""
    cw, cc = canon(w), canon(c)
    only_w = [x for f in cw["files"] for x in cw["files"][f] if x not in cc["files"].get(f, [])]
    only_c = [x for f in cc["files"] for x in cc["files"][f] if x not in cw["files"].get(f, [])]
    if not only_w or only_c:
        return False
    for x in only_w:
        m = re.search(r'error: Module "([\w.]+)" has no attribute "(\w+)"', x)
        if not m:
            return False
        base = os.path.join(*m.group(1).split("."), m.group(2))
        if not any(p in files for p in (base + ".py", base + ".pyi", os.path.join(base, "__init__.py"))):
            return False
    return True


def classify(w: dict, c: dict, files: dict, h: dict) -> tuple[str, str]:
    key, what = describe_diff(w, c)
    if key.startswith("only-once-note-placement:"):
        return key, what
    if h.get("key") and h.get("idx", 0) >= 9000:      # a hand history names its own finding
        return h["key"], what
    if is_f6(w, c, files):
        return "F6:from-import-name-becomes-submodule", what
    if is_f13(w, c, files):
        return "F13:from-import-of-missing-submodule-depends-on-other-modules-imports", what
    cw, cc = canon(w), canon(c)
    diff = [x for f in set(cw["files"]) | set(cc["files"]) for x in set(cw["files"].get(f, [])) ^ set(cc["files"].get(f, []))]
    if any("error: Cannot determine type of " in x for x in diff):
        # an import cycle whose members are processed in a different order by the warm run (finding F10)
        return "F10:import-cycle-processing-order:cannot-determine-type", what
    return h.get("key") or ("warm!=cold:" + key), what


def is_f13(w: dict, c: dict, files: dict) -> bool:
    """Finding F13: every differing line is `Module "p" has no attribute "n"` where p.n does NOT exist on disk: whether such
    a from-import is an error depends on some other module importing the missing p.n (global missing_modules)."""
    cw, cc = canon(w), canon(c)
    diff = [x for f in set(cw["files"]) | set(cc["files"]) for x in set(cw["files"].get(f, [])) ^ set(cc["files"].get(f, []))]
    if not diff:
        return False
    for x in diff:
        m = re.search(r'error: Module "([\w.]+)" has no attribute "(\w+)"', x)
        if not m:
            return False
        base = os.path.join(*m.group(1).split("."), m.group(2))
        if any(p in files for p in (base + ".py", base + ".pyi", os.path.join(base, "__init__.py"), os.path.join(base, "__init__.pyi"))):
            return False
    return True


def shrink(h: dict, cfg: str, pre: Prewarmed, base: str, budget_s: float, want_key: str | None = None) -> dict:
    """Delta-debug a failing history: drop edits (states) and files while the LAST step still differs IN THE SAME WAY
    (same classification key), so that the reported minimal history shows the divergence that was found."""
    t0 = time.time()

    def fails(hh: dict) -> bool:
        r = run_history(hh, cfg, pre, base)
        if not r["steps"]:
            return False
        w, c = r["steps"][-1]["warm"], r["steps"][-1]["cold"]
        if canon(w) == canon(c):
            return False
        return want_key is None or classify(w, c, hh["states"][-1]["files"], hh)[0] == want_key

    cur = copy.deepcopy(h)
    k = first_diff(run_history(cur, cfg, pre, base))
    if k is None:
        return cur
    cur["states"] = cur["states"][: k + 1]
    cur["descs"] = cur["descs"][: k + 1]
    changed = True
    while changed and time.time() - t0 < budget_s:
        changed = False
        for i in range(len(cur["states"]) - 2, -1, -1):        # drop intermediate states (keep the last)
            if len(cur["states"]) <= 2 or time.time() - t0 > budget_s:
                break
            cand = copy.deepcopy(cur)
            del cand["states"][i]
            del cand["descs"][i]
            if fails(cand):
                cur, changed = cand, True
        files = sorted({f for s in cur["states"] for f in s["files"]})
        for f in files:                                          # drop a file from every state
            if time.time() - t0 > budget_s or f == "main.py":
                continue
            cand = copy.deepcopy(cur)
            for s in cand["states"]:
                s["files"].pop(f, None)
            if fails(cand):
                cur, changed = cand, True
    return cur


# ------------------------------------------------------------------ C: the model on the observed data

COQ_HEADER = r"""
From Coq Require Import List Bool Arith.
From C02 Require Import Model.
Import ListNotations.
Definition dflt : result := {| r_iface := 0; r_errors := []; r_indirect := [] |}.
Definition t_content (t : list (modid * content)) (m : modid) (s : stamp) : content :=
  match lookup t m with Some c => c | None => 0 end.
Definition t_imports (t : list (modid * (content * list modid))) (m : modid) (c : content) (o : opts) : list modid :=
  match find (fun e => Nat.eqb (fst e) m && Nat.eqb (fst (snd e)) c) t with Some e => snd (snd e) | None => [] end.
Definition t_analyze (t : list (modid * result)) (S : list modid) (src : modid -> content) (o : opts)
  (env : modid -> option ihash) (m : modid) : result := match lookup t m with Some r => r | None => dflt end.
Definition t_reach (t : list (modid * modid)) (dm : list (modid * list modid)) (m d : modid) : bool :=
  existsb (fun p => Nat.eqb (fst p) m && Nat.eqb (snd p) d) t.
Definition t_sdo (t : list (list modid * nat)) (l : list modid) (o : opts) : nat :=
  match find (fun e => equiv_b (fst e) l) t with Some e => snd e | None => match l with [] => 0 | _ => 1 end end.
Definition t_thash (t : list (modid * nat)) (dm : list (modid * list modid)) (m : modid) : nat :=
  match lookup t m with Some h => h | None => 0 end.
Definition t_ign (t : list modid) (m : modid) (s : stamp) (o : opts) : bool := mem m t.
Definition mk_store (l : list (modid * (meta * meta_ex * data))) : store :=
  fold_left (fun c e => put_data (put_ex (put_meta c (fst e) (fst (fst (snd e)))) (fst e) (snd (fst (snd e)))) (fst e) (snd (snd e)))
            l empty_store.
Definition ME := Build_meta.
Definition XE := Build_meta_ex.
Definition t_pkg (t : list modid) (m : modid) (s : stamp) : bool := mem m t.
Definition t_par (t : list (modid * modid)) (m : modid) : option modid := lookup t m.
Definition t_view (t : list (modid * (stamp * content))) (m : modid) (s : stamp) : content :=
  match find (fun e => Nat.eqb (fst e) m && Nat.eqb (fst (snd e)) s) t with Some e => snd (snd e) | None => 0 end.
Definition t_tab (t : list (modid * list modid)) (m : modid) (v : content) (o : opts) : list modid :=
  match lookup t m with Some l => l | None => [] end.
Definition case (cont : list (modid * content)) (imps : list (modid * (content * list modid))) (an : list (modid * result))
  (sccs : list (list modid)) (rch : list (modid * modid)) (ents : list (modid * (meta * meta_ex * data)))
  (ign : list modid) (th : list (modid * nat)) (vw : list (modid * (stamp * content)))
  (prb imp : list (modid * list modid)) (pk : list modid) (par : list (modid * modid)) (sd : list (list modid * nat)) (fs : FS) (o : opts) :=
  let c := mk_store ents in
  (rechecked (t_content cont) (t_view vw) (t_imports imps) (t_tab prb) (t_analyze an) (fun _ => sccs) (t_reach rch) (t_sdo sd) (t_thash th) (t_ign ign) (t_pkg pk) (t_par par) c fs o,
   report fs (fst (run (t_content cont) (t_view vw) (t_imports imps) (t_tab prb) (t_analyze an) (fun _ => sccs) (t_reach rch) (t_sdo sd) (t_thash th) (t_ign ign) (t_pkg pk) (t_par par) c fs o 1))).
(* the decidable side conditions of the positive theorem: SccFresh (F11), ProbeFresh (F6), KindStable (F7), ImplicitStable (F9) *)
Definition stab (cont : list (modid * content)) (imps : list (modid * (content * list modid))) (an : list (modid * result))
  (sccs : list (list modid)) (rch : list (modid * modid)) (ents : list (modid * (meta * meta_ex * data)))
  (ign : list modid) (th : list (modid * nat)) (vw : list (modid * (stamp * content)))
  (prb imp : list (modid * list modid)) (pk : list modid) (par : list (modid * modid)) (sd : list (list modid * nat)) (fs : FS) (o : opts) :=
  let c := mk_store ents in
  (scc_stable (t_content cont) (t_view vw) (t_imports imps) (t_tab prb) (fun _ => sccs) (t_ign ign) (t_pkg pk) (t_par par) c o fs,
   probe_fresh (t_content cont) (t_view vw) (t_tab prb) (t_ign ign) c o fs,
   kind_stable (t_content cont) (t_view vw) (t_ign ign) c o fs,
   implicit_stable (t_content cont) (t_view vw) (t_imports imps) (t_tab prb) (t_tab imp) (fun _ => sccs) (t_reach rch) (t_ign ign) (t_pkg pk) (t_par par) c o fs).
"""


class Interner:
    def __init__(self):
        self.d: dict = {}

    def __call__(self, x) -> int:
        if x not in self.d:
            self.d[x] = len(self.d) + 1
        return self.d[x]


def cl(xs) -> str:
    return "[" + "; ".join(str(x) for x in xs) + "]"


def errs(lst) -> list:
    """error tuples without the once-per-build missing-imports note (its placement is a separate finding, judged by S)"""
    return [e for e in lst if not any("running_mypy.html#missing-imports" in str(x) for x in e)]


def mod_of_path(rel: str) -> str:
    p = rel[:-4] if rel.endswith(".pyi") else rel[:-3]
    if p.endswith("/__init__"):
        p = p[: -len("/__init__")]
    return p.replace("/", ".")


def sha1(text: str) -> str:
    return hashlib.sha1(text.encode()).hexdigest()


def model_cases(h: dict, res: dict) -> list[dict]:
    """For every warm step of one chain build the Coq term `case ...` from the OBSERVED cache records, graph and SCC
    list, with `analyze`/`imports` instantiated by the table of that step's cold run."""
    I = Interner()
    mods = Interner()
    cases = []
    view: dict[str, dict] = {}       # cache as read back after the previous runs (records stay on disk)
    ghost: dict[str, tuple] = {}     # ghost fields of the model: (run number, SCC member list) of the call that wrote the entry
    last_write: dict[str, int] = {}
    last_off: dict[str, int] = {}
    prev_files: dict[str, str] = {}
    skip_next = True                 # step 0 starts from the typeshed-only cache: compared too (everything stale)
    prev_missing: set = set()
    for rec in res["steps"]:
        k = rec["k"]
        st = h["states"][k]
        for rel, text in st["files"].items():
            if prev_files.get(rel) != text or rel in st.get("touch", []):
                last_write[rel] = k
                last_off[rel] = int((st.get("mtimes") or {}).get(rel, 0))
        prev_files = dict(st["files"])
        w, c = rec["warm"], rec["cold"]
        ok = bool(w.get("pre")) and bool(c.get("entries")) and w["status"] in (0, 1) and c["status"] in (0, 1) and not w.get("crash")
        if ok and not (k > 0 and skip_next):
            user = [m for m in w["user"] if w["pre"][m].get("path")]
            uset = set(user)
            try:
                cont, imps, an, fs, ents, vw, prb, imp = [], [], [], [], [], [], [], []
                universe = {mod_of_path(f) for st_ in h["states"] for f in st_["files"]}
                # suppressed_deps_opts as observed NOW, keyed by the set of (non-indirect) suppressed modules it was computed for
                sd = []
                for m in user:
                    pm_ = w["pre"][m]
                    sup = [d for d in (pm_.get("supp") or []) if pm_["prio"].get(d) != 30]
                    sd.append(f"({cl(mods(d) for d in sup)}, {0 if not pm_.get('sdo') else I(('sdo', pm_['sdo']))})")
                pk = [mods(m) for m in user if os.path.basename(str(w["pre"][m].get("rel"))).startswith("__init__.")]
                par = [f"({mods(u)}, {mods(u.rsplit('.', 1)[0])})" for u in sorted(universe) if "." in u]
                o_txt = None
                for m in user:
                    path = w["pre"][m]["path"]                      # as mypy compares it with meta.path
                    rel = os.path.normpath(w["pre"][m]["rel"])
                    text = st["files"][rel]
                    cid = I(("c", sha1(text)))
                    vid = I(("v", sha1(text), rel.endswith(".pyi")))
                    sid = I(('s', path, BASE_MTIME + 10 * last_write[rel] + int((last_off.get(rel) or 0)), len(text.encode())))
                    cont.append(f"({mods(m)}, {cid})")
                    fs.append(f"({mods(m)}, {sid})")
                    vw.append(f"({mods(m)}, ({sid}, {vid}))")
                    pl = sorted({f"{a}.{b}" for a, b in re.findall(r"^\s*from\s+([\w.]+)\s+import\s+(\w+)", text, re.M)} & universe)
                    il = sorted(u for u in universe if "." in u and re.search(r"(?<![\w.])" + re.escape(u) + r"\.\w", text)
                                and not re.search(r"^\s*(import|from)\s+" + re.escape(u) + r"\b", text, re.M))
                    if pl:
                        prb.append(f"({mods(m)}, {cl(mods(x) for x in pl)})")
                    if il:
                        imp.append(f"({mods(m)}, {cl(mods(x) for x in il)})")
                    ce = c["entries"][m]
                    cm, cx = ce["meta"], ce["ex"]
                    o_txt = o_txt or f"{{| o_snap := {I(('o', cm['options']))}; o_version := {I(('v', cm['version']))}; o_plugin := {I(('p', cm['plugin']))} |}}"
                    imps.append(f"({mods(m)}, ({vid}, {cl(mods(d) for d in cm['deps'] + cm['supp'] if d in uset or d in cm['supp'])}))")
                    an.append(f"({mods(m)}, {{| r_iface := {I(('i', cm['ih']))}; r_errors := {cl(I(('e', tuple(e))) for e in errs(cx['errors']))}; "
                              f"r_indirect := {cl(mods(d) for d in cx['deps'] if d in uset)} |}})")
                usable = {m for m, e in view.items() if "meta" in e and "ex" in e and e.get("data_mtime") is not None}
                lost = [m for m in user if w["pre"][m].get("meta") and m not in usable]
                if lost:   # mypy loaded a valid meta that the harness failed to read back after the previous run
                    raise KeyError(f"cache records of {lost} were not read back (driver read-back incomplete)")
                for m, e in view.items():
                    if "meta" not in e or "ex" not in e or e.get("data_mtime") is None:
                        continue
                    me, xe = e["meta"], e["ex"]
                    vw.append(f"({mods(m)}, ({I(('s', me['path'], me['mtime'], me['size']))}, {I(('v', me['hash'], str(me['path']).endswith('.pyi')))}))")
                    dd = [(d, hh) for d, hh in zip(me["deps"], me["dep_hashes"]) if d in uset or d in view]
                    xd = [(d, hh) for d, hh in zip(xe["deps"], xe["dep_hashes"]) if d in uset or d in view]
                    ents.append(
                        f"({mods(m)}, (ME {I(('s', me['path'], me['mtime'], me['size']))} {I(('c', me['hash']))} "
                        f"{cl(mods(d) for d, _ in dd)} {cl(mods(d) for d in me['supp'])} {I(('o', me['options']))} {I(('v', me['version']))} "
                        f"{I(('p', me['plugin']))} {0 if me['sdo'] == '' else I(('sdo', me['sdo']))} {I(('i', me['ih']))} {cl(I(('i', x)) for _, x in dd)} {I(('t', me['thash']))} "
                        f"{'true' if me['ignore_all'] else 'false'} {me['data_mtime'] % 100000} {ghost.get(m, (0, [m]))[0]} {cl(mods(y) for y in ghost.get(m, (0, [m]))[1])}, "
                        f"XE {cl(mods(d) for d, _ in xd)} {cl(I(('i', x)) for _, x in xd)} {cl(I(('e', tuple(x))) for x in errs(xe['errors']))}, "
                        f"{{| d_iface := {I(('i', me['ih']))}; d_mtime := {e['data_mtime'] % 100000} |}}))")
                sccs = [[m for m in s if m in uset] for s in w["sccs"]]
                sccs = [s for s in sccs if s]
                idx = {m: i for i, s in enumerate(sccs) for m in s}
                # contract monitor: observed SCC list is in dependency order; reach = reachability in the SCC DAG
                edges: dict[int, set] = {i: set() for i in range(len(sccs))}
                topo_ok = True
                for m in user:
                    pm = w["pre"][m]
                    for d in pm["deps"]:
                        if d in uset and pm["prio"].get(d, 5) < 30:
                            if idx[d] > idx[m]:
                                topo_ok = False
                            if idx[d] != idx[m]:
                                edges[idx[m]].add(idx[d])
                reach: dict[int, set] = {}
                for i in range(len(sccs)):
                    seen, todo = set(), list(edges[i])
                    while todo:
                        x = todo.pop()
                        if x not in seen:
                            seen.add(x)
                            todo += list(edges[x])
                    reach[i] = seen
                rch = [f"({mods(m)}, {mods(d)})" for m in user for d in user if idx[d] in reach[idx[m]]]
                term = (f"case {cl(cont)} {cl(imps)} {cl(an)} {cl(cl(mods(m) for m in s) for s in sccs)} {cl(rch)} {cl(ents)} {cl(mods(m) for m in user if w["pre"][m].get("ignore_all"))} {cl(f"({mods(m)}, {I(('t', w['pre'][m]['thash']))})" for m in user)} {cl(vw)} {cl(prb)} {cl(imp)} {cl(pk)} {cl(par)} {cl(sd)} {cl(fs)} ({o_txt})")
                exp_re = sorted(mods(m) for m in set(w["rechecked_modules"]) & uset)
                exp_rep = {mods(m): [I(("e", tuple(x))) for x in errs(w["entries"][m]["ex"]["errors"])] for m in user
                           if "ex" in w["entries"].get(m, {})}
                on_disk = {mod_of_path(f) for f in st["files"]}
                py_probe = True
                for m in user:
                    if w["pre"][m].get("meta"):
                        txt = st["files"][os.path.normpath(w["pre"][m]["rel"])]
                        for a_, b_ in re.findall(r"^\s*from\s+([\w.]+)\s+import\s+(\w+)", txt, re.M):
                            if f"{a_}.{b_}" in on_disk and f"{a_}.{b_}" not in (w["pre"][m].get("meta_deps") or []):
                                py_probe = False
                missing_now = {d for m in user for d in (w["pre"][m].get("supp") or [])}
                py_missing = True
                for m in user:
                    if w["pre"][m].get("meta"):
                        txt = st["files"][os.path.normpath(w["pre"][m]["rel"])]
                        for a_, b_ in re.findall(r"^\s*from\s+([\w.]+)\s+import\s+(\w+)", txt, re.M):
                            nm_ = f"{a_}.{b_}"
                            if nm_ not in on_disk and ((nm_ in missing_now) != (nm_ in prev_missing)):
                                py_missing = False
                cases.append({"py_missing_stable": py_missing, "py_probe_fresh": py_probe, "term": term, "k": k, "rechecked": exp_re, "report": exp_rep, "topo_ok": topo_ok,
                              "names": {v: kname for kname, v in mods.d.items()}, "idx": h["idx"], "cfg": res["cfg"]})
            except KeyError as e:  # an expected record is missing (e.g. a module the cold run did not reach): not comparable
                cases.append({"skip": f"history {h['idx']} step {k}: missing {e!r}"})
        skip_next = not ok
        if w.get("pre"):
            prev_missing = {d for m in (w.get("user") or []) for d in ((w["pre"].get(m) or {}).get("supp") or [])}
        if w.get("entries"):
            for m, e in w["entries"].items():
                view[m] = e
            for scc in (w.get("sccs") or []):
                for m in scc:
                    if m in (w.get("rechecked_modules") or []) and m in w["entries"]:
                        ghost[m] = (k + 1, [y for y in scc if y in w["entries"]])
    return cases


def parse_case_result(s: str) -> tuple[list[int], dict[int, list[int]]] | None:
    s = re.sub(r"\s+", " ", s.strip()).replace("( ", "(").replace(" )", ")").replace("[ ", "[").replace(" ]", "]")
    m = re.match(r"^\(\[(.*?)\], ?\[(.*)\]\)$", s)
    if not m:
        return None
    re_l = [int(x) for x in re.findall(r"\d+", m.group(1))]
    rep: dict[int, list[int]] = {}
    for mm in re.finditer(r"\((\d+), ?(None|Some ?\[([^\]]*)\])\)", m.group(2)):
        rep[int(mm.group(1))] = [int(x) for x in re.findall(r"\d+", mm.group(3) or "")] if mm.group(2) != "None" else None  # type: ignore
    return re_l, rep


def correspondence(ctx, hs: list[dict], results: list[dict], limit: int) -> None:
    byidx = {h["idx"]: h for h in hs}
    cases: list[dict] = []
    skipped = 0
    # steps on which the implementation itself diverges (warm != cold) are judged by S; there the per-file diagnostics of
    # the model (analyze := the cold run's table) necessarily differ from what the warm run reported
    diverging = {(r["idx"], r["cfg"], rec["k"]) for r in results for rec in r["steps"] if canon(rec["warm"]) != canon(rec["cold"])}
    for r in results:
        for cse in model_cases(byidx[r["idx"]], r):
            if "skip" in cse:
                skipped += 1
            else:
                cases.append(cse)
    cases = cases[:limit]
    for cse in cases:
        if not cse["topo_ok"]:
            ctx.broke("C", "contract: observed SCC list is in dependency order", f"history {cse['idx']} [{cse['cfg']}] step {cse['k']}")
    out = ctx.eval_cases("model", COQ_HEADER, [c["term"] for c in cases], per_file=60)
    if out is None:
        return
    # the decidable side condition scc_stable of the positive theorem, evaluated on every compared step
    st_out = ctx.eval_cases("side", COQ_HEADER, [c["term"].replace("case ", "stab ", 1) for c in cases], per_file=120)
    side_ok: dict[tuple, bool] = {}
    if st_out is not None:
        names = ["scc_stable(F11)", "probe_fresh(F6)", "kind_stable(F7)", "implicit_stable(F9)", "missing_set_stable(F13)"]
        for cse, x in zip(cases, st_out):
            vals = re.findall(r"true|false", x)
            if len(vals) == 4 and not cse.get("py_probe_fresh", True):
                vals[1] = "false"      # a probed name exists on disk although it is not (yet) in the loaded graph
            if len(vals) == 4:
                vals.append("true" if cse.get("py_missing_stable", True) else "false")
            for nm_, v in zip(names, vals):
                ctx.add(f"side_condition_{nm_}_{v}")
            bad_side = [nm_ for nm_, v in zip(names, vals) if v == "false"]
            side_ok[(cse["idx"], cse["cfg"], cse["k"])] = not bad_side and len(vals) == 5
            if (cse["idx"], cse["cfg"], cse["k"]) in diverging:
                ctx.add("diverging_steps_with_a_false_side_condition" if bad_side else "diverging_steps_with_all_side_conditions_true")
    # cache_is_function_of_inputs: the records a warm run leaves = the records the cold run of the same step leaves
    # (source hash, interface hash, error_lines; dependency SETS are counted only), on steps where S sees no divergence
    n_cmp = n_dep = 0
    for r in results:
        for rec in r["steps"]:
            w, c = rec["warm"], rec["cold"]
            if (r["idx"], r["cfg"], rec["k"]) in diverging or not w.get("entries") or not c.get("entries"):
                continue
            if not side_ok.get((r["idx"], r["cfg"], rec["k"]), False):
                # outside the hypothesis of cache_is_function_of_inputs (a decidable side condition is false on this step,
                # e.g. an ignored `from pkg import sub` whose target appeared: F6 changes the cached interface silently)
                ctx.add("cache_record_checks_skipped_side_condition_false_or_step_not_modelled")
                continue
            for m, we in w["entries"].items():
                ce = c["entries"].get(m)
                if not ce or "meta" not in we or "meta" not in ce or "ex" not in we or "ex" not in ce:
                    continue
                n_cmp += 1
                a = (we["meta"]["hash"], we["meta"]["ih"], errs(we["ex"]["errors"]))
                b = (ce["meta"]["hash"], ce["meta"]["ih"], errs(ce["ex"]["errors"]))
                if a != b:
                    ctx.broke("C", "cache_is_function_of_inputs: warm-left record differs from cold-left record",
                              f"history {r['idx']} [{r['cfg']}] step {rec['k']} module {m}: warm {a} cold {b}")
                    break
                if (set(we["meta"]["deps"]), set(we["meta"]["supp"])) != (set(ce["meta"]["deps"]), set(ce["meta"]["supp"])):
                    n_dep += 1
                    if n_dep <= 2:
                        ctx.broke("C", "cache_is_function_of_inputs: dependency/suppressed SETS of the warm-left record differ from the cold-left record",
                                  f"history {r['idx']} [{r['cfg']}] step {rec['k']} module {m}: warm deps {sorted(we['meta']['deps'])} supp {sorted(we['meta']['supp'])}; "
                                  f"cold deps {sorted(ce['meta']['deps'])} supp {sorted(ce['meta']['supp'])}")
    ctx.cov["cache_records_warm_vs_cold_compared"] = n_cmp
    ctx.cov["cache_records_with_different_dependency_sets"] = n_dep
    bad = 0
    nontriv = 0
    explained = 0
    for cse, o in zip(cases, out):
        pr = parse_case_result(o)
        nm = cse["names"]
        if pr is None:
            ctx.broke("C", "model output unparsable", o[:300])
            return
        got_re, got_rep = sorted(pr[0]), pr[1]
        if cse["k"] > 0 and got_re and len(got_re) < len(cse["report"]):
            nontriv += 1
        if got_re != cse["rechecked"]:
            bad += 1
            if bad <= 3:
                ctx.broke("C", "stale/fresh partition: model vs mypy",
                          f"history {cse['idx']} [{cse['cfg']}] step {cse['k']}: model re-analyses {[nm[x] for x in got_re]}, "
                          f"mypy rechecked {[nm[x] for x in cse['rechecked']]}", {"history": byidx[cse['idx']]["descs"][: cse['k'] + 1]})
            continue
        if (cse["idx"], cse["cfg"], cse["k"]) in diverging:
            explained += 1
            continue
        for m, exp_errs in cse["report"].items():
            if got_rep.get(m) != exp_errs:
                bad += 1
                if bad <= 3:
                    ctx.broke("C", "per-file diagnostics: model vs mypy", f"history {cse['idx']} [{cse['cfg']}] step {cse['k']} module {nm[m]}: "
                              f"model {got_rep.get(m)} mypy {exp_errs}", {"history": byidx[cse['idx']]["descs"][: cse['k'] + 1]})
                break
    ctx.add("traces_validated_against_impl", len(cases))
    ctx.add("evaluations", len(cases))
    ctx.cov["model_steps_compared"] = len(cases)
    ctx.cov["model_steps_not_comparable"] = skipped
    ctx.cov["model_steps_partly_fresh_partly_stale"] = nontriv
    ctx.cov["model_disagreements"] = bad
    ctx.cov["model_report_checks_skipped_on_steps_where_warm_differs_from_cold"] = explained


# ------------------------------------------------------------------ the check

def s_oracle(ctx, hs: list[dict], cfgs: list[str], pre: Prewarmed, base: str, true_cold: bool) -> list[dict]:
    jobs = [(h, c) for h in hs for c in (cfgs if (h["idx"] < 9000 or h.get("all_configs")) else [x for x in cfgs if x in ("fs-json", "sqlite-bin")] or cfgs)]
    t = time.time()

    def one(job):
        h, c = job
        tc = (len(h["states"]) - 1,) if (true_cold and c == cfgs[h["idx"] % len(cfgs)]) else ()
        return run_history(h, c, pre, base, true_cold_steps=tc)
    with ThreadPoolExecutor(max_workers=vlib.NPROC) as ex:
        results = list(ex.map(one, jobs))
    ctx.log(f"S: {len(jobs)} (history x configuration) chains, {sum(len(r['steps']) for r in results)} warm-vs-cold steps ({time.time()-t:.0f}s)")
    return results


def judge(ctx, hs: list[dict], results: list[dict], pre: Prewarmed, base: str) -> None:
    byidx = {h["idx"]: h for h in hs}
    n_steps = n_nontriv = n_mixed = n_order = n_cold2 = 0
    failing: dict[str, tuple] = {}
    for r in results:
        h = byidx[r["idx"]]
        for rec in r["steps"]:
            n_steps += 1
            w, c = rec["warm"], rec["cold"]
            for side, x in (("warm", w), ("cold", c)):
                if x.get("crash"):
                    ctx.violation(f"crash:{side}:{(x['crash'].strip().splitlines() or ['?'])[-1][:80]}",
                                  f"mypy raised an internal error in a {side} run: {(x['crash'] or '')[-400:]}",
                                  {"kind": "history", "cfg": r["cfg"], "roots": h["roots"], "states": h["states"][: rec['k'] + 1], "descs": h["descs"][: rec['k'] + 1]})
            user = set(w.get("user") or [])
            re_user = user & set(w.get("rechecked_modules") or [])
            if rec["k"] > 0 and user:
                if re_user and re_user != user:
                    n_mixed += 1          # some user modules fresh, some stale: the interesting case
                if w["stdout"].strip() and "error" in w["stdout"]:
                    n_nontriv += 1
            if block_order(w) != block_order(c):
                n_order += 1
            if "cold2" in rec:
                n_cold2 += 1
                if canon(rec["cold2"]) != canon(c):
                    ctx.broke("C", "contract: two cold runs agree", f"history {r['idx']} {r['cfg']} step {rec['k']}: cold(with typeshed cache) {canon(c)} vs cold(empty cache) {canon(rec['cold2'])}",
                              {"states": h["states"][: rec['k'] + 1], "roots": h["roots"]})
            if canon(w) != canon(c):
                key, what = classify(w, c, h["states"][rec["k"]]["files"], h)
                failing.setdefault(key, (h, r["cfg"], rec["k"], what))
    ctx.add("evaluations", n_steps)
    ctx.cov["warm_vs_cold_steps"] = n_steps
    ctx.cov["steps_with_mixed_fresh_and_stale_user_modules"] = n_mixed
    ctx.cov["steps_with_diagnostics"] = n_nontriv
    ctx.cov["steps_where_only_file_block_order_differs_or_more"] = n_order
    ctx.cov["cold_vs_true_cold_checks"] = n_cold2
    for key, (h, cfg, k, what) in sorted(failing.items()):
        hh = copy.deepcopy(h)
        hh["states"] = hh["states"][: k + 1]
        hh["descs"] = hh["descs"][: k + 1]
        listed = {k_["key"] for k_ in vlib.load_known() if k_.get("property") == ctx.prop}
        small = hh if (h.get("key") or key in listed) else shrink(hh, cfg, pre, base, budget_s=60 if ctx.quick else 120, want_key=key)
        last = small["descs"][-1].split(" ")[0] if small["descs"] else "?"
        ctx.violation(key, f"warm run differs from cold run after history {small['descs']} [{cfg}]: {what}",
                      {"kind": "history", "cfg": cfg, "roots": small["roots"], "states": small["states"], "descs": small["descs"], "last_edit": last})


def run(ctx) -> None:
    ctx.cov["rule"] = ("seeded random edit histories (3-8 edits; content/interface/body/comment/touch edits, imports added/removed, "
                       "cycles, files and stubs and package submodules added/deleted, type: ignore toggled, syntax errors) over generated "
                       "3-7 module programs, each run under 4 store x format configurations; after every edit REAL warm mypy vs REAL cold "
                       "mypy in fresh subprocesses; non-trivial = a step where some user modules are fresh and some stale")
    ctx.assumptions += [
        "hashes are modelled as identity (collision freedom of the SHA digests assumed)",
        "mtime+size equal => content equal (mypy's own assumption in validate_meta); the harness sets every changed file's mtime "
        "explicitly to BASE+10*step with os.utime, so no edit hides inside the 1-second granularity",
        "'cold' = cache holding only typeshed modules (copied from a pre-warmed cache); cross-checked against a run with an EMPTY cache dir",
        "whole file blocks may be emitted in a different order by warm and cold runs (fresh SCCs are replayed before queued stale SCCs are "
        "processed); compared: exit status, the messages of every file in emission order, the summary line",
    ]
    ctx.assumptions += [
        "analysis contract (Section hypotheses of the theorems; monitored, not proved): the result for a module is a function of its "
        "source, the options and the interfaces of its import candidates and reported indirect dependencies; analysing an SCC gives each "
        "member that per-module result w.r.t. the final interfaces; the per-module equations of a program have one solution (a theorem for "
        "acyclic import graphs, an assumption for cycles); import candidates are a function of source and options",
        "graph contract: SCC list in dependency order (checked on every observed list)",
    ]
    ctx.prove("C02/Properties.v", ["C02", "lib"])
    base = tempfile.mkdtemp(prefix="c02-")
    try:
        cfgs = list(CONFIGS)
        pre = Prewarmed(base)
        t = time.time()
        pre.build(cfgs)
        ctx.log(f"pre-warmed typeshed caches for {cfgs} ({time.time()-t:.0f}s)")
        nh = ctx.n(int(os.environ.get("C02_QUICK_N", "6")), int(os.environ.get("C02_THOROUGH_N", "24")))
        hs = hand_histories() + [gen_history(ctx.seed, i) for i in range(nh)]
        ctx.cov["histories"] = len(hs)
        ctx.cov["hand_histories"] = len(hs) - nh
        ctx.cov["edit_kinds"] = sorted({d.split(" ")[0] for h in hs for d in h["descs"]})
        results = s_oracle(ctx, hs, cfgs, pre, base, true_cold=True)
        t = time.time()
        correspondence(ctx, hs, results, limit=ctx.n(400, 8000))
        ctx.log(f"C: model evaluated on the observed cache records / graphs ({time.time()-t:.0f}s)")
        judge(ctx, hs, results, pre, base)
        ctx.cov["distinct_nontrivial"] = ctx.cov.get("steps_with_mixed_fresh_and_stale_user_modules", 0)
        ctx.sample({"history": hs[-1]["descs"], "roots": hs[-1]["roots"], "files_step0": hs[-1]["states"][0]["files"]})
    finally:
        shutil.rmtree(base, ignore_errors=True)


def replay(ctx, path: str) -> None:
    d = json.load(open(path))
    rp = d.get("replay", d)
    base = tempfile.mkdtemp(prefix="c02-replay-")
    try:
        pre = Prewarmed(base)
        cfgs = [rp["cfg"]] if rp.get("cfg") in CONFIGS else list(CONFIGS)
        pre.build(cfgs)
        h = {"idx": 0, "roots": rp["roots"], "states": rp["states"], "descs": rp.get("descs") or ["?"] * len(rp["states"])}
        for c in cfgs:
            r = run_history(h, c, pre, base)
            for rec in r["steps"]:
                same = canon(rec["warm"]) == canon(rec["cold"])
                print(f"--- [{c}] step {rec['k']} ({h['descs'][rec['k']]}): {'same' if same else 'DIFFERENT'}")
                if not same:
                    print("warm:", rec["warm"]["status"], rec["warm"]["stdout"], rec["warm"]["stderr"])
                    print("cold:", rec["cold"]["status"], rec["cold"]["stdout"], rec["cold"]["stderr"])
            judge(ctx, [h], [r], pre, base)
    finally:
        shutil.rmtree(base, ignore_errors=True)


if __name__ == "__main__":
    if len(sys.argv) == 3 and sys.argv[1] == "--driver":
        sys.exit(driver_main(sys.argv[2]))
    sys.exit("usage: C02.py --driver spec.json")
