"""C15 — compiled numeric primitives compute exactly what Python computes.

T: none (hand model).  P+A: coq/C15/Properties.v.
C: the extracted Coq model (build/c15/run) against
   (i)  a C extension compiled in this run from <repo>/mypyc/lib-rt (`#include "CPy.h"`), exposing every tagged
        primitive, overflow predicate and fixed-width helper on raw words, and
   (ii) a module compiled by <repo>'s mypyc in this run (opt level 0 and 3) with one function per
        operator x operand type, on boundary x boundary operands + seeded random pairs.
S: compiled module vs the same source interpreted by CPython (the property's own oracle).
Floats: compiled vs CPython vs raw C primitive, compared by float.hex() only (no model, no theorem).
"""
from __future__ import annotations

import json
import os
import shutil
import subprocess
import sys
import sysconfig
import tempfile
import time
from concurrent.futures import ThreadPoolExecutor
from typing import Any

import vlib
from extractors import t15

# C extension compiled in every run against <repo>/mypyc/lib-rt: marshalling only, every operation is the real primitive
RAW_C_SRC = r'''#include <Python.h>
#include "CPy.h"
/* Raw access to mypyc's tagged-int primitives, for the C15 correspondence check. */
static PyObject *exc_name(void) {
    PyObject *t, *v, *tb; PyErr_Fetch(&t, &v, &tb);
    PyObject *r = PyUnicode_FromFormat("E %s", t ? ((PyTypeObject *)t)->tp_name : "none");
    Py_XDECREF(t); Py_XDECREF(v); Py_XDECREF(tb); return r;
}
static PyObject *tagged_out(CPyTagged r) {     /* steals r */
    if (r == CPY_INT_TAG) { return exc_name(); }
    if (CPyTagged_CheckShort(r)) {
        PyObject *w = PyLong_FromUnsignedLongLong((unsigned long long)r);
        PyObject *v = PyLong_FromSsize_t(CPyTagged_ShortAsSsize_t(r));
        PyObject *o = Py_BuildValue("(sNN)", "S", w, v); return o;
    }
    return Py_BuildValue("(sN)", "L", CPyTagged_LongAsObject(r));
}
static PyObject *bool_out(int b) { return PyUnicode_FromString(b ? "B 1" : "B 0"); }
static PyObject *dbl_out(double d) {
    if (d == CPY_FLOAT_ERROR && PyErr_Occurred()) return exc_name();
    return PyFloat_FromDouble(d);
}
static PyObject *op2(PyObject *self, PyObject *args) {
    const char *op; PyObject *ao, *bo;
    if (!PyArg_ParseTuple(args, "sO!O!", &op, &PyLong_Type, &ao, &PyLong_Type, &bo)) return NULL;
    CPyTagged a = CPyTagged_FromObject(ao), b = CPyTagged_FromObject(bo);
    PyObject *res = NULL;
    if (!strcmp(op, "add")) res = tagged_out(CPyTagged_Add(a, b));
    else if (!strcmp(op, "sub")) res = tagged_out(CPyTagged_Subtract(a, b));
    else if (!strcmp(op, "mul")) res = tagged_out(CPyTagged_Multiply(a, b));
    else if (!strcmp(op, "fdiv")) res = tagged_out(CPyTagged_FloorDivide(a, b));
    else if (!strcmp(op, "mod")) res = tagged_out(CPyTagged_Remainder(a, b));
    else if (!strcmp(op, "and")) res = tagged_out(CPyTagged_And(a, b));
    else if (!strcmp(op, "or")) res = tagged_out(CPyTagged_Or(a, b));
    else if (!strcmp(op, "xor")) res = tagged_out(CPyTagged_Xor(a, b));
    else if (!strcmp(op, "shl")) res = tagged_out(CPyTagged_Lshift(a, b));
    else if (!strcmp(op, "shr")) res = tagged_out(CPyTagged_Rshift(a, b));
    else if (!strcmp(op, "eq")) res = bool_out(CPyTagged_IsEq(a, b));
    else if (!strcmp(op, "ne")) res = bool_out(CPyTagged_IsNe(a, b));
    else if (!strcmp(op, "lt")) res = bool_out(CPyTagged_IsLt(a, b));
    else if (!strcmp(op, "le")) res = bool_out(CPyTagged_IsLe(a, b));
    else if (!strcmp(op, "gt")) res = bool_out(CPyTagged_IsGt(a, b));
    else if (!strcmp(op, "ge")) res = bool_out(CPyTagged_IsGe(a, b));
    else if (!strcmp(op, "truediv")) res = dbl_out(CPyTagged_TrueDivide(a, b));
    else PyErr_SetString(PyExc_KeyError, op);
    CPyTagged_DECREF(a); CPyTagged_DECREF(b);
    return res;
}
static PyObject *op1(PyObject *self, PyObject *args) {
    const char *op; PyObject *ao;
    if (!PyArg_ParseTuple(args, "sO!", &op, &PyLong_Type, &ao)) return NULL;
    PyObject *res = NULL;
    if (!strcmp(op, "co64")) { int64_t r = CPyLong_AsInt64(ao); if (r == CPY_LL_INT_ERROR && PyErr_Occurred()) return exc_name(); return Py_BuildValue("(sL)", "I", (long long)r); }
    if (!strcmp(op, "co32")) { int32_t r = CPyLong_AsInt32(ao); if (r == CPY_LL_INT_ERROR && PyErr_Occurred()) return exc_name(); return Py_BuildValue("(sL)", "I", (long long)r); }
    if (!strcmp(op, "co16")) { int16_t r = CPyLong_AsInt16(ao); if (r == CPY_LL_INT_ERROR && PyErr_Occurred()) return exc_name(); return Py_BuildValue("(sL)", "I", (long long)r); }
    if (!strcmp(op, "co8")) { uint8_t r = CPyLong_AsUInt8(ao); if (r == CPY_LL_UINT_ERROR && PyErr_Occurred()) return exc_name(); return Py_BuildValue("(sL)", "I", (long long)r); }
    CPyTagged a = CPyTagged_FromObject(ao);
    if (!strcmp(op, "neg")) res = tagged_out(CPyTagged_Negate(a));
    else if (!strcmp(op, "inv")) res = tagged_out(CPyTagged_Invert(a));
    else if (!strcmp(op, "bitlen")) res = tagged_out(CPyTagged_BitLength(a));
    else if (!strcmp(op, "tag")) { CPyTagged_INCREF(a); res = tagged_out(a); }
    else if (!strcmp(op, "tofloat")) res = dbl_out(CPyFloat_FromTagged(a));
    else PyErr_SetString(PyExc_KeyError, op);
    CPyTagged_DECREF(a);
    return res;
}
/* operations on raw machine words (arguments given as Python ints, reduced mod 2^64) */
static PyObject *raw(PyObject *self, PyObject *args) {
    const char *op; unsigned long long x = 0, y = 0, z = 0;
    PyObject *xo = NULL, *yo = NULL, *zo = NULL;
    if (!PyArg_ParseTuple(args, "sO|OO", &op, &xo, &yo, &zo)) return NULL;
    x = PyLong_AsUnsignedLongLongMask(xo); if (yo) y = PyLong_AsUnsignedLongLongMask(yo); if (zo) z = PyLong_AsUnsignedLongLongMask(zo);
    if (!strcmp(op, "toobig")) return bool_out(CPyTagged_TooBig((Py_ssize_t)x));
    if (!strcmp(op, "toobig64")) return bool_out(CPyTagged_TooBigInt64((int64_t)x));
    if (!strcmp(op, "addov")) return bool_out(CPyTagged_IsAddOverflow(x, y, z));
    if (!strcmp(op, "subov")) return bool_out(CPyTagged_IsSubtractOverflow(x, y, z));
    if (!strcmp(op, "mulov")) return bool_out(CPyTagged_IsMultiplyOverflow(x, y));
    if (!strcmp(op, "divfault")) return bool_out(CPyTagged_MaybeFloorDivideFault(x, y));
    if (!strcmp(op, "remfault")) return bool_out(CPyTagged_MaybeRemainderFault(x, y));
    if (!strcmp(op, "shlov")) return bool_out(IsShortLshiftOverflow((Py_ssize_t)x, (Py_ssize_t)y));
    if (!strcmp(op, "fromssize")) return tagged_out(CPyTagged_FromSsize_t((Py_ssize_t)x));
    if (!strcmp(op, "fromint64")) return tagged_out(CPyTagged_FromInt64((int64_t)x));
#define DIVREM(T, NAME, F) if (!strcmp(op, NAME)) { T r = F((T)x, (T)y); if (r == CPY_LL_INT_ERROR && PyErr_Occurred()) return exc_name(); return Py_BuildValue("(sL)", "I", (long long)r); }
    DIVREM(int64_t, "div64", CPyInt64_Divide) DIVREM(int64_t, "rem64", CPyInt64_Remainder)
    DIVREM(int32_t, "div32", CPyInt32_Divide) DIVREM(int32_t, "rem32", CPyInt32_Remainder)
    DIVREM(int16_t, "div16", CPyInt16_Divide) DIVREM(int16_t, "rem16", CPyInt16_Remainder)
    PyErr_SetString(PyExc_KeyError, op); return NULL;
}
static PyObject *flt(PyObject *self, PyObject *args) {
    const char *op; double x, y = 0.0;
    if (!PyArg_ParseTuple(args, "sd|d", &op, &x, &y)) return NULL;
    if (!strcmp(op, "toint")) return tagged_out(CPyTagged_FromFloat(x));
    if (!strcmp(op, "floordiv")) return dbl_out(CPyFloat_FloorDivide(x, y));
    if (!strcmp(op, "pow")) return dbl_out(CPyFloat_Pow(x, y));
    if (!strcmp(op, "floor")) return tagged_out(CPyFloat_Floor(x));
    if (!strcmp(op, "ceil")) return tagged_out(CPyFloat_Ceil(x));
    PyErr_SetString(PyExc_KeyError, op); return NULL;
}
/* batch: map(f, op, list) to amortise call overhead */
static PyMethodDef methods[] = {
    {"op2", op2, METH_VARARGS, ""}, {"op1", op1, METH_VARARGS, ""}, {"raw", raw, METH_VARARGS, ""}, {"flt", flt, METH_VARARGS, ""},
    {NULL, NULL, 0, NULL}};
static struct PyModuleDef moddef = {PyModuleDef_HEAD_INIT, "c15raw", NULL, -1, methods};
PyMODINIT_FUNC PyInit_c15raw(void) { return PyModule_Create(&moddef); }
'''

FW = {"i64": (-2 ** 63, 2 ** 63), "i32": (-2 ** 31, 2 ** 31), "i16": (-2 ** 15, 2 ** 15), "u8": (0, 256)}
BITS = {"i64": 64, "i32": 32, "i16": 16, "u8": 8}
BIN = [("add", "+"), ("sub", "-"), ("mul", "*"), ("fdiv", "//"), ("mod", "%"), ("and", "&"), ("or", "|"),
       ("xor", "^"), ("shl", "<<"), ("shr", ">>")]
CMPS = [("eq", "=="), ("ne", "!="), ("lt", "<"), ("le", "<="), ("gt", ">"), ("ge", ">=")]
PYOP = dict(BIN + CMPS)
MAGIC: dict[str, int] = {"i64": -113, "i32": -113, "i16": -113, "u8": 239, "float": -113}   # refreshed from rtypes.py by T
MAX_SHIFT = 300          # left-shift counts above this are only used with the S oracle on "huge" counts


def zt(n: int) -> str:
    return ("-" if n < 0 else "") + bin(abs(n))[2:]


def tz(s: str) -> int:
    return -int(s[1:], 2) if s.startswith("-") else int(s, 2)


# ------------------------------------------------------------------ generated module

def gen_module() -> tuple[str, dict[str, dict[str, Any]]]:
    """Source of the module compiled by mypyc + a description of every function."""
    src = ["from mypy_extensions import i64, i32, i16, u8", ""]
    fn: dict[str, dict[str, Any]] = {}

    def add(name: str, args: list[str], ret: str, expr: str, **meta: Any) -> None:
        ps = ", ".join(f"{v}: {t}" for v, t in zip("ab", args))
        src.append(f"def {name}({ps}) -> {ret}:\n    return {expr}\n")
        fn[name] = dict(args=args, ret=ret, expr=expr, **meta)

    for T in ["int", "i64", "i32", "i16", "u8"]:
        for n, o in BIN:
            add(f"b_{n}_{T}", [T, T], T, f"a {o} b", kind="bin", op=n, T=T)
        for n, o in CMPS:
            add(f"c_{n}_{T}", [T, T], "bool", f"a {o} b", kind="cmp", op=n, T=T)
        add(f"u_neg_{T}", [T], T, "-a", kind="un", op="neg", T=T)
        add(f"u_inv_{T}", [T], T, "~a", kind="un", op="inv", T=T)
        add(f"u_pos_{T}", [T], T, "+a", kind="un", op="pos", T=T)
        add(f"u_not_{T}", [T], "bool", "not a", kind="un", op="not", T=T)
    # bool
    for n, o in [("and", "&"), ("or", "|"), ("xor", "^")]:
        add(f"b_{n}_bool", ["bool", "bool"], "bool", f"a {o} b", kind="boolbit", op=n)
    for n, o in CMPS:
        add(f"c_{n}_bool", ["bool", "bool"], "bool", f"a {o} b", kind="boolcmp", op=n)
    for n, o in BIN:
        if n not in ("and", "or", "xor"):
            add(f"b_{n}_boolint", ["bool", "bool"], "int", f"a {o} b", kind="mixed", op=n, conv=[None, None], T="int")
    add("u_neg_bool", ["bool"], "int", "-a", kind="mixed1", op="neg", T="int")
    add("u_inv_bool", ["bool"], "int", "~a", kind="mixed1", op="inv", T="int")
    add("u_not_bool", ["bool"], "bool", "not a", kind="mixed1", op="not", T="bool")
    # mixed operand types: the int operand is implicitly converted to the native type (documented), bool widened
    for T in ["i64", "i32", "u8"]:
        for n, o in BIN:
            add(f"m_{n}_int_{T}", ["int", T], T, f"a {o} b", kind="mixed", op=n, conv=[T, None], T=T)
            add(f"m_{n}_{T}_int", [T, "int"], T, f"a {o} b", kind="mixed", op=n, conv=[None, T], T=T)
        for n, o in CMPS:
            add(f"mc_{n}_int_{T}", ["int", T], "bool", f"a {o} b", kind="mixedcmp", op=n, conv=[T, None], T=T)
            add(f"mc_{n}_{T}_int", [T, "int"], "bool", f"a {o} b", kind="mixedcmp", op=n, conv=[None, T], T=T)
    for n, o in BIN:
        add(f"m_{n}_int_bool", ["int", "bool"], "int", f"a {o} b", kind="mixed", op=n, conv=[None, None], T="int")
        add(f"m_{n}_bool_int", ["bool", "int"], "int", f"a {o} b", kind="mixed", op=n, conv=[None, None], T="int")
        add(f"m_{n}_i64_bool", ["i64", "bool"], "i64", f"a {o} b", kind="mixed", op=n, conv=[None, None], T="i64")
    for n, o in CMPS:
        add(f"mc_{n}_int_bool", ["int", "bool"], "bool", f"a {o} b", kind="mixedcmp", op=n, conv=[None, None], T="int")
    # literal operands (short-int fast paths of compare_tagged, inline_fixed_width_divide/mod, // by 2^k -> >>)
    lits = [("add", 1), ("sub", 1), ("mul", 3), ("fdiv", 3), ("fdiv", -3), ("fdiv", 4), ("fdiv", 1), ("fdiv", -1),
            ("mod", 3), ("mod", -3), ("mod", 4), ("mod", -1), ("mod", -200), ("fdiv", 2), ("mul", -1), ("shl", 3), ("shr", 3), ("and", 255), ("or", 1), ("xor", -1)]
    for T in ["int", "i64", "i32", "i16"]:
        for n, k in lits:
            nm = f"l_{n}_{str(k).replace('-', 'm')}_{T}"
            add(nm, [T], T, f"a {PYOP[n]} {k}" if k >= 0 else f"a {PYOP[n]} ({k})", kind="lit", op=n, k=k, T=T, side="r")
        for n, k in [("sub", 1), ("fdiv", 7), ("mod", 7), ("fdiv", -7), ("mod", -7), ("shl", 1), ("shr", 1048576), ("shr", -1048576), ("mod", -113), ("fdiv", -226), ("sub", -113)]:
            if T == "i16" and abs(k) > 32767:
                continue
            nm = f"r_{n}_{str(k).replace('-', 'm')}_{T}"
            add(nm, [T], T, f"{k} {PYOP[n]} a" if k >= 0 else f"({k}) {PYOP[n]} a", kind="lit", op=n, k=k, T=T, side="l")
        for n, k in [("eq", 0), ("ne", 0), ("lt", 10), ("le", -1), ("gt", 0), ("ge", 100), ("eq", -1)]:
            nm = f"lc_{n}_{str(k).replace('-', 'm')}_{T}"
            add(nm, [T], "bool", f"a {PYOP[n]} {k}" if k >= 0 else f"a {PYOP[n]} ({k})", kind="litcmp", op=n, k=k, T=T, side="r")
    for n, k in [("add", 1), ("mul", 3), ("fdiv", 3), ("mod", 3), ("shr", 3), ("and", 15), ("mod", 240), ("fdiv", 1), ("xor", 255), ("sub", 17)]:
        add(f"l_{n}_{k}_u8", ["u8"], "u8", f"a {PYOP[n]} {k}", kind="lit", op=n, k=k, T="u8", side="r")
    # conversions
    for T in FW:
        add(f"cv_{T}", ["int"], T, f"{T}(a)", kind="conv", T=T)
        add(f"cvi_{T}", ["int"], T, "a", kind="conv", T=T)
        add(f"cvb_{T}", [T], "int", "int(a)", kind="back", T=T)
        add(f"arg_{T}", [T], T, "a", kind="argconv", T=T)
        add(f"cvbool_{T}", ["bool"], T, f"{T}(a)", kind="frombool", T=T)
    for S_, T in [("i64", "i32"), ("i64", "i16"), ("i64", "u8"), ("i32", "i16"), ("i32", "u8"), ("i16", "u8"),
                  ("i32", "i64"), ("i16", "i64"), ("u8", "i64"), ("u8", "i16"), ("i16", "i32")]:
        add(f"cx_{S_}_{T}", [S_], T, f"{T}(a)", kind="cross", S=S_, T=T)
    add("cv_int_bool", ["bool"], "int", "int(a)", kind="frombool", T="int")
    add("bl_int", ["int"], "int", "a.bit_length()", kind="bitlen")
    # power
    add("p_int", ["int", "int"], "object", "a ** b", kind="pow")
    add("l_pow2_int", ["int"], "int", "a ** 2", kind="powlit", k=2)
    add("l_pow3_i64", ["i64"], "object", "a ** 3", kind="powlit", k=3)
    # floats (monitored only)
    for n, o in [("add", "+"), ("sub", "-"), ("mul", "*"), ("truediv", "/"), ("fdiv", "//"), ("mod", "%"), ("pow", "**")]:
        add(f"f_{n}", ["float", "float"], "float" if n != "pow" else "object", f"a {o} b", kind="float")
    for n, o in CMPS:
        add(f"fc_{n}", ["float", "float"], "bool", f"a {o} b", kind="float")
    add("f_neg", ["float"], "float", "-a", kind="float")
    add("f_abs", ["float"], "float", "abs(a)", kind="float")
    add("f_not", ["float"], "bool", "not a", kind="float")
    add("f_to_int", ["float"], "int", "int(a)", kind="float")
    add("f_to_i64", ["float"], "i64", "i64(a)", kind="float_to_fw", T="i64")
    add("f_from_int", ["int"], "float", "float(a)", kind="intfloat")
    add("f_from_i64", ["i64"], "float", "float(a)", kind="intfloat")
    add("f_int_truediv", ["int", "int"], "float", "a / b", kind="intfloat")
    for n, o in [("add", "+"), ("mul", "*"), ("truediv", "/"), ("fdiv", "//"), ("lt", "<"), ("eq", "==")]:
        ret = "bool" if n in ("lt", "eq") else "float"
        add(f"fm_{n}_float_int", ["float", "int"], ret, f"a {o} b", kind="floatint")
        add(f"fm_{n}_int_float", ["int", "float"], ret, f"a {o} b", kind="floatint")
    return "\n".join(src), fn


CHILD = r'''
import sys, json, importlib, warnings, os
warnings.simplefilter("ignore")
def enc(v):
    if isinstance(v, bool): return "B 1" if v else "B 0"
    if isinstance(v, int): return "I %d" % v
    if isinstance(v, float): return "F " + v.hex()
    if isinstance(v, complex): return "C %s %s" % (v.real.hex(), v.imag.hex())
    return "? " + repr(v)
def call(f, a):
    try:
        return enc(f(*a))
    except BaseException as e:
        return "E " + type(e).__name__
def main():
    moddir, refdir, jobfile, outfile, progfile, trace = sys.argv[1:7]
    sys.set_int_max_str_digits(0)
    jobs = json.load(open(jobfile))
    sys.path.insert(0, moddir)
    comp = importlib.import_module("c15mod")
    assert comp.__file__.endswith(".so"), comp.__file__
    sys.path.insert(0, refdir)
    ref = importlib.import_module("c15ref")
    assert ref.__file__.endswith(".py"), ref.__file__
    spec = jobs["spec"]
    out = open(outfile, "w")
    prog = os.open(progfile, os.O_WRONLY | os.O_CREAT | os.O_TRUNC)
    for name, cases in jobs["cases"].items():
        # the operation in flight is always on disk before it runs: function name (and, when tracing, the case index)
        os.write(prog, ("F %s\n" % name).encode())
        fc, fr = getattr(comp, name), getattr(ref, name)
        isf = [t == "float" for t in spec[name]]
        res = []
        for i, a in enumerate(cases):
            a = [float.fromhex(x) if f else x for x, f in zip(a, isf)]
            r = call(fr, a)
            if trace == "1":
                os.write(prog, ("I %d\n" % i).encode())
            res.append([call(fc, a), r])
        out.write(json.dumps({"name": name, "res": res}) + "\n")
        out.flush()
    os.write(prog, b"DONE\n")
main()
'''


class Build:
    def __init__(self, ctx: vlib.Ctx):
        self.ctx = ctx
        self.dir = tempfile.mkdtemp(prefix="verif-c15-")
        self.rt = os.path.join(vlib.REPO, "mypyc", "lib-rt")
        self.src, self.fn = gen_module()

    def cleanup(self) -> None:
        shutil.rmtree(self.dir, ignore_errors=True)

    def build_raw(self) -> str | None:
        d = os.path.join(self.dir, "raw")
        os.makedirs(d)
        with open(os.path.join(d, "c15raw.c"), "w") as f:
            f.write(RAW_C_SRC)
        st, out = vlib.sh([vlib.PY, "-c", "from mypyc.common import RUNTIME_C_FILES as R; print(' '.join(R))"], env=vlib.py_env())
        if st != 0:
            self.ctx.broke("C", "raw extension", "cannot read RUNTIME_C_FILES: " + out)
            return None
        files = [os.path.join(self.rt, f) for f in out.split()]
        inc = sysconfig.get_paths()["include"]
        so = os.path.join(d, "c15raw" + sysconfig.get_config_var("EXT_SUFFIX"))
        st, out = vlib.sh(["gcc", "-shared", "-fPIC", "-O1", "-fno-strict-overflow", "-w", "-I" + self.rt, "-I" + inc,
                           "c15raw.c"] + files + ["-o", so], cwd=d, timeout=300)
        if st != 0:
            self.ctx.broke("C", "raw extension", "gcc failed:\n" + out[-3000:])
            return None
        return d

    def build_mod(self, opt: str) -> str | None:
        d = os.path.join(self.dir, "opt" + opt)
        os.makedirs(d)
        with open(os.path.join(d, "c15mod.py"), "w") as f:
            f.write(self.src)
        with open(os.path.join(d, "setup.py"), "w") as f:
            f.write("from setuptools import setup\nfrom mypyc.build import mypycify\n"
                    f"setup(name='c15mod', ext_modules=mypycify(['c15mod.py'], opt_level='{opt}'))\n")
        st, out = vlib.sh([vlib.PY, "setup.py", "build_ext", "--inplace"], cwd=d, env=vlib.py_env(), timeout=900)
        if st != 0 or not any(x.startswith("c15mod.") and x.endswith(".so") for x in os.listdir(d)):
            self.ctx.broke("C", f"mypyc build opt {opt}", out[-3000:])
            return None
        os.remove(os.path.join(d, "c15mod.py"))     # make sure the compiled module is the one imported
        return d

    def ref_dir(self) -> str:
        d = os.path.join(self.dir, "ref")
        os.makedirs(d, exist_ok=True)
        with open(os.path.join(d, "c15ref.py"), "w") as f:
            f.write(self.src)
        return d

    def _child_once(self, moddir: str, cases: dict[str, list[list[Any]]], tag: str, trace: bool) -> tuple[int, str, dict[str, list[list[str]]], list[str]]:
        job = os.path.join(self.dir, f"job-{tag}.json")
        outp = os.path.join(self.dir, f"out-{tag}.jsonl")
        prog = os.path.join(self.dir, f"progress-{tag}.txt")
        child = os.path.join(self.dir, "child.py")
        with open(child, "w") as f:
            f.write(CHILD)
        with open(job, "w") as f:
            json.dump({"spec": {k: v["args"] for k, v in self.fn.items()}, "cases": cases}, f)
        for pth in (outp, prog):
            if os.path.exists(pth):
                os.remove(pth)
        st, out = vlib.sh([vlib.PY, child, moddir, self.ref_dir(), job, outp, prog, "1" if trace else "0"], env=vlib.py_env(), timeout=3000)
        res: dict[str, list[list[str]]] = {}
        if os.path.exists(outp):
            for ln in open(outp):
                try:
                    d = json.loads(ln)
                    res[d["name"]] = d["res"]
                except ValueError:
                    pass      # truncated last line of a process that died
        progress = open(prog).read().split("\n") if os.path.exists(prog) else []
        return st, out, res, [x for x in progress if x]

    def run_child(self, moddir: str, cases: dict[str, list[list[Any]]], tag: str) -> dict[str, list[list[str]]] | None:
        """Run every case through the compiled module and the interpreted twin.  If the process dies (signal), the
        operation in flight is identified (progress file, then a traced re-run of that function), reported as a
        violation, and the run continues with the remaining functions."""
        remaining = dict(cases)
        results: dict[str, list[list[str]]] = {}
        for attempt in range(12):
            st, out, res, progress = self._child_once(moddir, remaining, tag, False)
            results.update(res)
            if st == 0:
                return results
            fl = [x[2:] for x in progress if x.startswith("F ")]
            if st > 0 and st != 124 and "Traceback" in out or not fl:
                self.ctx.broke("C", f"compiled-module runner ({tag})", f"status {st}:\n{out[-3000:]}")
                return results or None
            bad = fl[-1]
            st2, out2, _, prog2 = self._child_once(moddir, {bad: remaining[bad]}, tag + "-trace", True)
            idx = [int(x[2:]) for x in prog2 if x.startswith("I ")]
            args = remaining[bad][idx[-1]] if idx and st2 != 0 else None
            f = self.fn[bad]
            sig = -st if st < 0 else st
            self.ctx.violation(f"crash:{bad}:{','.join(str(x) for x in args) if args is not None else '?'}",
                               f"the compiled module crashed the interpreter (status {st}, signal {sig}) while executing {bad}{tuple(args) if args is not None else '(?)'} "
                               f"[`{f['expr']}`, {tag}]; CPython evaluates the same operation normally",
                               {"kind": "compiled_crash", "function": bad, "expr": f["expr"], "arg_types": f["args"], "ret": f["ret"],
                                "args": [str(x) for x in args] if args is not None else None, "status": st, "build": tag,
                                "source": f"def {bad}(...) -> {f['ret']}: return {f['expr']}", "reproduced_in_traced_rerun": st2 != 0})
            for k in list(remaining):
                if k in results or k == bad:
                    del remaining[k]
        self.ctx.broke("C", f"compiled-module runner ({tag})", "more than 12 crashing functions; giving up")
        return results


# ------------------------------------------------------------------ operand sets

def boundary_ints() -> list[int]:
    vals = {0, 1, -1, 2, -2, 3, -3, 7, -7, 10, -10, 63, 64, 65, -63, -64, -65, 2 ** 30, 2 ** 30 - 1, -2 ** 30, 2 ** 61, -2 ** 61,
            2 ** 61 - 1, 2 ** 100 + 12345, -(2 ** 100) - 12345, 3 * 2 ** 61, -3 * 2 ** 61}
    for m in set(MAGIC.values()):
        vals |= {m - 1, m, m + 1, -m, ~m}
    for k in (7, 8, 15, 16, 31, 32, 62, 63, 64):
        for d in (-1, 0, 1):
            vals.add(2 ** k + d)
            vals.add(-(2 ** k) + d)
    return sorted(vals)


def rand_int(rng: vlib.Rng, lo: int | None = None, hi: int | None = None) -> int:
    """Random integer: random magnitude class, near powers of two more likely; optionally clamped to [lo, hi)."""
    while True:
        r = rng.random()
        if r < 0.35:
            k = rng.choice([7, 8, 15, 16, 30, 31, 32, 61, 62, 63, 64, 65])
            v = rng.choice([1, -1]) * (2 ** k) + rng.randint(-3, 3)
        elif r < 0.5:
            v = rng.randint(-70, 70)
        else:
            bits = rng.randint(1, 72)
            v = rng.getrandbits(bits) * rng.choice([1, -1])
        if lo is not None and not (lo <= v < hi):  # type: ignore[operator]
            if rng.random() < 0.5:
                v = lo + (v % (hi - lo))  # type: ignore[operator]
            else:
                continue
        return v


def shift_ok(op: str, a: int, b: int) -> bool:
    """Left shifts (and powers) whose exact result would be enormous are not evaluated."""
    if op == "shl":
        return b <= MAX_SHIFT or a == 0
    return True


def pairs_for(op: str, vals: list[int], rng: vlib.Rng, nrand: int, lo: int | None = None, hi: int | None = None) -> list[list[int]]:
    ps = [[a, b] for a in vals for b in vals if shift_ok(op, a, b)]
    for _ in range(nrand):
        a = rand_int(rng, lo, hi)
        b = rand_int(rng, lo, hi)
        if op in ("shl", "shr") and rng.random() < 0.8:
            b = rng.randint(-2, 130) if lo is None or lo < 0 else rng.randint(0, 130)
            if hi is not None and b >= hi:
                b = b % hi
        if shift_ok(op, a, b):
            ps.append([a, b])
    return ps


# ------------------------------------------------------------------ model access

class Model:
    def __init__(self, exe: str):
        self.exe = exe

    def run(self, lines: list[str]) -> list[str]:
        if not lines:
            return []
        chunks = [lines[i::8] for i in range(8)] if len(lines) > 20000 else [lines]

        def one(ls: list[str]) -> list[str]:
            if not ls:
                return []
            p = subprocess.run([self.exe], input="\n".join(ls) + "\n", text=True, capture_output=True, timeout=600)
            out = p.stdout.splitlines()
            if len(out) != len(ls):
                raise RuntimeError(f"model driver returned {len(out)} lines for {len(ls)}: {p.stderr[-300:]}")
            return out
        with ThreadPoolExecutor(max_workers=8) as ex:
            outs = list(ex.map(one, chunks))
        if len(chunks) == 1:
            return outs[0]
        res = [""] * len(lines)
        for i, o in enumerate(outs):
            res[i::8] = o
        return res


def model_val(s: str) -> str:
    """Canonical value of a model answer: 'S w v' / 'L v' / 'I v' -> 'I <decimal>', 'B x', 'E name', 'U'."""
    p = s.split()
    if p[0] == "S":
        return "I %d" % tz(p[2])
    if p[0] in ("L", "I"):
        return "I %d" % tz(p[1])
    return s


def model_raw(s: str) -> Any:
    p = s.split()
    if p[0] == "S":
        return ("S", tz(p[1]), tz(p[2]))
    if p[0] == "L":
        return ("L", tz(p[1]))
    if p[0] == "I":
        return ("I", tz(p[1]))
    return s


# ------------------------------------------------------------------ stage C (i): raw C primitives vs model

def load_raw(rawdir: str) -> Any:
    sys.path.insert(0, rawdir)
    import importlib
    raw = importlib.import_module("c15raw")
    assert raw.__file__.startswith(rawdir)
    return raw


def raw_stage(ctx: vlib.Ctx, model: Model, raw: Any, rng: vlib.Rng) -> None:
    B = boundary_ints()
    nr = ctx.n(4000, 60000)
    lines: list[str] = []
    got: list[Any] = []
    desc: list[str] = []

    def case(line: str, g: Any, d: str) -> None:
        lines.append(line)
        got.append(g)
        desc.append(d)
    for n, _ in BIN + CMPS:
        for a, b in pairs_for(n, B, rng, nr):
            if n in ("shl",) and b > MAX_SHIFT:
                continue
            if n == "shr" and b > 5000:
                continue
            kind = "cc" if (n, PYOP[n]) in CMPS else "t"
            case(f"{kind} {n} {zt(a)} {zt(b)}", raw.op2(n, a, b), f"CPyTagged {n}({a}, {b})")
    vals1 = B + [rand_int(rng) for _ in range(nr)]
    for a in vals1:
        case(f"t neg {zt(a)}", raw.op1("neg", a), f"CPyTagged_Negate({a})")
        case(f"t inv {zt(a)}", raw.op1("inv", a), f"CPyTagged_Invert({a})")
        case(f"t bitlen {zt(a)}", raw.op1("bitlen", a), f"CPyTagged_BitLength({a})")
        case(f"t tag {zt(a)}", raw.op1("tag", a), f"CPyTagged_FromObject({a})")
        for t, o in (("i64", "co64"), ("i32", "co32"), ("i16", "co16"), ("u8", "co8")):
            case(f"co {t} {zt(a)}", raw.op1(o, a), f"CPyLong_As{t}({a})")
    # predicates and helpers on raw words
    W = sorted({v % 2 ** 64 for v in B} | {2 ** 63, 2 ** 63 - 1, 2 ** 62, 2 ** 64 - 1, 2 ** 64 - 2, 2 ** 31, 2 ** 31 - 1, 2 ** 32})
    Wr = W + [rng.getrandbits(64) for _ in range(ctx.n(300, 3000))]
    for x in Wr:
        sx = x - 2 ** 64 if x >= 2 ** 63 else x
        case(f"p toobig {zt(sx)}", raw.raw("toobig", x), f"CPyTagged_TooBig({sx})")
        case(f"p toobig {zt(sx)}", raw.raw("toobig64", x), f"CPyTagged_TooBigInt64({sx})")
        case(f"t fromssize {zt(sx)}", raw.raw("fromssize", x), f"CPyTagged_FromSsize_t({sx})")
        case(f"t fromssize {zt(sx)}", raw.raw("fromint64", x), f"CPyTagged_FromInt64({sx})")
        case(f"w i64 {zt(sx)}", raw.raw("fromint64", x), f"coerce_fixed_width_to_int slow path / FromInt64({sx})")
    for x in W + Wr[:200]:
        for y in W:
            case(f"p mulov {zt(x)} {zt(y)}", raw.raw("mulov", x, y), f"IsMultiplyOverflow({x},{y})")
            case(f"p divfault {zt(x)} {zt(y)}", raw.raw("divfault", x, y), f"MaybeFloorDivideFault({x},{y})")
            case(f"p remfault {zt(x)} {zt(y)}", raw.raw("remfault", x, y), f"MaybeRemainderFault({x},{y})")
            s, d = (x + y) % 2 ** 64, (x - y) % 2 ** 64
            case(f"p addov {zt(s)} {zt(x)} {zt(y)}", raw.raw("addov", s, x, y), f"IsAddOverflow({s},{x},{y})")
            case(f"p subov {zt(d)} {zt(x)} {zt(y)}", raw.raw("subov", d, x, y), f"IsSubtractOverflow({d},{x},{y})")
        sx = x - 2 ** 64 if x >= 2 ** 63 else x
        for sh in (0, 1, 2, 31, 32, 61, 62, 63):
            case(f"p shlov {zt(sx)} {zt(sh)}", raw.raw("shlov", x, sh), f"IsShortLshiftOverflow({sx},{sh})")
    # fixed-width C helpers CPyInt{64,32,16}_Divide / _Remainder
    for t, suf in (("i64", "64"), ("i32", "32"), ("i16", "16")):
        lo, hi = FW[t]
        vs = [v for v in B if lo <= v < hi] + [lo, hi - 1] + [rand_int(rng, lo, hi) for _ in range(ctx.n(150, 1500))]
        for x in vs:
            for y in vs[:60]:
                case(f"f {t} fdiv {zt(x)} {zt(y)}", raw.raw("div" + suf, x, y), f"CPyInt{suf}_Divide({x},{y})")
                case(f"f {t} mod {zt(x)} {zt(y)}", raw.raw("rem" + suf, x, y), f"CPyInt{suf}_Remainder({x},{y})")
    out = model.run(lines)
    bad = 0
    for ln, m, g, d in zip(lines, out, got, desc):
        mm = model_raw(m)
        gg = tuple(g) if isinstance(g, tuple) else g
        if isinstance(gg, tuple) and gg[0] == "I" and isinstance(mm, tuple) and mm[0] == "I":
            ok = gg == mm
        elif isinstance(gg, str) and gg.startswith("E "):
            ok = m == gg
        else:
            ok = mm == gg
        if not ok:
            bad += 1
            if bad <= 5:
                ctx.broke("C", "model vs lib-rt C primitive", f"{d}: model `{m}` C `{g}` (driver line `{ln}`)", {"line": ln, "model": m, "c": repr(g)})
    ctx.add("evaluations", len(lines))
    ctx.add("traces_validated_against_impl", len(lines))
    ctx.cov["raw_c_cases"] = len(lines)
    ctx.cov["raw_c_disagreements"] = bad
    ctx.sample({"raw": desc[len(desc) // 7], "model": out[len(out) // 7], "c": repr(got[len(got) // 7])})
    # floats: raw primitive vs CPython (no model)
    fbad = 0
    ntd = 0
    fl = float_values(rng, ctx.n(60, 400))
    nfl = 0
    for x in fl:
        for nm, pyf in (("toint", lambda v: int(v)), ("floor", lambda v: __import__("math").floor(v)), ("ceil", lambda v: __import__("math").ceil(v))):
            try:
                e = ("I", pyf(x))
            except Exception as ex:  # noqa
                e = "E " + type(ex).__name__
            g = raw.flt(nm, x)
            gv = ("I", g[-1]) if isinstance(g, tuple) else g
            nfl += 1
            if gv != e:
                fbad += 1
                ctx.violation(f"float-raw:{nm}:{x.hex()}", f"lib-rt float->int primitive {nm}({x.hex()}) gives {g}, CPython {e}", {"kind": "float_raw", "op": nm, "x": x.hex()})
    for a in B + [rand_int(rng) for _ in range(ctx.n(200, 5000))]:
        for b in (B if abs(a) < 2 ** 70 else B[:10]):
            try:
                e = (a / b).hex()
            except Exception as ex:  # noqa
                e = "E " + type(ex).__name__
            g = raw.op2("truediv", a, b)
            g = g.hex() if isinstance(g, float) else g
            nfl += 1
            if g != e:
                key = f"float-raw:truediv:{a}:{b}"
                ntd += 1
                if abs(a) < 2 ** 62 and abs(b) < 2 ** 62 and (abs(a) > 2 ** 53 or abs(b) > 2 ** 53) and not e.startswith("E ") \
                        and "F " + str(g) == _pred_truediv(a, b):
                    key = "int-truediv:double-rounding-above-2^53"
                if key.startswith("float-raw") and ntd > 40:
                    continue
                ctx.violation(key, f"CPyTagged_TrueDivide({a},{b}) gives {g}, CPython {e}",
                              {"kind": "float_raw", "op": "truediv", "a": str(a), "b": str(b), "lib_rt": g, "cpython": e,
                               "repro": f"compile `def f(a: int, b: int) -> float: return a / b` with mypyc; f({a}, {b}).hex() vs ({a} / {b}).hex()"})
        try:
            e = float(a).hex()
        except Exception as ex:  # noqa
            e = "E " + type(ex).__name__
        g = raw.op1("tofloat", a)
        g = g.hex() if isinstance(g, float) else g
        nfl += 1
        if g != e:
            ctx.violation(f"float-raw:tofloat:{a}", f"CPyFloat_FromTagged({a}) gives {g}, CPython {e}", {"kind": "float_raw", "op": "tofloat", "a": a})
    ctx.add("evaluations", nfl)
    ctx.cov["float_raw_cases"] = nfl


def f2b(x: float) -> int:
    import struct
    return struct.unpack("<Q", struct.pack("<d", x))[0]


def b2f(b: int) -> float:
    import struct
    return struct.unpack("<d", struct.pack("<Q", b))[0]


def float_values(rng: vlib.Rng, n: int) -> list[float]:
    """Boundary binary64 values (signed zeros, subnormals, 2^52/2^53/2^62/2^63 neighbours, 2^1023, max, inf, nan, the
    error value -113.0) + values drawn as random 64-bit patterns + random small values."""
    pats = {0, 1, 2, 2 ** 52 - 1, 2 ** 52, 2 ** 52 + 1, 0x7FEFFFFFFFFFFFFF, 0x7FE0000000000000, 0x7FF0000000000000, 0x7FF8000000000000}
    for v in (2.0 ** 52, 2.0 ** 53, 2.0 ** 62, 2.0 ** 63, 2.0 ** 64, 1.0, 0.5, float(MAGIC["float"]), 2.0 ** 31, 2.0 ** 15, 256.0):
        b = f2b(v)
        pats |= {b - 1, b, b + 1}
    pats |= {p | (1 << 63) for p in list(pats)}
    for _ in range(n // 2):
        r = rng.random()
        if r < 0.5:
            pats.add(rng.getrandbits(64))
        else:       # exponent near the interesting range, random mantissa
            e = 1023 + rng.choice([-1074 + 1023, -60, -2, -1, 0, 1, 2, 10, 30, 51, 52, 53, 54, 61, 62, 63, 64, 100, 1000, 1023])
            pats.add((rng.getrandbits(1) << 63) | (max(0, min(2046, e)) << 52) | rng.getrandbits(52))
    vs = [b2f(p) for p in sorted(pats)]
    vs += [0.0, -0.0, 1.0, -1.0, 0.5, -0.5, 1.5, -1.5, 2.5, 3.0, -3.0, 7.0, 1e-300, -1e-300, 5e-324, 1e300, -1e300, 1.7976931348623157e308,
          float("inf"), float("-inf"), float("nan"), 2.0 ** 62, -(2.0 ** 62), 2.0 ** 62 - 1024, 2.0 ** 63, -(2.0 ** 63), 2.0 ** 64, 2.0 ** 53, 2.0 ** 53 + 2,
          -(2.0 ** 62) - 1024, 4611686018427387903.5, 9.223372036854775e18, 1e19, -1e19, 1e30, 0.1, -0.1, 255.9, 256.0, -0.9, 32767.5, 2147483648.0]
    for _ in range(n):
        r = rng.random()
        if r < 0.4:
            vs.append(rng.uniform(-100, 100))
        elif r < 0.7:
            vs.append(rng.choice([1, -1]) * 2.0 ** rng.randint(-80, 80) * rng.random())
        else:
            vs.append(float(rng.randint(-20, 20)) / rng.choice([1, 2, 4, 3]))
    return vs


# ------------------------------------------------------------------ stage C (ii) + S: compiled module

def in_rng(T: str, v: int) -> bool:
    return T == "int" or FW[T][0] <= v < FW[T][1]


PYF = {"add": lambda x, y: x + y, "sub": lambda x, y: x - y, "mul": lambda x, y: x * y, "fdiv": lambda x, y: x // y,
       "mod": lambda x, y: x % y, "and": lambda x, y: x & y, "or": lambda x, y: x | y, "xor": lambda x, y: x ^ y,
       "shl": lambda x, y: x << y if 0 <= y < 64 else None, "shr": lambda x, y: x >> y if 0 <= y < 64 else None}


def magic_candidates(m: int) -> list[int]:
    c = {m, -m, ~m, m - 1, m + 1, 0, 1, -1, 256 - m, 255 - m, 2 * m, 2 * m + 1, -2 * m}
    ks = list(range(-12, 13)) + [16, 100, 113, 114, 200, 239, 240, 255, 256, -114, -200, -240, -256, 1000, -1000, 2 ** 15, -2 ** 15, 2 ** 31, -2 ** 31, -2 ** 63]
    for k in ks:
        c |= {m + k, m - k, m ^ k, m | (k & 0xFF), m & ~(k & 0xFF), k}
        if k:
            for r in {0, 1, -1, abs(k) - 1, 1 - abs(k), m}:
                c.add(m * k + r)
                c.add(m + k * r)
        if 0 <= k < 12:
            c |= {m << k, (m << k) + (1 << k) - 1, (m << k) + 1}
    return sorted(c)


def magic_solutions(f: dict[str, Any], T: str, ms: list[int], limit: int = 12) -> list[list[int]]:
    """Operands (in range of T) for which the EXACT result of the function is an error value of a native type."""
    lo, hi = FW[T]
    op = f["op"]
    out: list[list[int]] = []
    for m in ms:
        if not (lo <= m < hi) and T != "u8":
            continue
        cand = [v for v in magic_candidates(m) if lo <= v < hi]
        ys = [v for v in cand if abs(v) <= 2 ** 16 or v in (lo, hi - 1)]
        sols: list[list[int]] = []
        want = (lambda r: r is not None and (r == m or (T == "u8" and r % 256 == m)))  # noqa
        try:
            if f["kind"] == "un":
                g = {"neg": lambda x: -x, "inv": lambda x: ~x, "pos": lambda x: x}.get(op)
                sols = [[x] for x in cand if g is not None and want(g(x))]
            elif f["kind"] in ("lit", "litcmp"):
                if op in PYF:
                    k = f["k"]
                    g2 = (lambda x: PYF[op](x, k)) if f["side"] == "r" else (lambda x: PYF[op](k, x))  # noqa
                    for x in cand:
                        try:
                            if want(g2(x)):
                                sols.append([x])
                        except ZeroDivisionError:
                            pass
            else:
                for x in cand:
                    for y in ys:
                        try:
                            if want(PYF[op](x, y)):
                                sols.append([x, y])
                        except ZeroDivisionError:
                            pass
        except KeyError:
            pass
        # spread over distinct second operands
        seen: set[int] = set()
        pick = []
        for sl in sols:
            key = sl[-1]
            if key not in seen or len(sols) <= limit:
                seen.add(key)
                pick.append(sl)
        out += pick[:limit]
    return out


def make_cases(ctx: vlib.Ctx, fn: dict[str, dict[str, Any]], rng: vlib.Rng) -> dict[str, list[list[Any]]]:
    cases = make_cases0(ctx, fn, rng)
    ms = sorted(set(MAGIC.values()))
    nmag = 0
    without: list[str] = []
    for name, f in fn.items():
        T = f.get("T")
        if T in FW and f["kind"] in ("bin", "un", "lit", "mixed") and f.get("op") in list(PYF) + ["neg", "inv", "pos"]:
            if f["kind"] == "mixed" and not all(t in FW or t == "int" for t in f["args"]):
                continue
            sols = magic_solutions(f, T, ms)
            got = {tuple(c) for c in cases[name]}
            sols = [sl for sl in sols if tuple(sl) not in got]
            cases[name] += sols
            nmag += len(sols)
            if not any(True for _ in magic_solutions(f, T, [MAGIC[T]], 1)):
                without.append(name)
    for name, extra in (("f_add", [(-112.0, -1.0)]), ("f_sub", [(-112.0, 1.0)]), ("f_mul", [(113.0, -1.0)]), ("f_truediv", [(-226.0, 2.0)]),
                        ("f_fdiv", [(-226.0, 2.0), (-225.5, 2.0)]), ("f_mod", [(-113.0, -200.0), (87.0, -200.0)]), ("f_pow", [(-113.0, 1.0)]),
                        ("f_neg", [(113.0,)]), ("f_abs", [(-113.0,)])):
        m = float(MAGIC["float"])
        sc = m / -113.0
        cases[name] += [[(v * sc).hex() for v in e] for e in extra]
        nmag += len(extra)
    for name, extra in (("f_int_truediv", [[2 * MAGIC["float"], 2], [MAGIC["float"], 1]]), ("f_from_int", [[MAGIC["float"]]]), ("f_from_i64", [[MAGIC["float"]]]),
                        ("f_to_int", [[float(MAGIC["float"]).hex()]]), ("f_to_i64", [[float(MAGIC["float"]).hex()]])):
        cases[name] += extra
        nmag += len(extra)
    ctx.cov["cases_with_exact_result_equal_to_error_value"] = nmag
    ctx.cov["native_functions_whose_result_cannot_equal_the_error_value_for_any_candidate_operand"] = without
    return cases


def make_cases0(ctx: vlib.Ctx, fn: dict[str, dict[str, Any]], rng: vlib.Rng) -> dict[str, list[list[Any]]]:
    B = boundary_ints()
    cases: dict[str, list[list[Any]]] = {}
    nint = ctx.n(1500, 30000)         # random pairs per int operator
    nfw = ctx.n(600, 10000)
    for name, f in fn.items():
        k = f["kind"]
        T = f.get("T")
        if k in ("bin", "cmp"):
            if T == "int":
                ps = pairs_for(f["op"], B, rng, nint)
                if f["op"] == "shl":   # huge counts: both sides must raise the same exception type (only the S oracle)
                    ps += [[a, b] for a in (1, -1, 2 ** 64, 0) for b in (2 ** 62, 2 ** 63, 2 ** 64, 2 ** 66, 2 ** 70)]
                cases[name] = ps
            else:
                lo, hi = FW[T]
                vs = sorted({v for v in B if lo <= v < hi} | {lo, lo + 1, hi - 1, hi - 2})
                cases[name] = pairs_for(f["op"], vs, rng, nfw, lo, hi)
        elif k == "un":
            vs = B if T == "int" else sorted({v for v in B if in_rng(T, v)} | {FW[T][0], FW[T][1] - 1})
            lo, hi = (None, None) if T == "int" else FW[T]
            cases[name] = [[v] for v in vs] + [[rand_int(rng, lo, hi)] for _ in range(nfw)]
        elif k in ("boolbit", "boolcmp"):
            cases[name] = [[a, b] for a in (False, True) for b in (False, True)]
        elif k in ("mixed", "mixedcmp"):
            doms = []
            for t in f["args"]:
                if t == "bool":
                    doms.append(([False, True], None, None))
                elif t == "int":
                    doms.append((B, None, None))
                else:
                    lo, hi = FW[t]
                    doms.append((sorted({v for v in B if lo <= v < hi} | {lo, hi - 1}), lo, hi))
            ps = [[a, b] for a in doms[0][0] for b in doms[1][0]]
            for _ in range(nfw // 3):
                ps.append([rng.choice([False, True]) if d[0] == [False, True] else rand_int(rng, d[1], d[2]) for d in doms])
            op = f["op"]
            cases[name] = [p for p in ps if shift_ok(op, int(p[0]), int(p[1]))]
        elif k == "mixed1":
            cases[name] = [[False], [True]]
        elif k in ("lit", "litcmp", "powlit"):
            lo, hi = (None, None) if T in ("int", None) else FW[T]
            if name == "l_pow3_i64":
                lo, hi = FW["i64"]
            vs = [v for v in B if lo is None or lo <= v < hi]
            vs += [rand_int(rng, lo, hi) for _ in range(nfw)]
            if f.get("side") == "l" and f["op"] == "shl":
                vs = [v for v in vs if v <= MAX_SHIFT]
            cases[name] = [[v] for v in vs]
        elif k == "bitlen":
            cases[name] = [[v] for v in B] + [[rand_int(rng)] for _ in range(nfw)] + [[2 ** 4000 + 1], [-(2 ** 4000)]]
        elif k == "conv":
            cases[name] = [[v] for v in B] + [[rand_int(rng)] for _ in range(nfw)]
        elif k in ("back", "argconv"):
            lo, hi = FW[T]
            vs = [v for v in B if lo <= v < hi] + [lo, hi - 1] + [rand_int(rng, lo, hi) for _ in range(nfw)]
            if k == "argconv":
                vs += [v for v in B if not (lo <= v < hi)]
            cases[name] = [[v] for v in vs]
        elif k == "frombool":
            cases[name] = [[False], [True]]
        elif k == "cross":
            lo, hi = FW[f["S"]]
            cases[name] = [[v] for v in B if lo <= v < hi] + [[lo], [hi - 1]] + [[rand_int(rng, lo, hi)] for _ in range(nfw // 4)]
        elif k == "pow":
            cases[name] = [[a, b] for a in B + [5, -5, 10] for b in list(range(-3, 12)) + [31, 32, 62, 63, 64, 65]]
        elif k == "float":
            fl = float_values(rng, ctx.n(40, 300))
            if len(f["args"]) == 2:
                ess = [0.0, -0.0, 1.0, -1.0, 2.0, 0.5, 3.0, -3.0, 7.0, 10.0, 0.1, float("inf"), float("-inf"), float("nan"), float(MAGIC["float"]), 5e-324, 1.7976931348623157e308, 2.0 ** 53, 2.0 ** 62]
                fl2 = fl if not ctx.quick else ess + fl[::3]
                cases[name] = [[a.hex(), b.hex()] for a in fl for b in fl2 if not (name == "f_pow" and abs(b) > 1e6 and abs(a) > 1e6)]
            else:
                cases[name] = [[a.hex()] for a in fl]
        elif k == "float_to_fw":
            cases[name] = [[a.hex()] for a in float_values(rng, ctx.n(40, 300))]
        elif k == "intfloat":
            T0 = f["args"][0]
            lo, hi = (None, None) if T0 == "int" else FW[T0]
            vs = [v for v in B if lo is None or lo <= v < hi] + [rand_int(rng, lo, hi) for _ in range(ctx.n(100, 2000))]
            vs += [2 ** 1023, 2 ** 1024, -2 ** 1024, 2 ** 1024 - 2 ** 970, 10 ** 400] if T0 == "int" else []
            if len(f["args"]) == 2:
                cases[name] = [[a, b] for a in vs for b in vs[:70]]
            else:
                cases[name] = [[v] for v in vs]
        elif k == "floatint":
            fl = float_values(rng, 30)
            iv = B + [2 ** 1024, -2 ** 1024, 10 ** 400]
            if f["args"][0] == "float":
                cases[name] = [[a.hex(), b] for a in fl for b in iv]
            else:
                cases[name] = [[a, b.hex()] for a in iv for b in fl]
        else:
            raise AssertionError(k)
    return cases


def model_line(f: dict[str, Any], a: list[Any]) -> str | None:
    """Driver request whose answer is the model's prediction for the compiled function (None: not modelled)."""
    k, T, op = f["kind"], f.get("T"), f.get("op")
    z = [zt(int(x)) for x in a] if all(isinstance(x, (int, bool)) for x in a) else []
    if k == "bin":
        if T == "int":
            if (op == "shl" and a[1] > MAX_SHIFT) or (op == "shr" and a[1] > 5000):
                return None
            return f"t {op} {z[0]} {z[1]}"
        return f"f {T} {op} {z[0]} {z[1]}"
    if k == "cmp" and T == "int":
        return f"cl {op} {z[0]} {z[1]}"
    if k == "un" and op in ("neg", "inv"):
        return f"t {op} {z[0]}" if T == "int" else f"fu {T} {op} {z[0]}"
    if k == "lit" and T != "int" and f["side"] == "r" and op in ("fdiv", "mod") and f["k"] not in (0, -1):
        if T == "u8":
            return f"f {T} {op} {z[0]} {zt(f['k'])}"
        return f"fi {T} {op} {z[0]} {zt(f['k'])}"
    if k == "lit":
        x, y = (z[0], zt(f["k"])) if f["side"] == "r" else (zt(f["k"]), z[0])
        if T == "int":
            cnt = int(a[0]) if f["side"] == "l" else f["k"]
            if (op == "shl" and cnt > MAX_SHIFT) or (op == "shr" and cnt > 5000):
                return None
            return f"t {op} {x} {y}"
        return f"f {T} {op} {x} {y}"
    if k == "litcmp" and T == "int":
        return f"cl {op} {z[0]} {zt(f['k'])}"
    if k == "bitlen":
        return f"t bitlen {z[0]}"
    if k == "conv":
        return f"c {T} {z[0]}"
    if k == "back":
        return f"w {T} {z[0]}"
    if k == "cross":
        return f"fw {T} {z[0]}"
    if k == "mixed" and T == "int":
        if (op == "shl" and a[1] > MAX_SHIFT) or (op == "shr" and a[1] > 5000):
            return None
        return f"t {op} {z[0]} {z[1]}"
    return None


def _pred_truediv(a: int, b: int) -> str:
    """What `(double)a / (double)b` gives (the defect: both operands rounded to double first)."""
    try:
        return "F " + (float(a) / float(b)).hex()
    except Exception as e:  # noqa
        return "E " + type(e).__name__


def _pred_int_float_cmp(name: str, a: list[Any]) -> str:
    """What the comparison gives when the int operand is converted to double first."""
    import operator
    op = operator.eq if "_eq_" in name else operator.lt
    try:
        xs = [float(x) if isinstance(x, int) else float.fromhex(x) for x in a]
        return "B 1" if op(xs[0], xs[1]) else "B 0"
    except Exception as e:  # noqa
        return "E " + type(e).__name__


def classify(f: dict[str, Any], a: list[Any], name: str, comp: str = "", ref: str = "") -> tuple[str, str] | None:
    """Stable key + description for the classes of violations found on the unchanged tree (one key per class).
    A class is only recognised when the operands are in the class AND the compiled result is exactly the value the
    diagnosed cause predicts; any other disagreement keeps its own key (function + operands) and is reported."""
    T, op = f.get("T"), f.get("op")
    if T in FW and op in ("shl", "shr") and f["kind"] in ("bin", "mixed", "lit"):
        cnt = int(a[1]) if len(a) == 2 else (f["k"] if f["side"] == "r" else int(a[0]))
        if cnt < 0:
            return ("native-shift:negative-count", "native-int shift by a negative count does not raise ValueError (C undefined behaviour)")
        if cnt >= BITS[T]:
            return ("native-shift:count>=width", "native-int shift by a count >= the type width is C undefined behaviour (x86: count taken modulo the width) although the exact result fits")
    if name == "f_int_truediv":
        xs = [int(x) for x in a]
        if all(abs(x) < 2 ** 62 for x in xs) and any(abs(x) > 2 ** 53 for x in xs) and ref.startswith("F ") and comp == _pred_truediv(*xs):
            return ("int-truediv:double-rounding-above-2^53",
                    "int / int on short ints converts both operands to double first (CPyTagged_TrueDivide), which rounds twice when an operand exceeds 2^53; CPython rounds once")
    if f["kind"] == "floatint" and f["ret"] == "bool":
        xs = [int(x) for x in a if isinstance(x, int)]
        if any(abs(x) > 2 ** 53 for x in xs) and ref.startswith("B ") and comp == _pred_int_float_cmp(name, a):
            return ("int-float-comparison:int-operand-converted-to-double",
                    "comparing an int with a float converts the int to double first (rounding, or OverflowError beyond 2^1024); CPython compares exactly")
    return None


def oracle(f: dict[str, Any], a: list[Any], comp: str, ref: str) -> tuple[bool, str]:
    """The property: compiled result = CPython result; fixed width only when the exact result fits; int -> native
    conversions rejected exactly when out of range; u8 wraps.  Returns (ok, reason)."""
    k, T = f["kind"], f.get("T")
    ret = f["ret"]
    # implicit / explicit conversions of int operands
    if k in ("conv", "argconv"):
        v = int(a[0])
        if in_rng(T, v):
            return comp == "I %d" % v, "in-range conversion must preserve the value"
        return comp.startswith("E "), "out-of-range conversion must be rejected"
    if k in ("mixed", "mixedcmp") and any(c for c in f["conv"]):
        for x, c in zip(a, f["conv"]):
            if c and not in_rng(c, int(x)):
                return comp.startswith("E "), "out-of-range int operand must be rejected by the implicit conversion"
    if k == "cross":
        lo, hi = FW[T]
        v = int(a[0])
        if lo <= v < hi:
            return comp == "I %d" % v, "in-range narrowing must preserve the value"
        return True, "documented truncation"
    if k == "float_to_fw":
        if ref.startswith("I ") and not in_rng(T, int(ref[2:])):
            return comp.startswith("E "), "out-of-range float->native conversion must be rejected"
        return comp == ref, ""
    if ret in FW:
        if ref.startswith("I "):
            v = int(ref[2:])
            if in_rng(ret, v):
                return comp == ref, "exact result fits the type"
            if ret == "u8":
                return comp == "I %d" % (v % 256), "u8 arithmetic wraps modulo 256"
            return True, "signed overflow: outside the property"
        if ref.startswith("E "):
            return comp == ref, "same exception type"
    if ref.startswith("E ") and ref in ("E MemoryError", "E OverflowError") and comp in ("E MemoryError", "E OverflowError"):
        return True, "resource limits"
    return comp == ref, ""


def enc_raw(g: Any) -> str:
    if isinstance(g, float):
        return "F " + g.hex()
    if isinstance(g, tuple):
        return "I %d" % g[-1]
    return str(g)


def raw_float_prim(raw: Any, name: str, a: list[Any]) -> str | None:
    """The lib-rt primitive behind a float-related compiled function, called directly on the same operands."""
    if name == "f_int_truediv":
        return enc_raw(raw.op2("truediv", a[0], a[1]))
    if name == "f_from_int":
        return enc_raw(raw.op1("tofloat", a[0]))
    if name == "f_to_int":
        return enc_raw(raw.flt("toint", float.fromhex(a[0])))
    if name == "f_fdiv":
        return enc_raw(raw.flt("floordiv", float.fromhex(a[0]), float.fromhex(a[1])))
    return None


FLOAT_KINDS = ("float", "float_to_fw", "intfloat", "floatint")
FL2 = {"f_fdiv": "floordiv", "f_mod": "mod", "f_truediv": "div"}
FL2C = {"f_add": "add", "f_sub": "sub", "f_mul": "mul"}


def fz(x: str) -> str:
    return zt(f2b(float.fromhex(x)))


def float_model_lines(name: str, a: list[Any]) -> tuple[str | None, str | None]:
    """(request for the model of the C code, request for the transcription of CPython) for a float-related function."""
    if name in FL2:
        o = FL2[name]
        return f"fl {o} {fz(a[0])} {fz(a[1])}", f"flp {o} {fz(a[0])} {fz(a[1])}"
    if name in FL2C:
        return f"fl {FL2C[name]} {fz(a[0])} {fz(a[1])}", None
    if name.startswith("fc_"):
        return f"fl cmp {name[3:]} {fz(a[0])} {fz(a[1])}", None
    if name in ("f_neg", "f_abs"):
        return f"fl {name[2:]} {fz(a[0])}", None
    if name == "f_to_int":
        return f"fl toint {fz(a[0])}", f"flp toint {fz(a[0])}"
    if name == "f_to_i64":
        return f"fl ftofw i64 {fz(a[0])}", None
    if name == "f_from_int":
        return f"fl fromint {zt(a[0])}", f"flp fromint {zt(a[0])}"
    if name == "f_from_i64":
        return f"fl fwtof {zt(a[0])}", f"flp fromint {zt(a[0])}"
    if name == "f_int_truediv":
        return f"fl itruediv {zt(a[0])} {zt(a[1])}", f"flp itruediv {zt(a[0])} {zt(a[1])}"
    if name.startswith("fm_eq_") or name.startswith("fm_lt_"):
        op = name[3:5]
        if name.endswith("_int_float"):
            return f"fl icmp {op} {zt(a[0])} {fz(a[1])}", f"flp icmp {op} {zt(a[0])} {fz(a[1])}"
        op = {"eq": "eq", "lt": "gt"}[op]        # f op a  <=>  a op' f
        return f"fl icmp {op} {zt(a[1])} {fz(a[0])}", f"flp icmp {op} {zt(a[1])} {fz(a[0])}"
    return None, None


def canon_float_result(sv: str) -> str:
    """Compiled / CPython result -> the model's notation (floats as bit patterns, every NaN alike)."""
    if sv.startswith("F "):
        x = float.fromhex(sv[2:])
        return "F nan" if x != x else "F %d" % f2b(x)
    return sv


def canon_model_float(m: str) -> str:
    p = m.split()
    if p[0] == "F":
        b = tz(p[1])
        return "F nan" if (b >> 52) & 0x7FF == 0x7FF and b & (2 ** 52 - 1) else "F %d" % b
    if p[0] == "I":
        return "I %d" % tz(p[1])
    return m


def module_stage(ctx: vlib.Ctx, bld: Build, model: Model | None, rng: vlib.Rng, raw: Any = None, dirs: list[str | None] | None = None) -> None:
    fn = bld.fn
    cases = make_cases(ctx, fn, rng)
    total = sum(len(v) for v in cases.values())
    ctx.log(f"module: {len(fn)} compiled functions, {total} calls per opt level")
    opts = ["0", "3"]
    if dirs is None:
        t = time.time()
        with ThreadPoolExecutor(max_workers=2) as ex:
            dirs = list(ex.map(bld.build_mod, opts))
        ctx.log(f"mypyc builds (opt 0 and 3): {time.time()-t:.1f}s")
    # floats: the lib-rt primitive on the same operands (third leg of the three-way comparison)
    prim: dict[tuple[str, int], str] = {}
    if raw is not None:
        for name in ("f_int_truediv", "f_from_int", "f_to_int", "f_fdiv"):
            for i, a in enumerate(cases[name]):
                pv = raw_float_prim(raw, name, a)
                if pv is not None:
                    prim[(name, i)] = pv
    n3 = n2 = nbad3 = 0
    # model predictions (independent of opt level)
    mlines: list[str] = []
    mkeys: list[tuple[str, int]] = []
    for name, cs in cases.items():
        f = fn[name]
        for i, a in enumerate(cs):
            ln = model_line(f, a)
            if ln is not None:
                mlines.append(ln)
                mkeys.append((name, i))
    flines: list[str] = []
    fkeys: list[tuple[str, int, str]] = []
    for name, cs in cases.items():
        if fn[name]["kind"] in FLOAT_KINDS:
            for i, a in enumerate(cs):
                cl, pl = float_model_lines(name, a)
                if cl is not None:
                    flines.append(cl)
                    fkeys.append((name, i, "c"))
                if pl is not None:
                    flines.append(pl)
                    fkeys.append((name, i, "py"))
    mout: dict[tuple[str, int], str] = {}
    fout: dict[tuple[str, int, str], str] = {}
    if model is not None:
        t = time.time()
        for kk, o in zip(mkeys, model.run(mlines)):
            mout[kk] = o
        ctx.log(f"model: {len(mlines)} predictions in {time.time()-t:.1f}s")
        t = time.time()
        for kk3, o in zip(fkeys, model.run(flines)):
            fout[kk3] = canon_model_float(o)
        ctx.log(f"float model: {len(flines)} predictions (C model + CPython transcription) in {time.time()-t:.1f}s")
    nfm_c = nfm_py = nbad_fc = nbad_fpy = 0
    nontriv: set[tuple] = set()
    dist: dict[str, int] = {}
    per_fn: dict[str, int] = {}
    for opt, d in zip(opts, dirs):
        if d is None:
            continue
        t = time.time()
        res = bld.run_child(d, cases, "opt" + opt)
        if res is None:
            continue
        ctx.log(f"opt {opt}: compiled + interpreted runs in {time.time()-t:.1f}s")
        nbad_c = 0
        for name, cs in cases.items():
            f = fn[name]
            rs = res.get(name)
            if rs is None:          # the function crashed the interpreter: reported by run_child
                continue
            dist[f["kind"]] = dist.get(f["kind"], 0) + len(cs)
            for i, (a, (comp, ref)) in enumerate(zip(cs, rs)):
                # ---- S: the property's own oracle, compiled vs CPython
                ok, why = oracle(f, a, comp, ref)
                cls = classify(f, a, name, comp, ref) if not ok or f.get('op') in ('shl', 'shr') else None
                if not ok:
                    if cls is not None:
                        key = cls[0]
                        what = f"{cls[1]}: e.g. {name}{tuple(a)} [`{f['expr']}`] compiled -> {comp}, CPython -> {ref}"
                    else:
                        key = f"{name}:{','.join(str(x) for x in a)}"
                        what = f"{name}{tuple(a)} [`{f['expr']}`, opt {opt}] compiled -> {comp}, CPython -> {ref} ({why})"
                    if cls is None:
                        per_fn[name] = per_fn.get(name, 0) + 1
                        if per_fn[name] > 20:        # at most 20 replay files per compiled function
                            ctx.add("violations_beyond_per_function_cap")
                            continue
                    ctx.violation(key, what, {"kind": "compiled_vs_cpython", "function": name, "expr": f["expr"], "arg_types": f["args"],
                                              "ret": f["ret"], "args": [str(x) for x in a], "opt": opt, "compiled": comp, "cpython": ref,
                                              "source": f"def {name}(...) -> {f['ret']}: return {f['expr']}"})
                # ---- floats: compiled vs lib-rt primitive vs CPython (by float.hex(); no model)
                if f["kind"] in FLOAT_KINDS:
                    pv = prim.get((name, i))
                    if pv is None:
                        n2 += 1
                    else:
                        n3 += 1
                        same = pv == comp or (pv.startswith("E ") and comp.startswith("E "))
                        if not same:
                            nbad3 += 1
                            if nbad3 <= 5:
                                ctx.broke("C", f"float three-way (opt {opt})", f"{name}{tuple(a)}: compiled {comp}, lib-rt primitive {pv}, CPython {ref}")
                    # binary64 model: the model of the C code must equal the compiled result (bit pattern), the
                    # transcription of CPython must equal the interpreter
                    mc = fout.get((name, i, "c"))
                    if mc is not None:
                        nfm_c += 1
                        cc = canon_float_result(comp)
                        if not (mc == cc or (mc.startswith("E ") and cc.startswith("E ") and name == "f_to_i64")):
                            nbad_fc += 1
                            if nbad_fc <= 5:
                                ctx.broke("C", f"float model of the C code vs compiled (opt {opt})", f"{name}{tuple(a)}: model {mc}, compiled {cc} [{comp}], CPython {ref}")
                    mp = fout.get((name, i, "py"))
                    if mp is not None:
                        nfm_py += 1
                        rr = canon_float_result(ref)
                        if not (mp == rr or (mp in ("E OverflowError", "E MemoryError") and rr in ("E OverflowError", "E MemoryError"))):
                            nbad_fpy += 1
                            if nbad_fpy <= 5:
                                ctx.broke("C", "transcription of CPython float semantics vs CPython", f"{name}{tuple(a)}: model {mp}, CPython {rr} [{ref}]")
                # ---- C: model vs compiled
                m = mout.get((name, i))
                if m is not None and cls is None:      # inside a reported finding class the model is not compared
                    mv = model_val(m)
                    if mv == "U":
                        continue
                    if f["kind"] in ("mixed",) and f["T"] == "int":
                        pass
                    if mv.startswith("E ") and f["kind"] == "conv":
                        okc = comp.startswith("E ")
                    elif f["ret"] == "bool" and mv.startswith("B "):
                        okc = comp == mv
                    else:
                        okc = comp == mv
                    if not okc:
                        nbad_c += 1
                        if nbad_c <= 5:
                            ctx.broke("C", f"model vs compiled (opt {opt})", f"{name}{tuple(a)} [`{f['expr']}`]: model {mv} compiled {comp} cpython {ref}",
                                      {"function": name, "args": [str(x) for x in a], "model": m, "compiled": comp})
                    # non-trivial: operands or result beyond the short range, an exception, or a fast/slow boundary
                    if any(isinstance(x, int) and not isinstance(x, bool) and abs(x) >= 2 ** 30 for x in a) or comp.startswith("E "):
                        nontriv.add((name, tuple(a)))
        ctx.add("evaluations", total)
        ctx.add("traces_validated_against_impl", len(mlines))
        ctx.cov[f"model_vs_compiled_disagreements_opt{opt}"] = nbad_c
        if opt == "0":
            for nm in ("b_fdiv_int", "b_shl_int", "b_mod_i64", "cv_u8"):
                if nm not in res:
                    continue
                cs = cases[nm]
                j = len(cs) // 3
                ctx.sample({"fn": nm, "expr": fn[nm]["expr"], "args": [str(x)[:30] for x in cs[j]], "compiled": res[nm][j][0][:40], "cpython": res[nm][j][1][:40],
                            "model": mout.get((nm, j), "-")[:80]})
    ctx.cov["float_model_c_vs_compiled_cases"] = nfm_c
    ctx.cov["float_model_python_vs_cpython_cases"] = nfm_py
    ctx.cov["float_model_c_vs_compiled_disagreements"] = nbad_fc
    ctx.cov["float_model_python_vs_cpython_disagreements"] = nbad_fpy
    ctx.cov["float_cases_three_way_compiled_primitive_cpython"] = n3
    ctx.cov["float_cases_two_way_compiled_cpython"] = n2
    ctx.cov["float_three_way_disagreements_compiled_vs_primitive"] = nbad3
    ctx.cov["distinct_nontrivial"] = ctx.cov.get("distinct_nontrivial", 0) + len(nontriv)
    ctx.cov["input_distribution"] = {"calls_per_kind_both_opts": dist, "functions": len(fn), "boundary_values": len(boundary_ints())}


# ------------------------------------------------------------------ entry points

def run(ctx: vlib.Ctx) -> None:
    ctx.cov["rule"] = ("operands: boundary set (0, +-1, +-2^k+-{0,1} for k in 7,8,15,16,31,32,62,63,64, 2^30, 2^61, 2^100..) squared per operator and "
                       "operand type + seeded random pairs biased to powers of two; every pair is run through the freshly compiled mypyc module "
                       "(opt 0 and 3), CPython and the extracted Coq model; raw CPyTagged_* primitives and overflow predicates from lib-rt are run on "
                       "the same operands and on raw 64-bit words. non-trivial = an operand of magnitude >= 2^30 (beyond the multiply fast path / "
                       "near a short-long boundary) or an exception")
    ctx.assumptions += [
        "CPython 3.12.1 is the oracle for Python semantics (the same source module run interpreted)",
        "slow paths call CPython's own long arithmetic: modelled as the exact Z operation followed by CPyTagged_StealFromObject; "
        "CPyLong_AsSsize_tAndOverflow(_) digit loop modelled as the range test [-2^62, 2^62); CPyTagged_BitwiseLongOp_ digit loops modelled as Z.land/lor/lxor "
        "(all three monitored by the raw-word correspondence, not proved)",
        "gcc two's-complement semantics with -fno-strict-overflow (as in mypyc's own build flags); arithmetic >> on signed values; 64-bit platform",
        "memory exhaustion on astronomically large shift counts is not modelled; left-shift counts > %d only through the S oracle" % MAX_SHIFT,
        "floats: binary64 is modelled by Coq's SpecFloat (prec 53, emax 1024), the specification FloatAxioms postulates for PrimFloat; no FloatAxioms/Reals "
        "axiom is used; NaN payload/sign not modelled; fmod/floor/(double)int/long_true_divide slow path are specified on Z (exact / round-to-nearest-even via "
        "SpecFloat.binary_normalize / SFdiv) and validated bit-exactly against the compiled code and CPython; libm functions (pow, sin, ...) are not modelled",
        "refcounts / memory safety of the primitives are out of scope here (C06)",
        "extraction: ExtrOcamlBasic only; driver tools/ocaml/c15_driver.ml + zio.ml (I/O only); raw extension RAW_C_SRC in tools/harness/C15.py (marshalling only)",
    ]
    # T: error values + declared error kinds of the native-returning primitives -> coq/gen/C15ErrKinds.v
    global MAGIC
    try:
        t15.generate()
        mv = t15.magic_values()
        MAGIC = {"i64": mv["int64_t"], "i32": mv["int32_t"], "i16": mv["int16_t"], "u8": mv["uint8_t"], "float": mv["double"]}
        ctx.cov["error_values_from_rtypes"] = MAGIC
        ctx.cov["error_kind_table_rows"] = len(t15.table())
    except Exception as e:  # noqa
        ctx.broke("T", "t15 extractor (error values / error kinds)", repr(e))
    bld = Build(ctx)
    pool = ThreadPoolExecutor(max_workers=3)
    try:
        # the C builds do not depend on the proofs: start them first, they run while Coq checks the theorems
        t0 = time.time()
        fut_raw = pool.submit(bld.build_raw)
        fut_mods = [pool.submit(bld.build_mod, o) for o in ("0", "3")]
        ctx.prove("C15/Properties.v", ["C15", "gen", "lib"])
        exe = vlib.build_extracted("c15", "C15/Extract.v", "tools/ocaml/c15_driver.ml")
        model = Model(exe) if exe else None
        if exe is None:
            ctx.broke("C", "extraction", "extracted model does not build")
        # witnesses replayed on Coq's primitive (hardware) floats + PrimFloat/SpecFloat agreement on samples
        st, out = vlib.coqc_file("C15/FloatPrim.v")
        if st != 0:
            ctx.broke("C", "FloatPrim.v (witnesses on primitive floats)", out[-2000:])
        else:
            prims = sorted({ln.split(":")[0].strip() for ln in out.splitlines() if " : " in ln and not ln.startswith(" ")})
            ctx.cov.setdefault("trusted_base", []).append(
                "C15/FloatPrim.v (not in Properties.v): vm_compute on kernel primitives only, no FloatAxioms; Print Assumptions lists the primitives: " + ", ".join(prims))
        rawdir = fut_raw.result()
        raw = load_raw(rawdir) if rawdir else None
        if raw is not None and model:
            raw_stage(ctx, model, raw, vlib.Rng(ctx.seed, "raw"))
            ctx.log(f"raw stage: {ctx.cov.get('raw_c_cases')} cases, {ctx.cov.get('raw_c_disagreements')} disagreements")
        dirs = [f.result() for f in fut_mods]
        ctx.log(f"raw extension + mypyc builds (opt 0 and 3) ready {time.time()-t0:.1f}s after start")
        module_stage(ctx, bld, model, vlib.Rng(ctx.seed, "module"), raw, dirs)
        ctx.cov["float_cases_total"] = (ctx.cov.get("float_raw_cases", 0) + ctx.cov.get("float_cases_three_way_compiled_primitive_cpython", 0)
                                        + ctx.cov.get("float_cases_two_way_compiled_cpython", 0))
    finally:
        pool.shutdown(wait=True)
        bld.cleanup()


def replay(ctx: vlib.Ctx, path: str) -> None:
    d = json.load(open(path))
    print(json.dumps(d, indent=1)[:3000])
    r = d.get("replay", {})
    if r.get("kind") in ("compiled_vs_cpython", "compiled_crash"):
        print(f"\nTo reproduce by hand: compile with mypyc a module containing\n  from mypy_extensions import i64, i32, i16, u8\n  {r['source']}\n"
              f"with parameter types {r['arg_types']}, call it with {r['args']} and compare with the interpreted result.")
    run(ctx)
