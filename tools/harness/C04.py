"""C04 -- a killed run or a failed cache write never makes later runs wrong.

T  tools/extractors/t04.py regenerates coq/gen/CacheProtocol.v (order of store operations in
   write_cache / process_stale_scc* / worker.serve, reactions to failed writes) from the text of /repo.
P+A  coq/C04/Properties.v: which theorem applies is decided by the regenerated model
   (Gen.CacheProtocol.protocol_checked): the positive closure (PropertiesSafe.v: crash_safe,
   write_is_optional) when the generated order passes the side-condition checker, otherwise the
   refutation closure (PropertiesRefuted.v: crash_safe_refuted on the generated order).
C  (1) the real store-operation trace of every process (store classes wrapped from outside:
   tools/shim/c04) is compared with the model's generated sequence for the same SCC structure;
   (2) for every enumerated fault the model's predicted warm output is compared with the real one.
S  fault enumeration on the implementation: 2-step histories x every crash position between two store
   operations of every process x single (thorough: also double) write failures x {fs, sqlite} x
   {sequential, -n 2}; the NEXT warm run must equal a cold run (diagnostics + exit status).
"""
from __future__ import annotations

import itertools
import json
import os
import re
import shutil
import subprocess
import sys
import tempfile
import time
from concurrent.futures import ThreadPoolExecutor
from typing import Any

import vlib

SHIM = os.path.join(vlib.VERIF, "tools", "shim", "c04")
DRIVER = os.path.join(SHIM, "driver.py")
T1 = 1_600_000_000
T2 = 1_700_000_000

# ------------------------------------------------------------------ histories
# (name, v1 files, v2 files (only the edited ones), command-line targets, SCCs of user modules)
HISTORIES: list[dict[str, Any]] = [
    {"name": "one-error-changes", "v1": {"m.py": 'x: int = "a"\n'}, "v2": {"m.py": "y: str = 1\n"},
     "targets": ["m.py"], "sccs": [["m"]], "subsets": True},
    {"name": "one-error-appears", "v1": {"m.py": "x: int = 1\n"}, "v2": {"m.py": 'x: int = "a"\n'},
     "targets": ["m.py"], "sccs": [["m"]]},
    {"name": "dep-interface-changes",
     "v1": {"d.py": "def f() -> int:\n    return 1\n", "m.py": "from d import f\nx: int = f()\n"},
     "v2": {"d.py": "def f() -> str:\n    return 'a'\n"},
     "targets": ["m.py", "d.py"], "sccs": [["d"], ["m"]],
     "quick_configs": [("fs", "seq"), ("sqlite", "par")]},
    {"name": "body-only-edit",
     "v1": {"m.py": "def f() -> int:\n    return 1\n", "u.py": "from m import f\ny: int = f()\n"},
     "v2": {"m.py": "def f() -> int:\n    return 'a'\n"},
     "targets": ["u.py", "m.py"], "sccs": [["m"], ["u"]]},
    {"name": "cycle-edit",
     "v1": {"a.py": "import b\ndef fa() -> int:\n    return b.fb()\n", "b.py": "import a\ndef fb() -> int:\n    return 1\nz: int = a.fa()\n"},
     "v2": {"a.py": "import b\ndef fa() -> str:\n    return b.fb()\n"},
     "targets": ["a.py", "b.py"], "sccs": [["a", "b"]]},
    {"name": "one-error-disappears", "v1": {"m.py": 'x: int = "a"\n'}, "v2": {"m.py": "x: int = 1\n"},
     "targets": ["m.py"], "sccs": [["m"]]},
    {"name": "chain-middle-edit",
     "v1": {"p.py": "def g() -> int:\n    return 1\n", "q.py": "from p import g\ndef h() -> int:\n    return g()\n",
            "r.py": "from q import h\nw: int = h()\n"},
     "v2": {"q.py": "from p import g\ndef h() -> str:\n    return g()\n"},
     "targets": ["r.py", "q.py", "p.py"], "sccs": [["p"], ["q"], ["r"]]},
]
# a history may continue after the faulty run: "post" = further edits, each followed by a complete run
# (every run after the fault is compared with a cold run on the files it sees)
HISTORIES.append(
    {"name": "revert-after-crash",
     "v1": {"d.py": "def f() -> int:\n    return 1\n", "m.py": "from d import f\nx: int = f()\n"},
     "v2": {"d.py": "def f() -> str:\n    return 'a'\n"},
     "post": [{"d.py": "def f() -> int:\n    return 1\n"}, {"m.py": "from d import f\nx: int = f()\ny: int = f()\n"}],
     "skip_warm": True,   # no run on the files of the faulty run: the next run already sees the reverted file
     "targets": ["m.py", "d.py"], "sccs": [["d"], ["m"]], "quick_configs": [("fs", "seq")]})
HISTORIES.append(
    {"name": "dependent-edited-later",   # the data file left by the faulty run is loaded for a dependant two runs later
     "v1": {"d.py": "def f() -> int:\n    return 1\n", "m.py": "from d import f\nx: int = f()\n"},
     "v2": {"d.py": "def f() -> str:\n    return 'a'\n"},
     "post": [{"m.py": "from d import f\nx: int = f()\ny: str = f()\n"}],
     "targets": ["m.py", "d.py"], "sccs": [["d"], ["m"]]})
HISTORIES.append(
    {"name": "touch-and-edit",   # d gets a new mtime but the same content: validate_meta rewrites its meta while loading
     "v1": {"d.py": "def f() -> int:\n    return 1\n", "m.py": "from d import f\nx: int = f()\n"},
     "v2": {"d.py": "def f() -> int:\n    return 1\n", "m.py": "from d import f\nx: str = f()\n"},
     "targets": ["m.py", "d.py"], "sccs": [["d"], ["m"]], "quick_configs": [("sqlite", "seq"), ("fs", "par")]})
_PLUG = "from mypy.plugin import Plugin\nRET = \"builtins.%s\"\nclass P(Plugin):\n    def get_function_hook(self, fullname):\n        if fullname == \"m.f\":\n            return hook\n        return None\ndef hook(ctx):\n    return ctx.api.named_generic_type(RET, [])\ndef plugin(version):\n    return P\n"
HISTORIES.append(
    {"name": "plugin-edit",   # a LOCAL PLUGIN is edited (not a module): @plugins_snapshot.json is what vouches for the entries
     "v1": {"mypy.ini": "[mypy]\nplugins = plug.py\n", "plug.py": _PLUG % "int", "m.py": "def f() -> object: ...\nx: int = f()\n"},
     "v2": {"plug.py": _PLUG % "str"},
     "targets": ["m.py"], "sccs": [["m"]], "plugin": True, "quick_configs": [("fs", "seq"), ("sqlite", "par")]})
HISTORIES.append(
    {"name": "plugin-edit-revert",   # ... and reverted after the faulty run (thorough only: exposes F2d)
     "v1": {"mypy.ini": "[mypy]\nplugins = plug.py\n", "plug.py": _PLUG % "int", "m.py": "def f() -> object: ...\nx: int = f()\n"},
     "v2": {"plug.py": _PLUG % "str"}, "post": [{"plug.py": _PLUG % "int"}], "skip_warm": True,
     "targets": ["m.py"], "sccs": [["m"]], "plugin": True})
QUICK_HISTORIES = ["plugin-edit", "touch-and-edit", "revert-after-crash", "one-error-changes", "dep-interface-changes"]

CONFIGS = [("fs", "seq"), ("fs", "par"), ("sqlite", "seq"), ("sqlite", "par")]


def flags(store: str, mode: str) -> list[str]:
    fl = ["--cache-dir", ".c", "--no-error-summary", "--no-color-output", "--hide-error-context",
          "--sqlite-cache" if store == "sqlite" else "--no-sqlite-cache"]
    if mode == "par":
        fl += ["-n", "2"]
    return fl


def run_mypy(cwd: str, store: str, mode: str, targets: list[str], spec: dict | None = None,
             timeout: float = 180) -> tuple[int, str]:
    env = vlib.py_env({"PYTHONPATH": SHIM + os.pathsep + vlib.REPO})
    env.pop("MYPY_CACHE_DIR", None)
    env.pop("C04_SPEC", None)
    if spec is not None:
        env["C04_SPEC"] = json.dumps(spec)
    cmd = [vlib.PY, DRIVER] + flags(store, mode) + targets
    p = subprocess.Popen(cmd, cwd=cwd, env=env, stdout=subprocess.PIPE, stderr=subprocess.STDOUT,
                         text=True, errors="replace", start_new_session=True)
    try:
        out, _ = p.communicate(timeout=timeout)
        st = p.returncode
    except subprocess.TimeoutExpired:
        try:
            os.killpg(p.pid, 9)
        except OSError:
            pass
        out, _ = p.communicate()
        st = 124
        out = (out or "") + "\n[timeout]"
    # a killed coordinator may leave workers behind: they exit on EOF of the connection; make sure
    try:
        os.killpg(p.pid, 9)
    except OSError:
        pass
    return st, out


def canon(st: int, out: str) -> dict[str, Any]:
    lines = sorted(l for l in out.splitlines() if l.strip())
    return {"status": st, "lines": lines}


def write_files(d: str, files: dict[str, str], mtime: int) -> None:
    for name, text in files.items():
        p = os.path.join(d, name)
        with open(p, "w") as f:
            f.write(text)
        os.utime(p, (mtime, mtime))


def copy_state(src: str, dst: str) -> None:
    shutil.copytree(src, dst, symlinks=True)


# ------------------------------------------------------------------ traces

class Trace(list):
    """Completed operations; .uncertain = some operation was begun but has no completion record (its process was
    killed from outside in between: it may or may not have taken effect)."""
    uncertain: bool = False


def read_trace(path: str) -> "Trace":
    evs = Trace()
    if not os.path.exists(path):
        return evs
    begun: dict[tuple, int] = {}
    with open(path) as f:
        for line in f:
            line = line.strip()
            if not line:
                continue
            try:
                e = json.loads(line)
            except ValueError:      # a line cut by the kill
                evs.uncertain = True
                continue
            key = (e.get("pid"), e.get("kind"), e.get("name"), e.get("occ"))
            if e.get("begin"):
                begun[key] = begun.get(key, 0) + 1
            else:
                begun[key] = begun.get(key, 0) - 1
                evs.append(e)
    if any(v > 0 for v in begun.values()):
        evs.uncertain = True
    return evs


def per_process(evs: list[dict[str, Any]]) -> dict[tuple[str, int], list[dict[str, Any]]]:
    procs: dict[tuple[str, int], list[dict[str, Any]]] = {}
    for e in evs:
        procs.setdefault((e["role"], e["w"]), []).append(e)
    return procs


NAME_RE = re.compile(r"^(?P<mod>.+?)\.(?P<rec>data|meta|meta_ex)\.(ff|json)$")


def op_ok(e: dict[str, Any]) -> bool:
    """Did the completed operation take effect (a remove of a missing entry counts: the entry is absent)."""
    if "effect" in e:
        return bool(e["effect"])
    return bool(e.get("ok", True)) or e.get("raised") == "FileNotFoundError"


def norm_op(e: dict[str, Any]) -> str:
    """Store operation -> model step name, e.g. 'WMeta m' / 'CommitM m' / 'CommitAll'."""
    k, name = e["kind"], e["name"]
    if k == "commit":
        return "CommitAll"
    m = NAME_RE.match(name)
    if not m:
        return f"{k} {name}"
    mod = m.group("mod").replace(os.sep, ".")
    if mod.endswith(".__init__"):
        mod = mod[: -len(".__init__")]
    rec = m.group("rec")
    if k == "write":
        return {"data": "WData", "meta": "WMeta", "meta_ex": "WEx"}[rec] + " " + mod
    if k == "remove":
        return {"data": "RmData", "meta": "RmMeta", "meta_ex": "RmEx"}[rec] + " " + mod
    if k == "commit_path":
        return "CommitM " + mod
    return f"{k} {name}"


# ------------------------------------------------------------------ the F2 window classifier

def f2_window(case: dict[str, Any], evs: list[dict[str, Any]]) -> str | None:
    """Is the cache left by the faulty run inside the known window "new meta durable, meta_ex of the
    same module not (re)written and not invalidated"?

    Decided from the fault and from the trace of COMPLETED store operations of the faulty run
    (all processes; when a worker dies the coordinator aborts and the other workers stop wherever
    they are), never from the outcome of the warm run."""
    store = case["store"]
    for _pk, ops in per_process(evs).items():
        pending: list[tuple[str, str]] = []
        durable: list[tuple[str, str]] = []
        for e in ops:
            if e["kind"] in ("write", "remove") and not op_ok(e):
                continue
            kind, _, mod = norm_op(e).partition(" ")
            if store == "fs":
                durable.append((kind, mod))
            elif kind == "CommitAll":
                durable += pending
                pending = []
            elif kind == "CommitM":
                # one shard holds all records of a module (same stem); other modules may share it
                durable += [x for x in pending if x[1] == mod]
                pending = [x for x in pending if x[1] != mod]
            else:
                pending.append((kind, mod))
        mods: dict[str, list[str]] = {}
        for kind, mod in durable:
            mods.setdefault(mod, []).append(kind)
        for mod, kinds in mods.items():
            if "WMeta" in kinds:
                i = len(kinds) - 1 - kinds[::-1].index("WMeta")
                if "WEx" not in kinds[i:] and "RmEx" not in kinds[:i]:
                    return "crash-between-meta-and-meta_ex" if case["fault"] == "crash" else "meta_ex-write-fails"
    return None


# ------------------------------------------------------------------ one (history, config)

class Setup:
    def __init__(self, hist: dict[str, Any], store: str, mode: str, root: str, base: str):
        self.hist, self.store, self.mode = hist, store, mode
        self.dir = os.path.join(root, f"{hist['name']}-{store}-{mode}")
        os.makedirs(self.dir)
        self.base = base
        self.pre = os.path.join(self.dir, "pre")
        self.cold: dict[str, Any] = {}
        self.cold_v1: dict[str, Any] = {}
        self.ref_ops: list[dict[str, Any]] = []
        self.ref_out: dict[str, Any] = {}
        self.problems: list[str] = []

    def prepare(self) -> None:
        h = self.hist
        # run 1 on v1
        copy_state(self.base, self.pre)
        write_files(self.pre, h["v1"], T1)
        st, out = run_mypy(self.pre, self.store, self.mode, h["targets"])
        self.cold_v1 = canon(st, out)
        if st not in (0, 1):
            self.problems.append(f"run 1 failed: {st} {out[-400:]}")
        # the edit
        write_files(self.pre, h["v2"], T2)
        # cold result on v2 (cache holds the standard library only)
        cold = os.path.join(self.dir, "cold")
        copy_state(self.base, cold)
        write_files(cold, h["v1"], T1)
        write_files(cold, h["v2"], T2)
        st, out = run_mypy(cold, self.store, self.mode, h["targets"])
        self.cold = canon(st, out)
        if st not in (0, 1):
            self.problems.append(f"cold run failed: {st} {out[-400:]}")
        self.colds = [self.cold]
        for k, edit in enumerate(h.get("post", [])):
            write_files(cold, edit, T2 + 1000 * (k + 1))
            shutil.rmtree(os.path.join(cold, ".c"))
            shutil.copytree(os.path.join(self.base, ".c"), os.path.join(cold, ".c"))
            st, out = run_mypy(cold, self.store, self.mode, h["targets"])
            self.colds.append(canon(st, out))
        shutil.rmtree(cold, ignore_errors=True)
        # reference: fault-free run 2 (traced), then warm run 3
        ref = os.path.join(self.dir, "ref")
        copy_state(self.pre, ref)
        tr = os.path.join(self.dir, "ref.trace")
        st, out = run_mypy(ref, self.store, self.mode, h["targets"], {"trace": tr})
        r2 = canon(st, out)
        self.ref_ops = read_trace(tr)
        st, out = run_mypy(ref, self.store, self.mode, h["targets"])
        self.ref_out = canon(st, out)
        if r2 != self.cold:
            self.problems.append(f"fault-free run after the edit differs from cold: {r2} vs {self.cold}")
        if self.ref_out != self.cold:
            self.problems.append(f"fault-free warm run differs from cold: {self.ref_out} vs {self.cold}")
        shutil.rmtree(ref, ignore_errors=True)

    def cases(self, pairs: bool, both_scopes: bool, seed: int = 0) -> list[dict[str, Any]]:
        """Deterministic per (history, configuration, seed): positions are identified by (process role, op kind,
        entry name, occurrence) -- unnamed commits by the last named op before them -- never by a global index
        or a worker number."""
        out: list[dict[str, Any]] = []
        procs = per_process(self.ref_ops)
        common = {"history": self.hist["name"], "store": self.store, "mode": self.mode}
        k = seed
        seen: set[tuple] = set()
        user = {m for scc in self.hist["sccs"] for m in scc}

        def of_interest(e: dict[str, Any]) -> bool:
            """Plugin histories re-check the whole standard library: only positions at the user modules, the
            build-level records (@plugins_snapshot.json, ...) and the commits right after them are enumerated."""
            if not self.hist.get("plugin"):
                return True
            nm = e["name"] if e["name"] else e.get("anchor", "").split(":", 2)[1] if e.get("anchor") else ""
            if nm.startswith("@"):
                return True
            mm = NAME_RE.match(nm)
            return bool(mm and mm.group("mod") in user)

        for (role, w), ops in sorted(procs.items()):
            for i, e in enumerate(ops):
                if not of_interest(e):
                    continue
                whens = ["before"] + (["after"] if i == len(ops) - 1 else [])
                for when in whens:
                    ident = (role, e["kind"], e["name"], e.get("anchor", ""), e["occ"], when)
                    if ident in seen:      # two workers at the same position of the same protocol point
                        continue
                    seen.add(ident)
                    scopes = ["group"]
                    if role == "worker":
                        scopes = ["group", "process"] if both_scopes else [["group", "process"][k % 2]]
                    k += 1
                    for scope in scopes:
                        out.append(dict(common, fault="crash", pos=[role, i if when == "before" else i + 1, len(ops)],
                                        crash={"role": role, "kind": e["kind"], "name": e["name"], "occ": e["occ"],
                                               "anchor": e.get("anchor", ""), "when": when, "scope": scope}))
        writes = [[e["role"], e["kind"], e["name"], e["occ"]] for e in self.ref_ops
                  if e["kind"] in ("write", "remove") and of_interest(e)]
        for wv in writes:
            out.append(dict(common, fault="fail", fail=[wv]))
        if self.hist.get("subsets"):
            # the store operations on ONE module: quick = every pair, thorough = every subset (2^n - 1)
            mod_ops = [wv for wv in writes if NAME_RE.match(wv[2])]
            top = len(mod_ops) if pairs else 2
            for kk in range(2, top + 1):
                for sub in itertools.combinations(mod_ops, kk):
                    out.append(dict(common, fault="fail", fail=list(sub)))
        elif pairs:
            allp = list(itertools.combinations(writes, 2))
            same = [(a, b) for a, b in allp if NAME_RE.match(a[2]) and NAME_RE.match(b[2])
                    and NAME_RE.match(a[2]).group("mod") == NAME_RE.match(b[2]).group("mod")]
            cross = [pr for pr in allp if pr not in same]
            rng = vlib.Rng(seed, f"pairs/{self.hist['name']}/{self.store}/{self.mode}")
            if len(cross) > 12:     # every same-module pair; a seeded sample of the cross-module ones
                cross = rng.sample(cross, 12)
            for a, b in same + cross:
                out.append(dict(common, fault="fail", fail=[a, b]))
        return out

    def run_case(self, idx: int, case: dict[str, Any]) -> dict[str, Any]:
        d = os.path.join(self.dir, f"case{idx}")
        copy_state(self.pre, d)
        spec: dict[str, Any] = {"trace": os.path.join(self.dir, f"case{idx}.trace")}
        if case["fault"] == "crash":
            spec["crash"] = case["crash"]
        else:
            spec["fail"] = case["fail"]
        st2, out2 = run_mypy(d, self.store, self.mode, self.hist["targets"], spec)
        tr = read_trace(spec["trace"])
        later = []
        warm_trace: list[dict[str, Any]] | None = None
        for k, edit in enumerate([{}] + self.hist.get("post", [])):
            write_files(d, edit, T2 + 1000 * k)
            if k == 0 and self.hist.get("skip_warm"):
                later.append(self.colds[0])
                continue
            wspec = None
            if k == 0:
                wspec = {"trace": os.path.join(self.dir, f"case{idx}.warm.trace")}
            st3, out3 = run_mypy(d, self.store, self.mode, self.hist["targets"], wspec)
            later.append(canon(st3, out3))
            if wspec is not None:
                warm_trace = read_trace(wspec["trace"])
                try:
                    os.remove(wspec["trace"])
                except OSError:
                    pass
        res = {"case": case, "warm_trace": warm_trace, "run2": {"status": st2, "tail": out2[-300:]}, "warm": later[0], "later": later,
               "trace": tr, "injected": (st2 in (70, -9, 137, 2) if case["fault"] == "crash"
                                         else any(e.get("injected") for e in tr))}
        if not res["injected"] and not case.get("_retried"):
            # e.g. the second of two failing writes is never attempted because the first one made the code bail,
            # or a position was not reached under this run's worker schedule: try once more, then count
            shutil.rmtree(d, ignore_errors=True)
            try:
                os.remove(spec["trace"])
            except OSError:
                pass
            r2 = self.run_case(idx, dict(case, _retried=True))
            r2["case"] = case
            return r2
        shutil.rmtree(d, ignore_errors=True)
        try:
            os.remove(spec["trace"])
        except OSError:
            pass
        return res


def make_base(root: str, store: str, mode: str) -> str:
    d = os.path.join(root, f"base-{store}-{mode}")
    os.makedirs(d)
    write_files(d, {"zz_base.py": "import typing\n"}, T1)
    st, out = run_mypy(d, store, mode, ["zz_base.py"])
    if st != 0:
        raise RuntimeError(f"cannot pre-warm the standard-library cache ({store},{mode}): {st} {out[-500:]}")
    os.remove(os.path.join(d, "zz_base.py"))
    return d


# ------------------------------------------------------------------ model side: generated sequences

MODEL_HEADER = """From Coq Require Import List Bool Arith.
From C04 Require Import Model.
From Gen Require Import CacheProtocol.
Import ListNotations.
"""

STEP_RE = re.compile(r"(SRmMeta|SRmEx|SData|SMeta|SEx|SCommitM|STouchMeta) (\d+)|SCommitAll")
STEP_NAME = {"SRmMeta": "RmMeta", "SRmEx": "RmEx", "SData": "WData", "SMeta": "WMeta", "SEx": "WEx", "SCommitM": "CommitM",
             "STouchMeta": "WMeta"}


def parse_steps(txt: str, names: list[str]) -> list[str]:
    out = []
    for m in STEP_RE.finditer(txt):
        if m.group(0) == "SCommitAll":
            out.append("CommitAll")
        else:
            out.append(f"{STEP_NAME[m.group(1)]} {names[int(m.group(2))]}")
    return out


def module_ops(ops: list[dict[str, Any]]) -> list[str]:
    """Completed operations on module records and commits (other entries, e.g. @plugins_snapshot.json, dropped)."""
    out = []
    for e in ops:
        o = norm_op(e)
        if o.split(" ")[0] in ("WData", "WMeta", "WEx", "RmMeta", "RmEx", "RmData", "CommitM", "CommitAll"):
            out.append(o)
    return out


def without_touch(ops: list[dict[str, Any]]) -> tuple[list[str], list[dict[str, Any]]]:
    """(modules whose meta validate_meta rewrote while loading, the remaining operations)."""
    touch: list[str] = []
    rest: list[dict[str, Any]] = []
    seen: set[str] = set()
    for e in ops:
        kind, _, mod = norm_op(e).partition(" ")
        if kind == "WMeta" and mod not in seen:
            touch.append(mod)
            continue
        if kind in ("WData", "WEx", "RmMeta", "RmEx", "CommitM", "WMeta"):
            seen.add(mod)
        rest.append(e)
    return touch, rest


def infer_shape(s: Setup) -> tuple[str, list[str], dict[tuple[str, int], Any]] | None:
    """SCC / batch structure of the traced fault-free run, per process, from the known SCC partition of the
    history and the order of first appearance in the trace.  Returns (coq shape expr per process ...)."""
    names = sorted({m for scc in s.hist["sccs"] for m in scc})
    scc_of = {m: tuple(scc) for scc in s.hist["sccs"] for m in scc}
    procs = per_process(s.ref_ops)
    shapes: dict[tuple[str, int], Any] = {}
    for pk, ops in procs.items():
        mops = module_ops(without_touch(ops)[1])
        if pk[0] == "coord" and s.mode == "par":
            continue
        if s.mode == "seq":
            order: list[list[str]] = []
            for o in mops:
                parts = o.split(" ")
                if len(parts) == 2:
                    m = parts[1]
                    if m not in scc_of:
                        return None
                    if not any(m in scc for scc in order):
                        if order and set(order[-1]) < set(scc_of[m]) and m in scc_of[order[-1][0]]:
                            order[-1].append(m)
                        else:
                            order.append([m])
            shapes[pk] = order
        else:
            batches: list[list[list[str]]] = []
            cur: list[list[str]] = []
            phase = "iface"
            for o in mops:
                parts = o.split(" ")
                if len(parts) != 2:
                    continue
                kind, m = parts
                if m not in scc_of:
                    return None
                seen_in_cur = any(m in scc for scc in cur)
                if kind == "WEx" or (phase == "impl" and seen_in_cur):
                    phase = "impl"
                    continue
                if phase == "impl":
                    batches.append(cur)
                    cur = []
                    phase = "iface"
                if not seen_in_cur:
                    if cur and m in scc_of[cur[-1][0]] and m not in cur[-1]:
                        cur[-1].append(m)
                    else:
                        cur.append([m])
            if cur:
                batches.append(cur)
            shapes[pk] = batches
    return ("ok", names, shapes)


def coq_nat_list(xs: Any, names: list[str]) -> str:
    if isinstance(xs, str):
        return str(names.index(xs))
    return "[" + "; ".join(coq_nat_list(x, names) for x in xs) + "]"


def split_touch(ops: list[dict[str, Any]]) -> list[tuple[str, str, bool]]:
    """Completed module operations of ONE process as (model step constructor, module, took effect); a meta write
    of a module that the process has not touched before is validate_meta's rewrite (STouchMeta)."""
    out: list[tuple[str, str, bool]] = []
    seen: set[str] = set()
    for e in ops:
        o = norm_op(e)
        kind, _, mod = o.partition(" ")
        if kind == "CommitAll":
            out.append(("SCommitAll", "", True))
            continue
        if kind not in ("WData", "WMeta", "WEx", "RmMeta", "RmEx", "CommitM"):
            continue
        if kind == "WMeta" and mod not in seen:
            out.append(("STouchMeta", mod, op_ok(e)))
            continue          # a touched module stays "unseen": it may still be processed later in the run
        seen.add(mod)
        ctor = {"WData": "SData", "WMeta": "SMeta", "WEx": "SEx", "RmMeta": "SRmMeta", "RmEx": "SRmEx", "CommitM": "SCommitM"}[kind]
        out.append((ctor, mod, op_ok(e)))
    return out


def processed_modules(evs: list[dict[str, Any]]) -> set[str]:
    mods: set[str] = set()
    for _pk, ops in per_process(evs).items():
        for ctor, mod, _ok in split_touch(ops):
            if ctor in ("SData", "SMeta", "SEx", "SRmMeta", "SRmEx"):
                mods.add(mod)
    return mods


def real_shard(store: str, mod: str) -> int:
    if store != "sqlite":
        return 0
    sys.path.insert(0, vlib.REPO)
    try:
        from mypy.util import hash_path_stem
        from mypy.defaults import SQLITE_NUM_SHARDS
        return int(hash_path_stem(mod.replace(".", os.sep) + ".meta.ff")) % int(SQLITE_NUM_SHARDS)
    finally:
        sys.path.pop(0)


def outcome_correspondence(ctx: vlib.Ctx, setups: list[Setup]) -> None:
    """C(2): for every fault case, the model (exec_step / durability / `trusted`, run on the store operations the
    faulty run really completed) predicts which modules' cache entries the next run trusts; the real next run
    must recheck exactly the SCCs that contain an untrusted module (observed from outside: a rechecked module
    gets store writes, a module loaded from the cache gets none)."""
    exprs: list[str] = []
    meta: list[tuple[Setup, dict[str, Any], str]] = []
    r1 = ("{| rd := Some {| d_if := 1; d_stamp := 1 |}; rm := Some {| m_of := 1; m_if := 1; m_stamp := 1 |}; "
          "rx := Some {| x_of := 1 |} |}")
    for s in setups:
        if s.problems or s.hist.get("skip_warm") or s.hist.get("plugin"):
            continue
        names = sorted({m for scc in s.hist["sccs"] for m in scc})
        ref_processed = processed_modules(s.ref_ops)
        ref_written = {norm_op(e).split(" ")[1] for e in s.ref_ops if norm_op(e).startswith("WData ")}
        shard = {m: real_shard(s.store, m) for m in names}
        for r in getattr(s, "results", []):
            if r.get("warm_trace") is None:
                continue
            if getattr(r["trace"], "uncertain", False) and not (r["case"]["fault"] == "crash" and r["case"]["crash"]["when"] == "after"):
                # a process was killed from outside INSIDE a store operation: whether it took effect is unknown
                ctx.add("outcome_cases_skipped_op_in_flight", 1)
                continue
            procs = per_process(r["trace"])
            for x in names:
                steps: list[tuple[str, str, bool]] = []
                for _pk, ops in procs.items():
                    st = split_touch(ops)
                    if any(mod == x and ctor != "SCommitM" for ctor, mod, _ in st):
                        steps = st
                        break
                coq_steps = "[" + "; ".join(c if c == "SCommitAll" else f"{c} {names.index(mod)}" for c, mod, _ in steps
                                            if c == "SCommitAll" or mod in names) + "]"
                fls = "[" + "; ".join("false" if ok else "true" for c, mod, ok in steps if c == "SCommitAll" or mod in names) + "]"
                ci = 2 if x in ref_processed else 1
                if2 = 2 if x in ref_written else 1
                shard_fn = "(fun m => nth m [" + "; ".join(str(shard[n]) for n in names) + "] 0)"
                k = "SQL" if s.store == "sqlite" else "FS"
                exprs.append(
                    f"match trusted {ci} (run_proc (fun i => match i with 2 => {if2} | _ => 1 end) current_protocol {k} {shard_fn} "
                    f"{names.index(x)} {ci} (fun i => nth i {fls} false) (fun i => 100 + i) 1000 {coq_steps} {r1}) "
                    f"with Some _ => true | None => false end")
                meta.append((s, r, x))
    if not exprs:
        return
    res = ctx.eval_cases("outcome", MODEL_HEADER, exprs)
    if res is None:
        return
    pred: dict[int, dict[str, bool]] = {}
    keep: dict[int, tuple[Setup, dict[str, Any]]] = {}
    for (s, r, x), v in zip(meta, res):
        pred.setdefault(id(r), {})[x] = (v == "true")
        keep[id(r)] = (s, r)
    n_ok = n_untrusted = 0
    extra: list[dict[str, Any]] = []
    for rid, (s, r) in keep.items():
        p = pred[rid]
        expect = set()
        for scc in s.hist["sccs"]:
            if any(not p[m] for m in scc):
                expect |= set(scc)
        real = processed_modules(r["warm_trace"]) & set(p)
        ctx.add("evaluations", 1)
        if expect:
            n_untrusted += 1
        if expect == real:
            n_ok += 1
            ctx.add("traces_validated_against_impl", 1)
        elif expect <= real:
            # the real run rechecked MORE than the entries the model calls untrusted: harmless for the property (nothing
            # stale is trusted) and possibly caused by freshness rules outside this model (C02): counted, and an
            # alarm only when systematic (see below)
            extra.append({"case": r["case"], "predicted_trusted": p, "real_rechecked": sorted(real),
                          "completed_ops": [[e["role"], e["w"], norm_op(e), op_ok(e)] for e in r["trace"]]})
        else:
            ctx.broke("C", "outcome", f"after {describe(r['case'])}: the model predicts the next run must recheck {sorted(expect)} "
                      f"(trusted: {p}) but the real next run rechecked only {sorted(real)}: an entry the model calls "
                      f"untrusted was loaded from the cache",
                      {"case": r["case"], "predicted_trusted": p, "real_rechecked": sorted(real),
                       "completed_ops": [[e["role"], e["w"], norm_op(e), op_ok(e)] for e in r["trace"]]})
    ctx.cov["outcome_cases_real_rechecked_more"] = len(extra)
    if len(extra) > max(3, len(keep) * 15 // 100):
        ctx.broke("C", "outcome", f"{len(extra)} of {len(keep)} cases: the real next run rechecks modules whose entries the model "
                  f"calls trusted", extra[:3])
    ctx.cov["outcome_cases_with_untrusted_module"] = n_untrusted
    ctx.log(f"C(2): {n_ok}/{len(keep)} fault cases: modules rechecked by the real next run = modules the model predicts untrusted "
            f"({n_untrusted} cases with at least one untrusted module; {len(extra)} cases where the real run rechecked more)")


def trace_correspondence(ctx: vlib.Ctx, setups: list[Setup]) -> None:
    """C(1): the real store-operation sequence of every process of the traced fault-free run equals the
    sequence the generated model emits for the same SCC / batch structure (data writes the real run
    skipped because the interface did not change are skipped on the model side too)."""
    exprs: list[str] = []
    meta: list[tuple[Setup, tuple[str, int], list[str], list[str]]] = []
    for s in setups:
        if s.problems or not s.ref_ops or s.hist.get("plugin"):
            continue
        inf = infer_shape(s)
        if inf is None:
            ctx.broke("C", "trace", f"{s.hist['name']}/{s.store}/{s.mode}: operation on an unknown module in the trace")
            continue
        _, names, shapes = inf
        procs = per_process(s.ref_ops)
        for pk, shape in shapes.items():
            real = module_ops(procs[pk])
            touch = without_touch(procs[pk])[0]
            if any(t not in names for t in touch):
                ctx.broke("C", "trace", f"{s.hist['name']}/{s.store}/{s.mode}: meta of an unknown module rewritten: {touch}")
                continue
            if touch:
                ctx.add("traces_with_validate_meta_rewrite", 1)
                ctx.sample({"history": s.hist["name"], "store": s.store, "mode": s.mode, "process": list(pk),
                            "validate_meta_rewrites": touch, "trace": real})
            if s.mode == "seq":
                exprs.append(f"gen_load {coq_nat_list(touch, names)} ++ gen_seq current_protocol {coq_nat_list(shape, names)}")
            else:
                exprs.append(f"gen_worker current_protocol {coq_nat_list(shape, names)}")
            meta.append((s, pk, names, real))
        if s.mode == "par":
            for pk, ops in procs.items():
                if pk[0] == "coord":
                    cm = module_ops(without_touch(ops)[1])
                    if any(o != "CommitAll" for o in cm):
                        ctx.broke("C", "trace", f"{s.hist['name']}/{s.store}/{s.mode}: the coordinator wrote module records: {cm}")
    if not exprs:
        return
    res = ctx.eval_cases("trace", MODEL_HEADER, exprs)
    if res is None:
        return
    n_ok = 0
    for (s, pk, names, real), txt in zip(meta, res):
        model = parse_steps(txt, names)
        written = {o for o in real if o.startswith("WData ")}
        model_f = [o for o in model if not (o.startswith("WData ") and o not in written)]
        if model_f == real:
            n_ok += 1
            ctx.add("traces_validated_against_impl", 1)
        else:
            ctx.broke("C", "trace", f"{s.hist['name']}/{s.store}/{s.mode} process {pk}: real store operations {real} "
                                    f"but the generated model emits {model_f}", {"real": real, "model": model})
    ctx.log(f"C(1): {n_ok}/{len(meta)} per-process store-operation traces equal the generated model's sequence")
    if meta:
        s, pk, names, real = meta[0]
        ctx.sample({"history": s.hist["name"], "store": s.store, "mode": s.mode, "process": list(pk), "trace": real})


# ------------------------------------------------------------------ main

def search(ctx: vlib.Ctx, hist_names: list[str], configs: list[tuple[str, str]], pairs: bool,
           both_scopes: bool) -> list[Setup]:
    root = tempfile.mkdtemp(prefix="c04-")
    setups: list[Setup] = []
    try:
        t = time.time()
        with ThreadPoolExecutor(max_workers=4) as ex:
            bases = dict(zip(configs, ex.map(lambda c: make_base(root, *c), configs)))
        ctx.log(f"pre-warmed standard-library caches for {len(configs)} configurations ({time.time()-t:.1f}s)")
        hists = [h for h in HISTORIES if h["name"] in hist_names]
        setups = [Setup(h, s, m, root, bases[(s, m)]) for h in hists for (s, m) in configs
                  if not (ctx.quick and "quick_configs" in h and (s, m) not in h["quick_configs"])]
        t = time.time()
        with ThreadPoolExecutor(max_workers=vlib.NPROC) as ex:
            list(ex.map(lambda s: s.prepare(), setups))
        ctx.log(f"prepared {len(setups)} (history, store, mode) states ({time.time()-t:.1f}s)")
        jobs: list[tuple[Setup, int, dict[str, Any]]] = []
        for s in setups:
            for p in s.problems:
                # a fault-free disagreement is not C04's (that is C02) but it invalidates the oracle
                ctx.broke("S", f"setup {s.hist['name']}/{s.store}/{s.mode}", p)
            if s.problems:
                continue
            for i, c in enumerate(s.cases(pairs, both_scopes, ctx.seed)):
                jobs.append((s, i, c))
        t = time.time()
        ctx.log(f"{len(jobs)} fault cases enumerated")
        par_jobs = max(4, vlib.NPROC - 2)
        with ThreadPoolExecutor(max_workers=par_jobs) as ex:
            results = list(ex.map(lambda j: (j[0], j[0].run_case(j[1], j[2])), jobs))
        ctx.log(f"{len(jobs)} fault cases (faulty run + 1..3 later runs each) in {time.time()-t:.1f}s")
        judge(ctx, results)
        for s in setups:
            s.results = [r for (ss, r) in results if ss is s]  # type: ignore[attr-defined]
        return setups
    finally:
        shutil.rmtree(root, ignore_errors=True)


def judge(ctx: vlib.Ctx, results: list[tuple[Setup, dict[str, Any]]]) -> None:
    n_inj = 0
    dist: dict[str, int] = {}
    unreached: list[dict[str, Any]] = []
    for s, r in results:
        case = r["case"]
        ctx.add("evaluations", 2)
        dist[f"{case['store']}/{case['mode']}/{case['fault']}"] = dist.get(f"{case['store']}/{case['mode']}/{case['fault']}", 0) + 1
        if r["injected"]:
            n_inj += 1
        else:
            # not reached even on the retry: counted; the outcome of the (then fault-free or partly faulty) run is
            # still judged.  Legitimate causes: the 2nd write of a failing pair is never attempted once the 1st
            # failed; a position in a parallel build depends on the schedule.  Alarm only if this is systematic.
            ctx.add("faults_not_reached", 1)
            unreached.append(case)
        ctx.add("evaluations", len(r["later"]) - 1)
        bad = [k for k, (w, c) in enumerate(zip(r["later"], s.colds)) if w != c]
        r["ok"] = not bad
        if not bad:
            continue
        win = f2_window(case, r["trace"])
        if s.hist.get("plugin"):
            if s.hist.get("post"):
                key = f"F2d:{case['store']}-{case['mode']}:plugins-snapshot-not-invalidated-then-plugin-reverted"
            elif case["fault"] == "fail":
                # F2e: the cache write of a module was skipped (its first remove failed) but the run went on and wrote
                # the new plugins snapshot, which now vouches for the module's old entry
                key = f"F2e:{case['store']}-{case['mode']}:cache-write-skipped-but-new-plugins-snapshot-written"
            else:
                key = f"C04:{case['store']}-{case['mode']}:plugin-edit:killed-while-snapshot-vouches-for-entries-of-the-old-plugin"
            r = dict(r, warm=r["later"][bad[0]])
            s = _with_cold(s, s.colds[bad[0]])
        elif bad[0] >= 1 and meta_fail_window(case, r["trace"]):
            key = f"F2c:{case['store']}-{case['mode']}:meta-write-fails-meta_ex-written-then-revert"
            r = dict(r, warm=r["later"][bad[0]])
            s = _with_cold(s, s.colds[bad[0]])
        elif bad[0] >= 1 and data_window(case, r["trace"]):
            key = f"F2b:{case['store']}-{case['mode']}:stale-data-file-revalidated-after-revert"
            r = dict(r, warm=r["later"][bad[0]])
            s = _with_cold(s, s.colds[bad[0]])
        elif win is not None:
            key = f"F2:{case['store']}-{case['mode']}:{win}"
        else:
            fd = (f"crash-{case['crash']['when']}-{norm_op(case['crash'])}-in-{case['crash']['role']}" if case["fault"] == "crash"
                  else "fail-" + "+".join(norm_op({"kind": f[1], "name": f[2]}) for f in case["fail"]))
            key = f"C04:{case['store']}-{case['mode']}:{case['history']}:{fd}".replace(" ", "_")
        ctx.violation(key, f"after {describe(case)} a later complete run reports {r['warm']} but a cold run on the same files reports {s.cold}",
                      {"case": case, "history": s.hist, "warm": r["warm"], "cold": s.cold, "run2": r["run2"],
                       "completed_ops": [[e["role"], e["w"], norm_op(e), e.get("ok", True)] for e in r["trace"]]})
    single_unreached = [c for c in unreached if not (c["fault"] == "fail" and len(c["fail"]) > 1)]
    if len(single_unreached) > max(3, len(results) // 10):
        ctx.broke("C", "faults not injected", f"{len(single_unreached)} of {len(results)} single faults were never reached: "
                  + json.dumps(single_unreached[:3])[:600])
    ctx.cov["distinct_nontrivial"] = n_inj
    ctx.cov["fault_distribution"] = dist


class _with_cold:
    def __init__(self, s: Setup, cold: dict[str, Any]):
        self.hist, self.cold = s.hist, cold


def meta_fail_window(case: dict[str, Any], evs: list[dict[str, Any]]) -> bool:
    """The meta write of a module failed, its meta_ex write succeeded, and the old meta was not invalidated."""
    if case["fault"] != "fail":
        return False
    ops = [(norm_op(e), e.get("ok", True)) for e in evs]
    for o, ok in ops:
        if o.startswith("WMeta ") and not ok:
            mod = o.split(" ", 1)[1]
            if ("WEx " + mod, True) in ops and ("RmMeta " + mod, True) not in ops:
                return True
    return False


def data_window(case: dict[str, Any], evs: list[dict[str, Any]]) -> bool:
    """The faulty run left a REWRITTEN data file next to the old (not invalidated) meta + meta_ex."""
    store = case["store"]
    for _pk, ops in per_process(evs).items():
        pending: list[tuple[str, str]] = []
        durable: list[tuple[str, str]] = []
        for e in ops:
            if e["kind"] in ("write", "remove") and not op_ok(e):
                continue
            kind, _, mod = norm_op(e).partition(" ")
            if store == "fs":
                durable.append((kind, mod))
            elif kind == "CommitAll":
                durable += pending
                pending = []
            elif kind == "CommitM":
                durable += [x for x in pending if x[1] == mod]
                pending = [x for x in pending if x[1] != mod]
            else:
                pending.append((kind, mod))
        mods: dict[str, list[str]] = {}
        for kind, mod in durable:
            mods.setdefault(mod, []).append(kind)
        for mod, kinds in mods.items():
            if "WData" in kinds and "WMeta" not in kinds and "RmMeta" not in kinds and "RmEx" not in kinds:
                return True
    return False


def describe(case: dict[str, Any]) -> str:
    if case["fault"] == "crash":
        c = case["crash"]
        who = "the whole build" if c["scope"] == "group" else "the " + c["role"] + " process"
        return (f"history {case['history']} ({case['store']} store, {case['mode']}): {who} killed {c['when']} "
                f"`{norm_op(c)}` (op {case['pos'][1]}/{case['pos'][2]} of the {c['role']})")
    return (f"history {case['history']} ({case['store']} store, {case['mode']}): write(s) "
            + ", ".join(norm_op({"kind": f[1], "name": f[2]}) for f in case["fail"]) + " fail (write returns False / remove raises)")


F2F_KEY = "F2f:fs-seq:deps-meta-written-although-a-deps-file-write-failed"


def deps_scenario(ctx: vlib.Ctx, proto: dict[str, Any]) -> None:
    """Directed replay of the deps-cache witness (deps_cache_crash_safe_refuted) on the implementation, every tier:
    run 1 with --cache-fine-grained; edit m.py; run 2 with the write of d.deps.json (only) failing; then
    read_deps_cache's own acceptance checks applied to the real files."""
    import glob
    import hashlib
    root = tempfile.mkdtemp(prefix="c04-deps-")
    files1 = {"d.py": "def f() -> int:\n    return 1\n", "m.py": "from d import f\nx: int = f()\n"}
    files2 = {"m.py": "from d import f\nx: int = f()\ndef g() -> int:\n    return f()\n"}
    spec = {"trace": os.path.join(root, "t.jsonl"), "fail": [["coord", "write", "d.deps.json", 0]]}
    orig_flags = flags
    try:
        w = os.path.join(root, "w")
        os.makedirs(w)
        write_files(w, files1, T1)
        fl = lambda st, mo: orig_flags(st, mo) + ["--cache-fine-grained"]  # noqa: E731
        globals()["flags"] = fl
        st1, out1 = run_mypy(w, "fs", "seq", ["m.py", "d.py"])
        cdir = (glob.glob(os.path.join(w, ".c", "3.*")) or [""])[0]
        dfile = os.path.join(cdir, "d.deps.json")
        if st1 != 0 or not os.path.exists(dfile):
            ctx.broke("S", "deps scenario", f"run 1 with --cache-fine-grained failed: {st1} {out1[-300:]}")
            return
        old = open(dfile, "rb").read()
        write_files(w, files2, T2)
        st2, out2 = run_mypy(w, "fs", "seq", ["m.py", "d.py"], spec)
        tr = read_trace(spec["trace"])
        injected = any(e.get("injected") and e["name"] == "d.deps.json" for e in tr)
        meta_written = any(e["kind"] == "write" and e["name"] == "@deps.meta.json" and e.get("ok") for e in tr)
        meta = json.load(open(os.path.join(cdir, "@deps.meta.json")))
        sys.path.insert(0, vlib.REPO)
        try:
            from mypy.util import hash_digest
            new_hash = hash_digest(files2["m.py"].encode())
        except Exception:
            new_hash = hashlib.sha1(files2["m.py"].encode()).hexdigest()
        finally:
            sys.path.pop(0)
        unchanged = open(dfile, "rb").read() == old
        listed = meta.get("deps_meta", {}).get("d", {})
        # read_deps_cache's two acceptance checks on the real files
        snapshot_new = meta.get("snapshot", {}).get("m") == new_hash
        mtimes_match = all(os.path.exists(os.path.join(cdir, v["path"])) and int(os.path.getmtime(os.path.join(cdir, v["path"]))) == v["mtime"]
                           for v in meta.get("deps_meta", {}).values())
        lacks_new_dep = b"m.g" not in open(dfile, "rb").read()
        obs = {"run1_status": st1, "run2_status": st2, "failure_injected": injected, "deps_meta_written_in_run2": meta_written,
               "snapshot_has_new_hash_of_m": snapshot_new, "all_listed_mtimes_match_files": mtimes_match,
               "deps_meta_d": listed, "d_deps_json_unchanged": unchanged, "d_deps_json_lacks_m.g": lacks_new_dep}
        ctx.add("evaluations", 2)
        ctx.cov["deps_scenario"] = obs
        replay = {"kind": "deps_scenario", "files_run1": files1, "edit": files2, "flags": fl("fs", "seq"), "spec": spec["fail"], "observations": obs}
        accepted_stale = meta_written and snapshot_new and mtimes_match and unchanged and lacks_new_dep
        model_refuted = not (proto["deps"]["meta_last"] and proto["deps"]["meta_skipped_on_error"])
        if not injected:
            ctx.broke("S", "deps scenario", "the failure of the d.deps.json write was not injected: " + json.dumps(obs))
        elif model_refuted:
            if accepted_stale:
                ctx.violation(F2F_KEY, "write of d.deps.json fails, @deps.meta.json is written anyway with the new snapshot and the old, still "
                              "matching mtime of d.deps.json: read_deps_cache's checks accept the OLD deps of d (no dependency of m.g) "
                              "against the NEW metas", replay)
            else:
                ctx.broke("S", "deps scenario", "deps_cache_crash_safe_decided is refuted in the model but the directed replay does "
                          "not reproduce the witness on the implementation: " + json.dumps(obs), replay)
        else:
            if meta_written and snapshot_new and mtimes_match and unchanged:
                ctx.violation("F2f-regression:fs-seq:deps-meta-written-although-a-deps-file-write-failed",
                              "the generated protocol says the deps meta is skipped after a failed deps-file write, but the implementation "
                              "wrote an acceptable deps meta next to the old deps file", replay)
        ctx.log("S: deps-cache directed scenario:", json.dumps(obs))
    finally:
        globals()["flags"] = orig_flags
        shutil.rmtree(root, ignore_errors=True)


def run(ctx: vlib.Ctx) -> None:
    ctx.cov["rule"] = ("2-step histories (run, edit, faulty run) x every position between two store operations of every "
                       "process of the faulty run (kill of the process / of the whole process group) x every single "
                       "(thorough: and every pair of) store write(s) failing x {fs, sqlite} x {sequential, -n 2}; a case is "
                       "non-trivial when the fault was really injected (run killed with the injected status / a write reported failure)")
    ctx.assumptions += [
        "a killed process loses exactly its uncommitted sqlite transaction; os.replace is atomic (power loss / OS durability not covered)",
        "a failed store write is MetadataStore.write returning False without effect (the mode both stores map OSError / sqlite3.OperationalError to)",
        "mtime discipline: source files get explicit distinct mtimes; 'cold' = cache holding only the standard library",
    ]
    # ---- T
    from extractors import t04
    proto = None
    try:
        t04.generate()
        proto = t04.extract()
        ctx.cov["generated_protocol"] = proto
        ctx.log("T: generated protocol", json.dumps(proto))
    except Exception as e:  # fail-closed translator
        ctx.broke("T", "t04 (mypy/build.py, mypy/build_worker/worker.py -> gen/CacheProtocol.v)", repr(e))
    # ---- P + A
    proved = False
    safe = None
    snap_safe = None
    if proto is not None:
        proved = ctx.prove("C04/Properties.v", ["C04", "gen", "lib"])
        v = ctx.eval_cases("verdict", MODEL_HEADER, ["protocol_ok current_protocol"])
        if v is not None:
            safe = v[0] == "true"
            ctx.cov["current_protocol_passes_side_condition"] = safe
            ctx.log("P: the generated op order", "PASSES the side condition: crash_safe / write_is_optional apply to it" if safe
                    else "FAILS the side condition: current_protocol_decided proves it REFUTES crash_safe (finding F2)")
        ctx.prove("C04/PropertiesSnapshot.v", ["C04", "gen", "lib"])
        v2 = ctx.eval_cases("snapverdict", MODEL_HEADER + "From C04 Require Import Snapshot.\n", ["snapshot_ok current_snapshot_order"])
        if v2 is not None:
            snap_safe = v2[0] == "true"
            ctx.cov["current_snapshot_order_passes_side_condition"] = snap_safe
            ctx.log("P: build.dispatch order for @plugins_snapshot.json", proto["snapshot_order"],
                    "PASSES the side condition" if snap_safe else
                    "FAILS the side condition: current_snapshot_order_decided proves it refuted"
                    + (" (F2d: needs plugin edit + kill + plugin revert; enumerated in the thorough tier)"
                       if proto["snapshot_order"] == ["SnGraph", "SnWrite"] else ""))
        ctx.prove("C04/PropertiesDeps.v", ["C04", "gen", "lib"])
        ctx.cov["deps_cache_protocol"] = proto["deps"]
        ctx.log("P: build.write_deps_cache", proto["deps"],
                "passes the side condition: deps_cache_crash_safe applies" if proto["deps"]["meta_last"] and proto["deps"]["meta_skipped_on_error"]
                else "fails the side condition: deps_cache_crash_safe_decided proves it refuted (see notes/C04-findings.json; "
                     "replayed by the directed deps scenario)")
        deps_scenario(ctx, proto)
    # ---- C + S
    names = QUICK_HISTORIES if ctx.quick else [h["name"] for h in HISTORIES]
    setups = search(ctx, names, CONFIGS, pairs=not ctx.quick, both_scopes=not ctx.quick)
    if proto is not None:
        trace_correspondence(ctx, setups)
        outcome_correspondence(ctx, setups)
    if proved and safe is False and not ctx.violations:
        # the model refutes the property on the generated order, but no witness was reproduced on the implementation
        ctx.broke("P", "crash_safe for the generated op order",
                  "the generated op order fails the side condition and is refuted in the model, but the fault enumeration "
                  "did not reproduce a witness on the implementation")
    if (proved and snap_safe is False and proto is not None and proto["snapshot_order"] != ["SnGraph", "SnWrite"]
            and not any("plugin" in v.key for v in ctx.violations)):
        ctx.broke("P", "snapshot_safe for the generated dispatch order",
                  f"the order {proto['snapshot_order']} is refuted in the model but the fault enumeration (history plugin-edit) "
                  "did not reproduce a witness on the implementation")
    if safe and snap_safe is not False and ctx.violations:
        ctx.broke("C", "model vs implementation", "the generated op order is proved safe but the implementation violates the property")


def replay(ctx: vlib.Ctx, path: str) -> None:
    data = json.load(open(path))["replay"]
    if data.get("kind") == "deps_scenario":
        from extractors import t04
        deps_scenario(ctx, t04.extract())
        return
    case = data["case"]
    hist = data["history"]
    root = tempfile.mkdtemp(prefix="c04-replay-")
    try:
        base = make_base(root, case["store"], case["mode"])
        s = Setup(hist, case["store"], case["mode"], root, base)
        s.prepare()
        r = s.run_case(0, case)
        judge(ctx, [(s, r)])
        ctx.log("replayed:", describe(case), "->", "agrees with cold" if r.get("ok") else "DIFFERS from cold")
    finally:
        shutil.rmtree(root, ignore_errors=True)
