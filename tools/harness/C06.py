"""C06 — compiled code is memory safe: balanced reference counts, no undefined reads.

Translation validation.  Every run:
  P+A  build coq/C06 (IR semantics, checker, soundness proof) and audit it,
  C    regenerate, from VERIF_REPO, the FuncIR of every function the REAL mypyc pipeline
       (emitmodule.compile_modules_to_ir: uninit -> exceptions -> refcount -> ...) produces for the
       programs of mypyc/test-data/{refcount,exceptions,irbuild-*,run-*}.test and for generated
       programs, snapshotted right after insert_ref_count_opcodes; abstract every op FROM THE REAL OP
       OBJECT (dest, type.is_refcounted, is_borrowed, sources(), stolen(), error_kind, kind) and feed it
       to the validator extracted from Coq (check_func, proved sound in C06/Properties.v).
       The same dump is also judged by an independent Python re-implementation of the checker
       (self-correspondence of the extracted artefact and the line format).
  S    a function the real pipeline emits and the validator rejects = violation (function + reason +
       block/op index); dynamic monitor: compiled generated functions executed repeatedly on tracked
       objects, reference-count deltas and instance counts must be stable; a signal is a crash.

This file is also the child script that runs inside /venv/bin/python with PYTHONPATH=VERIF_REPO:
    python C06.py --dump <jobfile.json>
"""
from __future__ import annotations

import json
import os
import re
import shutil
import subprocess
import sys
import tempfile
import time
from typing import Any

# --------------------------------------------------------------------------------------------
# child: drive the real pipeline, dump abstracted IR
# --------------------------------------------------------------------------------------------

(K_OTHER, K_ASSIGN, K_ASSIGNLIT, K_ASSIGNMULTI, K_INC, K_DEC, K_LOADERR, K_UNBORROW, K_LOADADDR, K_KEEPALIVE,
 K_HEAPREF, K_ASSUME, K_RAWREAD) = range(13)


def parse_test_file(path: str) -> list[tuple[str, str, list[tuple[str, str]]]]:
    """[(case name, main program text, [(file name, text)])] of a mypyc .test file."""
    cases = []
    name = None
    sect = None  # ("main"|"file"|"skip", fname)
    main: list[str] = []
    files: list[tuple[str, list[str]]] = []
    with open(path, encoding="utf-8") as f:
        lines = f.read().split("\n")

    def flush() -> None:
        if name is not None:
            cases.append((name, "\n".join(main), [(fn, "\n".join(tx)) for fn, tx in files]))

    for ln in lines:
        m = re.match(r"^\[case ([^\]]+)\]\s*$", ln)
        if m:
            flush()
            name, sect, main, files = m.group(1), ("main", ""), [], []
            continue
        if name is None:
            continue
        m = re.match(r"^\[([a-zA-Z0-9_]+)( [^\]]*)?\]\s*$", ln)
        if m and not ln.startswith("[["):
            if m.group(1) == "file":
                files.append((m.group(2).strip(), []))
                sect = ("file", "")
            elif m.group(1) == "typing" and m.group(2):
                # [typing fixtures/typing-full.pyi]: the named stub becomes typing.pyi
                src = os.path.join(os.path.dirname(path), m.group(2).strip())
                try:
                    files.append(("typing.pyi", open(src, encoding="utf-8").read().split("\n")))
                except OSError:
                    pass
                sect = ("skip", "")
            else:
                sect = ("skip", "")
            continue
        if ln.startswith("--") and not ln.startswith("---"):
            continue
        if ln.startswith("\\["):
            ln = ln[1:]
        if sect[0] == "main":
            main.append(ln)
        elif sect[0] == "file":
            files[-1][1].append(ln)
    flush()
    return cases


class Dumper:
    def __init__(self, out, txt) -> None:
        self.out = out
        self.txt = txt
        self.nfuncs = 0
        self.n_steal = 0
        self.n_respill = 0
        self.n_classes = 0
        self.n_final = 0
        self.n_marker_lost = 0
        self.n_init_stores = 0
        self.init_effect = None
        self.n_class_claims = 0
        self.class_text: list[str] = []
        self.n_ext_regs = 0
        self.n_borrow_owner = 0
        self.n_borrow_static = 0
        self.n_borrow_unknown = 0
        self.n_assume = 0
        self.n_spill_reads = 0
        self.pending: list[Any] = []
        self.n_unnamed_undef = 0
        self.n_heapref = 0
        self.steal_before = {}
        self.preexisting = set()
        self.cp_map: dict[Any, Any] = {}

    def pre_pass(self, fn) -> None:
        """Record, BEFORE insert_ref_count_opcodes runs, what the pass consumes and erases:
        KeepAlive(steal=True) ops (the pass treats their operands as stolen, then strips the op) and
        IncRef/DecRef ops that irbuild itself emitted (heap-slot ownership, outside the pass)."""
        from mypyc.ir import ops as O
        self.steal_before: dict[Any, list[Any]] = {}
        self.preexisting: set[Any] = set()
        self.cp_map = {}
        for b in fn.blocks:
            pending: list[Any] = []
            for op in b.ops:
                if isinstance(op, O.KeepAlive):
                    if op.steal:
                        pending.append(op)
                    continue
                if isinstance(op, (O.IncRef, O.DecRef)):
                    self.preexisting.add(op)
                if pending:
                    self.steal_before.setdefault(op, []).extend(pending)
                    pending = []
            assert not pending

    def init_effects(self, bcl, depth: int):
        """(attrs init-stored, attrs stored at all, may self escape) of bcl.__init__, following direct super calls."""
        from mypyc.ir import ops as O
        inits: set[str] = set()
        stored: set[str] = set()
        leaks = bool(bcl.init_self_leak)
        try:
            callee = bcl.get_method("__init__")
        except Exception:
            callee = None
        if callee is None or not callee.arg_regs or depth > 8:
            return inits, stored, True if callee is not None else leaks
        cself = callee.arg_regs[0]
        for cb in callee.blocks:
            for cop in cb.ops:
                if isinstance(cop, O.SetAttr) and cop.obj is cself:
                    stored.add(cop.attr)
                    if cop.is_init and cop.class_type.attr_type(cop.attr).is_refcounted:
                        inits.add(cop.attr)
                elif isinstance(cop, O.Call) and cop.fn.class_name and cop.fn.name == "__init__" and cop.args \
                        and cop.args[0] is cself:
                    i2, s2, l2 = self.init_effects(cop.fn.sig.args[0].type.class_ir, depth + 1)
                    inits |= i2
                    stored |= s2
                    leaks = leaks or l2
        return inits, stored, leaks

    def owner_of(self, op, LIT, ext):
        """The value a borrowed refcounted result is borrowed from (None: static / unknown)."""
        from mypyc.ir import ops as O
        if isinstance(op, (O.LoadLiteral, O.LoadStatic, O.LoadGlobal, O.LoadAddress, O.Box, O.LoadErrorValue)):
            self.n_borrow_static += 1
            return None
        if isinstance(op, O.GetAttr):
            cand = [op.obj]
        elif isinstance(op, (O.TupleGet, O.Cast)):
            cand = [op.src]
        elif isinstance(op, (O.LoadMem, O.GetElement)):
            cand = list(op.sources())
        else:
            # borrowed result of a primitive / call: which operand (if any) keeps it alive is a property of
            # the C function, not of the IR
            self.n_borrow_unknown += 1
            return None
        # provenance: through non-refcounted intermediate ops (pointer arithmetic, struct fields) to the
        # first refcounted value
        seen = 0
        while cand and seen < 40:
            c = cand.pop(0)
            seen += 1
            if isinstance(c, LIT):
                continue
            if c in ext:
                break
            if c.type.is_refcounted:
                self.n_borrow_owner += 1
                return c
            if isinstance(c, O.Op):
                cand.extend(c.sources())
        self.n_borrow_unknown += 1
        return None

    def dump_func(self, tag: str, fn, final: bool = False) -> None:
        from mypyc.ir import ops as O
        from mypyc.ir.pprint import format_func
        from mypyc.ir.rtypes import RArray
        from mypyc.common import TEMP_ATTR_NAME
        LIT = (O.Integer, O.Float, O.CString, O.Undef)
        ids: dict[Any, int] = {}

        def vid(v) -> int:
            if v not in ids:
                ids[v] = len(ids) + 1
            return ids[v]

        buf: list[str] = []
        w = buf.append
        name = f"{tag}::{fn.decl.module_name}.{fn.decl.class_name + '.' if fn.decl.class_name else ''}{fn.name}"
        name = re.sub(r"\s+", "_", name) + ("@final" if final else "")
        w(f"F {name}\n")
        sig_args = list(fn.decl.sig.args)
        for i, a in enumerate(fn.arg_regs):
            opt = 1
            if i < len(sig_args) and sig_args[i].name == a.name:
                opt = 1 if sig_args[i].optional else 0
            w(f"A {vid(a)} {int(a.type.is_refcounted)} {opt}\n")
        labels = {b: i + 1 for i, b in enumerate(fn.blocks)}
        # ---- attribute slot tokens (SetAttr.is_init): one token per (object value, refcounted attribute)
        RAW = (O.ComparisonOp, O.GetElementPtr, O.LoadMem, O.IncRef, O.DecRef, O.KeepAlive, O.IntOp,
               O.Truncate, O.Extend, O.GetElement, O.LoadAddress)
        toks: dict[Any, int] = {}

        def tok(objv, attr: str) -> int:
            key = ("slot", objv, attr)
            if key not in toks:
                toks[key] = vid(key)
            return toks[key]
        self_reg = None
        if fn.decl.class_name and fn.name in ("__init__", "__mypyc_defaults_setup") and fn.arg_regs \
                and hasattr(fn.arg_regs[0].type, "class_ir"):
            self_reg = fn.arg_regs[0]
            cl0 = self_reg.type.class_ir
            unset0 = []
            for base in cl0.mro:
                for an, at in base.attributes.items():
                    if at.is_refcounted and ("slot", self_reg, an) not in toks:
                        t0 = tok(self_reg, an)
                        # fresh object: everything unset, except (in __init__) what the class body initialised
                        if fn.name != "__init__" or an not in cl0.attrs_with_defaults:
                            unset0.append(t0)
            if unset0:
                w(f"K {len(unset0)} " + " ".join(map(str, unset0)) + "\n")

        def slot_effects(op) -> tuple[list[int], list[int]]:
            """(tokens that must be unset, tokens possibly set afterwards) of a non-control op."""
            need: list[int] = []
            kill: list[int] = []
            plain_set = isinstance(op, O.SetAttr) and not op.is_propset
            if plain_set and op.class_type.attr_type(op.attr).is_refcounted:
                if op.is_init:
                    need.append(tok(op.obj, op.attr))
                    self.n_init_stores += 1
                else:
                    # a plain store sets the slot of THAT object; tokens exist only for the fresh self, which no
                    # other name can alias before it escapes (Assign from self / any leak kills all its tokens)
                    kill += [t for (_, _o, a), t in toks.items() if a == op.attr and _o is op.obj]
            if self_reg is not None and any(x is self_reg for x in op.sources()):
                escapes = True
                if isinstance(op, RAW):
                    escapes = False
                elif isinstance(op, O.GetAttr) and op.obj is self_reg and not op.class_type.class_ir.get_method(op.attr):
                    escapes = False
                elif plain_set and op.obj is self_reg and op.src is not self_reg:
                    escapes = False
                if escapes:
                    all_self = [t for (_, o_, _a), t in toks.items() if o_ is self_reg]
                    if isinstance(op, O.Call) and op.fn.class_name and op.fn.name == "__init__" and op.args \
                            and op.args[0] is self_reg and not any(x is self_reg for x in op.args[1:]):
                        # direct Base.__init__(self, ...): its initializing stores assume unset slots; if it does not
                        # let self escape it only touches the attributes it stores
                        inits, stored, leaks = self.init_effects(op.fn.sig.args[0].type.class_ir, 0)
                        for an in sorted(inits):
                            if ("slot", self_reg, an) in toks and toks[("slot", self_reg, an)] not in need:
                                need.append(toks[("slot", self_reg, an)])
                        if leaks:
                            kill += [t for t in all_self if t not in kill]
                        else:
                            kill += [t for (_, o_, a_), t in toks.items() if o_ is self_reg and a_ in stored and t not in kill]
                    else:
                        kill += [t for t in all_self if t not in kill]
            return need, kill
        # Registers whose address is handed to a callee (out-parameters of the generator protocol): what
        # they hold depends on the callee's return value, which this abstraction cannot express.  They are
        # treated as EXTERNAL storage (like an attribute): stores into them consume the stored reference,
        # loads from them produce a fresh owned reference, their own inc/dec/error checks are not tracked.
        ext = {op.src for b in fn.blocks for op in b.ops
               if isinstance(op, O.LoadAddress) and isinstance(op.src, O.Register)
               and not isinstance(op.src.type, RArray)}
        self.n_ext_regs += len(ext)
        # Unnamed temporaries that uninit.py initialises to the error value but never guards
        # (uninit.py: `if not src.name: continue`): irbuild keeps a flag that is correlated with their
        # definedness.  Reads of them carry an explicit ASSUME-non-null (a blocked path in the semantics).
        unnamed_undef = {op.dest for b in fn.blocks for op in b.ops
                         if isinstance(op, O.Assign) and isinstance(op.src, O.LoadErrorValue)
                         and op.src.undefines and not op.dest.name and op.dest not in ext}
        for b in fn.blocks:
            w(f"B {labels[b]}\n")
            for op in b.ops:
                # a KeepAlive(steal=True) that the pass consumed stood right before this op
                for ka in self.steal_before.get(op, ()):
                    def res(v_):
                        # the KeepAlive op is no longer part of the IR: apply copy propagation's renaming ourselves
                        k_ = 0
                        while v_ in self.cp_map and k_ < 50:
                            v_, k_ = self.cp_map[v_], k_ + 1
                        return v_
                    ks = [res(s) for s in ka.sources() if not isinstance(s, LIT)]
                    kst = [res(s) for s in ka.stolen() if not isinstance(s, LIT) and s.type.is_refcounted]
                    w(f"O {K_KEEPALIVE} 0 0 0 0 1 {len(ks)} " + "".join(f"{vid(s)} " for s in ks)
                      + f"{len(kst)}" + "".join(f" {vid(s)}" for s in kst) + " 0\n")
                    self.n_steal += 1
                if unnamed_undef and not (isinstance(op, O.Branch) and op.op == O.Branch.IS_ERROR) \
                        and not (isinstance(op, O.DecRef) and op.is_xdec) and not isinstance(op, O.LoadAddress):
                    for sv in op.unique_sources():
                        if sv in unnamed_undef:
                            w(f"O {K_ASSUME} 0 0 0 0 0 1 {vid(sv)} 0 0\n")
                            self.n_assume += 1
                if isinstance(op, O.Goto):
                    w(f"G {labels[op.label]}\n")
                elif isinstance(op, O.Branch):
                    kind = 1 if op.op == O.Branch.IS_ERROR else 0
                    v = 0 if isinstance(op.value, LIT) or op.value in ext else vid(op.value)
                    w(f"C {kind} {int(op.negated)} {v} {labels[op.true]} {labels[op.false]}\n")
                elif isinstance(op, O.Return):
                    v = 0 if isinstance(op.value, LIT) or op.value in ext else vid(op.value)
                    w(f"R {v} {int(op.value.type.is_refcounted) if v else 0}\n")
                elif isinstance(op, O.Unreachable):
                    w("U\n")
                if not isinstance(op, (O.Goto, O.Branch, O.Return, O.Unreachable)):
                    srcs = [s for s in op.sources() if not isinstance(s, LIT) and s not in ext]
                    stolen = [s for s in op.stolen() if not isinstance(s, LIT) and s.type.is_refcounted
                              and s not in ext]
                    flag = 0
                    if isinstance(op, (O.IncRef, O.DecRef)) and op.src in ext:
                        continue
                    if isinstance(op, O.Assign) and op.dest in ext:
                        dest, kind = None, K_OTHER          # store into external storage
                    elif isinstance(op, O.Assign):
                        dest = op.dest
                        if isinstance(op.src, LIT) or op.src in ext:
                            kind = K_ASSIGNLIT
                        else:
                            kind = K_ASSIGN
                            if (isinstance(op.src, O.LoadErrorValue) and op.src.undefines
                                    and not dest.type.error_overlap):
                                if dest.name:
                                    flag = 1
                                else:
                                    self.n_unnamed_undef += 1   # uninit.py: `if not src.name: continue`
                    elif isinstance(op, O.AssignMulti):
                        dest, kind = op.dest, K_ASSIGNMULTI
                    else:
                        dest = None if op.is_void else op
                        if isinstance(op, (O.IncRef, O.DecRef)) and op in self.preexisting:
                            kind = K_HEAPREF
                            self.n_heapref += 1
                        elif isinstance(op, O.IncRef):
                            kind = K_INC
                        elif isinstance(op, O.DecRef):
                            kind, flag = K_DEC, int(op.is_xdec)
                        elif isinstance(op, O.LoadErrorValue):
                            kind = K_LOADERR
                        elif isinstance(op, O.Unborrow):
                            kind = K_UNBORROW
                        elif isinstance(op, O.LoadAddress):
                            kind = K_LOADADDR
                        elif isinstance(op, O.KeepAlive):
                            kind, flag = K_KEEPALIVE, int(op.steal)
                        elif isinstance(op, O.ComparisonOp):
                            kind = K_RAWREAD       # operands are compared as machine words, never dereferenced
                        else:
                            kind = K_OTHER
                    d = vid(dest) if dest is not None else 0
                    rc = int(dest.type.is_refcounted) if dest is not None else 0
                    bor = int(bool(getattr(op, "is_borrowed", False))) if dest is not None else 0
                    ek = getattr(op, "error_kind", O.ERR_NEVER)
                    maynull = int(ek in (O.ERR_MAGIC, O.ERR_MAGIC_OVERLAPPING)
                                  or bool(getattr(op, "returns_null", False))
                                  or bool(getattr(op, "allow_error_value", False)))
                    if isinstance(op, O.GetAttr) and op.attr.startswith(TEMP_ATTR_NAME + "2_"):
                        # read of a spill slot written by spill.py at the definition point: trusted non-null
                        maynull = 0
                        self.n_spill_reads += 1
                    owner = 0
                    if dest is not None and bor and rc and kind in (K_OTHER, K_RAWREAD):
                        ow = self.owner_of(op, LIT, ext)
                        if ow is not None:
                            owner = vid(ow)
                    need, kill = slot_effects(op)
                    if need and isinstance(op, O.Call):
                        flag = 1      # marks "the callee's initializing stores" (for reporting only)
                    w(f"O {kind} {d} {rc} {bor} {maynull} {flag} {len(srcs)} "
                      + "".join(f"{vid(s)} " for s in srcs) + f"{len(stolen)}"
                      + "".join(f" {vid(s)}" for s in stolen) + f" {owner}"
                      + f" {len(need)}" + "".join(f" {t}" for t in need)
                      + f" {len(kill)}" + "".join(f" {t}" for t in kill) + "\n")
        w("E\n")
        pretty = f"### {name}\n" + "\n".join(format_func(fn)) + "\n" if self.txt is not None else ""
        if final:
            self.pending.append((None, "".join(buf), pretty))
            self.n_final += 1
        elif self.pending and self.pending[-1][0] is fn:
            self.pending[-1] = (fn, "".join(buf), pretty)      # re-snapshot of the same function (after spill)
            self.n_respill += 1
        else:
            self.pending.append((fn, "".join(buf), pretty))

    def dump_class(self, tag: str, cl) -> None:
        """Always-defined attributes: the claim of attrdefined.py and __init__ as it was analysed
        (before the exception transform), abstracted to set / read / leak / base-__init__ call."""
        from mypyc.ir import ops as O
        # the claim BEFORE attrdefined.py intersects it with the subclasses' claims: this is the effect a direct
        # call Base.__init__(self) is assumed to have; the final claim is a subset of it
        first = self.init_effect or {}
        claimed = set(first.get(cl, cl._always_initialized_attrs)) | set(cl._always_initialized_attrs)
        self.n_classes += 1
        if not claimed:
            return
        names = sorted({a for base in cl.mro for a in base.attributes} | claimed | set(cl.attrs_with_defaults))
        aid = {n: i + 1 for i, n in enumerate(names)}
        name = re.sub(r"\s+", "_", f"{tag}::class::{cl.module_name}.{cl.name}")
        out = [f"I {name}\n",
               f"Y {len(claimed)} " + " ".join(str(aid[a]) for a in sorted(claimed)) + "\n",
               f"D {len(cl.attrs_with_defaults)} " + " ".join(str(aid[a]) for a in sorted(cl.attrs_with_defaults)) + "\n"]
        m = cl.get_method("__init__")
        if m is None:
            out += ["b 1\n", "t\n"]
        else:
            self_reg = m.arg_regs[0]
            labels = {b: i + 1 for i, b in enumerate(m.blocks)}
            nxt = len(m.blocks) + 1
            RAW = (O.ComparisonOp, O.GetElementPtr, O.LoadMem, O.IncRef, O.DecRef, O.KeepAlive, O.IntOp,
                   O.Truncate, O.Extend, O.GetElement, O.LoadAddress)
            for b in m.blocks:
                out.append(f"b {labels[b]}\n")
                if b.error_handler is not None:
                    # an exception may leave the block at any point: the handler sees (at worst) the state at
                    # the start of the block
                    out.append(f"c {nxt} {labels[b.error_handler]}\n")
                    out.append(f"b {nxt}\n")
                    nxt += 1
                for op in b.ops:
                    uses_self = any(x is self_reg for x in op.sources())
                    if isinstance(op, O.Goto):
                        out.append(f"g {labels[op.label]}\n")
                    elif isinstance(op, O.Branch):
                        out.append(f"c {labels[op.true]} {labels[op.false]}\n")
                    elif isinstance(op, O.Return):
                        out.append("t\n")
                    elif isinstance(op, O.Unreachable):
                        out.append("u\n")
                    elif isinstance(op, O.SetAttr) and op.obj is self_reg and op.src is not self_reg \
                            and not op.class_type.class_ir.get_method(op.attr):
                        out.append(f"s {aid[op.attr]}\n" if op.attr in aid else "")
                    elif isinstance(op, O.GetAttr) and op.obj is self_reg \
                            and not op.class_type.class_ir.get_method(op.attr):
                        out.append(f"r {aid[op.attr]}\n" if op.attr in aid else "")
                    elif isinstance(op, O.Call) and op.fn.class_name and op.fn.name == "__init__" and op.args \
                            and op.args[0] is self_reg and not any(x is self_reg for x in op.args[1:]):
                        bcl = op.fn.sig.args[0].type.class_ir
                        attrs = sorted({a for base in bcl.mro for a in base.attributes
                                        if a in first.get(base, base._always_initialized_attrs)})
                        attrs = [aid[a] for a in attrs if a in aid]
                        out.append(f"n {int(bool(bcl.init_self_leak))} {len(attrs)} " + " ".join(map(str, attrs)) + "\n")
                    elif isinstance(op, (O.Assign, O.AssignMulti)) and (uses_self or op.dest is self_reg):
                        out.append("l\n")
                    elif uses_self and not isinstance(op, RAW):
                        out.append("l\n")
        out.append("e\n")
        self.class_text.append("".join(out))
        self.n_class_claims += len(claimed)

    def flush(self) -> None:
        for t in self.class_text:
            self.out.write(t)
        self.class_text = []
        for _, text, pretty in self.pending:
            self.out.write(text)
            self.nfuncs += 1
            if self.txt is not None:
                self.txt.write(pretty)
        self.pending = []


def child_compile_case(d: Dumper, repo: str, tfile: str, case: str, main: str, files, work: str, is_run: bool) -> str:
    """Compile one test program with the real pipeline; returns '' or an error summary."""
    from mypy import build
    from mypy.errors import CompileError
    from mypy.options import Options
    from mypyc.codegen import emitmodule
    from mypyc.errors import Errors
    from mypyc.irbuild.mapper import Mapper
    from mypyc.options import CompilerOptions
    from mypyc.test.testutil import infer_ir_build_options_from_test_name

    tag = f"{os.path.basename(tfile)}::{case}"
    shutil.rmtree(work, ignore_errors=True)
    os.makedirs(work)
    os.chdir(work)
    fixtures = os.path.join(repo, "mypyc", "test-data", "fixtures")
    has_builtins = False
    for fn, text in files:
        rel = fn[4:] if fn.startswith("tmp/") else fn
        os.makedirs(os.path.dirname(os.path.join(work, rel)) or work, exist_ok=True)
        with open(os.path.join(work, rel), "w", encoding="utf-8") as f:
            f.write(text)
        if os.path.basename(rel) == "builtins.pyi":
            has_builtins = True
    if not has_builtins:
        shutil.copyfile(os.path.join(fixtures, "ir.py"), os.path.join(work, "builtins.pyi"))
    shutil.copyfile(os.path.join(fixtures, "testutil.py"), os.path.join(work, "testutil.py"))
    with open("native.py", "w", encoding="utf-8") as f:
        f.write(main)

    copts = infer_ir_build_options_from_test_name(case)
    if copts is None:
        return "skipped"
    options = Options()
    options.use_builtins_fixtures = True
    options.show_traceback = True
    options.strict_optional = True
    options.strict_bytes = True
    options.disable_bytearray_promotion = True
    options.disable_memoryview_promotion = True
    options.export_types = True
    options.preserve_asts = True
    options.allow_empty_bodies = True
    options.incremental = False
    options.cache_dir = os.devnull
    options.hide_error_codes = True
    if is_run:
        options.python_version = sys.version_info[:2]
        options.check_untyped_defs = True
        copts = CompilerOptions(strict_traceback_checks=True,
                                experimental_features=copts.experimental_features)
    else:
        options.python_version = copts.python_version or (3, 10)
    options.per_module_options["unchecked.*"] = {"follow_imports": "error"}
    options.per_module_options["skipped"] = {"follow_imports": "skip"}
    options.per_module_options["skipped.*"] = {"follow_imports": "skip"}
    sources = [build.BuildSource("native.py", "native", None)]
    for fn, _ in files:
        rel = fn[4:] if fn.startswith("tmp/") else fn
        if os.path.basename(rel).startswith("other") and rel.endswith(".py") and is_run:
            sources.append(build.BuildSource(rel, rel.split(".")[0].replace(os.sep, "."), None))
    for s in sources:
        options.per_module_options.setdefault(s.module, {})["mypyc"] = True
    groups = [(sources, None)]
    result = None
    real = emitmodule.insert_ref_count_opcodes

    def wrapped(fn) -> None:
        d.pre_pass(fn)
        real(fn)                      # the real pass, then snapshot what it produced
        d.dump_func(tag, fn)
    real_spill = emitmodule.insert_spills

    def wrapped_spill(fn, env) -> None:
        # generator/coroutine bodies: values live across a yield are moved into the environment object by
        # the next pass; the refcount output is only path-correct together with it -> snapshot again.
        real_spill(fn, env)
        d.dump_func(tag, fn)
    # ---- final IR (what codegen sees): snapshot again after lower -> copy propagation -> flag elimination.
    # Ops that the later passes replace/remove may be the anchor of a re-inserted KeepAlive(steal) marker:
    # carry the marker over to the op that takes their place.
    import mypyc.transform.lower as lowermod
    import mypyc.transform.copy_propagation as cpmod
    import mypyc.transform.ir_transform as irtmod
    real_flag = emitmodule.do_flag_elimination
    real_vpo = lowermod.LoweringVisitor.visit_primitive_op
    real_cpa = cpmod.CopyPropagationTransform.visit_assign
    real_add = irtmod.IRTransform.add
    def wrapped_flag(fn, options) -> None:
        real_flag(fn, options)
        d.dump_func(tag, fn, final=True)

    import mypyc.irbuild.ll_builder as llb
    real_tb = irtmod.IRTransform.transform_blocks
    real_badd = llb.LowLevelIRBuilder.add
    track: dict[str, Any] = {"on": False, "pending": []}

    class TrackList(list):
        """block.ops of the transform's input: tells which source op is being rewritten."""
        def __iter__(self):
            for op_ in list.__iter__(self):
                if track["on"] and op_ in d.steal_before:
                    track["pending"] += d.steal_before.pop(op_)
                yield op_

    def wrapped_badd(self_, op):
        # the first op emitted for (or after) a source op that anchored a KeepAlive(steal) marker inherits it
        if track["on"] and track["pending"]:
            d.steal_before.setdefault(op, []).extend(track["pending"])
            track["pending"] = []
        return real_badd(self_, op)

    def wrapped_tb(self_, blocks) -> None:
        for b_ in blocks:
            b_.ops = TrackList(b_.ops)
        track["on"], track["pending"] = True, []
        try:
            real_tb(self_, blocks)
        finally:
            track["on"] = False
            d.n_marker_lost += len(track["pending"])
            track["pending"] = []
    real_cpinit = cpmod.CopyPropagationTransform.__init__

    def wrapped_cpinit(self_, builder, map) -> None:
        d.cp_map.update(map)
        real_cpinit(self_, builder, map)
    if os.environ.get("VERIF_C06_FINAL", "1") == "1":
        emitmodule.do_flag_elimination = wrapped_flag
        irtmod.IRTransform.transform_blocks = wrapped_tb
        llb.LowLevelIRBuilder.add = wrapped_badd
        cpmod.CopyPropagationTransform.__init__ = wrapped_cpinit
    import mypyc.irbuild.main as ibmain
    real_ada = ibmain.analyze_always_defined_attrs

    import mypyc.analysis.attrdefined as adef
    real_upd = adef.update_always_defined_attrs_using_subclasses
    state: dict[str, Any] = {"irs": None}

    def wrapped_upd(cl, seen) -> None:
        if d.init_effect is None and state["irs"] is not None:
            d.init_effect = {c: set(c._always_initialized_attrs) for c in state["irs"]}
        real_upd(cl, seen)

    def wrapped_ada(class_irs) -> None:
        state["irs"] = list(class_irs)
        d.init_effect = None
        real_ada(class_irs)           # the real analysis, then its claims + the __init__ IR it looked at
        for cl in class_irs:
            d.dump_class(tag, cl)
        d.init_effect = None
    adef.update_always_defined_attrs_using_subclasses = wrapped_upd
    ibmain.analyze_always_defined_attrs = wrapped_ada
    emitmodule.insert_ref_count_opcodes = wrapped
    emitmodule.insert_spills = wrapped_spill
    try:
        result = emitmodule.parse_and_typecheck(sources=sources, options=options, compiler_options=copts,
                                                groups=groups, alt_lib_path=".")
        errors = Errors(options)
        mapper = Mapper({s.module: None for s in sources})
        result.manager.errors.set_file("<mypyc>", module=None, scope=None, options=result.manager.options)
        emitmodule.compile_modules_to_ir(result, mapper, copts, errors)
        if errors.num_errors:
            return "mypyc errors"
    except CompileError as e:
        return "compile error: " + " | ".join(e.messages[:2])
    except BaseException as e:  # noqa  (mypy reports internal errors through SystemExit)
        if isinstance(e, KeyboardInterrupt):
            raise
        return f"exception {type(e).__name__}: {e}"
    finally:
        emitmodule.insert_ref_count_opcodes = real
        emitmodule.insert_spills = real_spill
        emitmodule.do_flag_elimination = real_flag
        irtmod.IRTransform.transform_blocks = real_tb
        llb.LowLevelIRBuilder.add = real_badd
        cpmod.CopyPropagationTransform.__init__ = real_cpinit
        ibmain.analyze_always_defined_attrs = real_ada
        adef.update_always_defined_attrs_using_subclasses = real_upd
        d.flush()
        if result is not None:
            result.manager.metastore.close()
    return ""


def child_main(jobfile: str) -> None:
    job = json.load(open(jobfile))
    repo = job["repo"]
    sys.path.insert(0, repo)
    out = open(job["out"], "w")
    txt = open(job["out"] + ".txt", "w") if job.get("pretty") else None
    d = Dumper(out, txt)
    status = []
    cache: dict[str, Any] = {}
    for item in job["cases"]:
        t0 = time.time()
        if item["kind"] == "test":
            tf = item["file"]
            if tf not in cache:
                cache[tf] = {c[0]: c for c in parse_test_file(tf)}
            c = cache[tf][item["case"]]
            n0 = d.nfuncs
            err = child_compile_case(d, repo, tf, c[0], c[1], c[2], job["work"], os.path.basename(tf).startswith("run-"))
        else:
            n0 = d.nfuncs
            tfull = open(os.path.join(repo, "mypyc", "test-data", "fixtures", "typing-full.pyi"), encoding="utf-8").read()
            err = child_compile_case(d, repo, item["name"], "gen", item["text"],
                                     [("asyncio/__init__.pyi", "async def sleep(t: float) -> None: ...\n"),
                                      ("typing.pyi", tfull)], job["work"], True)
        status.append({"item": item.get("case") or item.get("name"), "file": item.get("file", ""), "err": err,
                       "funcs": d.nfuncs - n0, "s": round(time.time() - t0, 2)})
    out.close()
    if txt:
        txt.close()
    json.dump({"status": status, "n_steal": d.n_steal, "n_heapref": d.n_heapref, "n_unnamed_undef": d.n_unnamed_undef,
               "n_respill": d.n_respill, "n_ext_regs": d.n_ext_regs,
               "n_assume": d.n_assume, "n_spill_reads": d.n_spill_reads, "n_borrow_owner": d.n_borrow_owner,
               "n_borrow_static": d.n_borrow_static, "n_borrow_unknown": d.n_borrow_unknown,
               "n_classes": d.n_classes, "n_class_claims": d.n_class_claims, "n_init_stores": d.n_init_stores, "n_final": d.n_final, "n_marker_lost": d.n_marker_lost},
              open(job["out"] + ".status", "w"))


if __name__ == "__main__":
    if len(sys.argv) == 3 and sys.argv[1] == "--dump":
        child_main(sys.argv[2])
        sys.exit(0)


# --------------------------------------------------------------------------------------------
# parsing the dump (parent side) + independent Python re-implementation of the Coq checker
# --------------------------------------------------------------------------------------------

def parse_dump(path: str):
    """Yield (name, args, blocks, raw_lines); blocks: {label: (ops, term)}."""
    name = None
    with open(path) as f:
        for ln in f:
            t = ln.split()
            if not t:
                continue
            c = t[0]
            if c in ("I", "Y", "D", "b", "s", "r", "l", "n", "g", "c", "t", "u", "e"):
                continue
            if c == "F":
                name, args, blocks, cur, raw = t[1], [], {}, None, [ln]
                continue
            if c == "K":
                raw.append(ln)
                args.append(("K", [int(x) for x in t[2:]]))
                continue
            raw.append(ln)
            if c == "A":
                args.append((int(t[1]), int(t[2]), int(t[3])))
            elif c == "B":
                cur = int(t[1])
                blocks[cur] = [[], None]
            elif c == "O":
                n = int(t[7])
                srcs = [int(x) for x in t[8:8 + n]]
                m = int(t[8 + n])
                stolen = [int(x) for x in t[9 + n:9 + n + m]]
                owner = int(t[9 + n + m]) if len(t) > 9 + n + m else 0
                p = 10 + n + m
                need, kill = [], []
                if len(t) > p:
                    k = int(t[p])
                    need = [int(x) for x in t[p + 1:p + 1 + k]]
                    p += 1 + k
                    k = int(t[p])
                    kill = [int(x) for x in t[p + 1:p + 1 + k]]
                blocks[cur][0].append((int(t[1]), int(t[2]), int(t[3]), int(t[4]), int(t[5]), int(t[6]), srcs, stolen, owner, need, kill))
            elif c == "G":
                blocks[cur][1] = ("G", int(t[1]))
            elif c == "C":
                blocks[cur][1] = ("C", int(t[1]), int(t[2]), int(t[3]), int(t[4]), int(t[5]))
            elif c == "R":
                blocks[cur][1] = ("R", int(t[1]), int(t[2]))
            elif c == "U":
                blocks[cur][1] = ("U",)
            elif c == "E":
                yield name, args, blocks, raw


U = ("U",)
D = ("D",)


def owned(a) -> int:
    return a[1] if a[0] in ("O", "M") else 0


def bor_leb(weak, strong) -> bool:
    return weak == 0 or weak == strong or (strong == 1 and weak != 0)


def bor_meet(b1, b2):
    return b1 if bor_leb(b1, b2) else (b2 if bor_leb(b2, b1) else 0)


def a_join(x, y):
    """Least upper bound, or None when the two states disagree about ownership."""
    if x == y:
        return x
    if x[0] == "U" or y[0] == "U" or x[0] == "D" or y[0] == "D":
        return D if owned(x) == 0 and owned(y) == 0 else None
    if x[0] == "N" and y[0] == "N":
        return ("N", x[1] | y[1])
    if x[0] == "O" and y[0] == "O":
        return ("O", x[1], bor_meet(x[2], y[2])) if x[1] == y[1] else None
    if x[0] == "N":
        x, y = y, x
    if y[0] == "N":           # x is O or M
        if x[0] == "O":
            return ("M", x[1], x[2], y[1])
        return ("M", x[1], x[2], x[3] | y[1])
    # O/M with M
    if x[1] != y[1]:
        return None
    ux = x[3] if x[0] == "M" else 0
    uy = y[3] if y[0] == "M" else 0
    return ("M", x[1], bor_meet(x[2], y[2]), ux | uy)


class Reject(Exception):
    pass


def py_check(args, blocks) -> str:
    """'' if accepted else a reason string (block/op position + what)."""
    def get(s, v):
        return s.get(v, U)

    def usable(a) -> bool:      # may be dereferenced / passed to an op
        if a[0] == "O":
            return a[1] > 0 or bool(a[2])
        return False

    def readable(a) -> bool:    # generic operand: non-null usable, or a (not undefined) null
        if a[0] == "O":
            return usable(a)
        if a[0] == "N":
            return not a[1]
        if a[0] == "M":
            return (a[1] > 0 or bool(a[2])) and not a[3]
        return False

    def retarget(s, w, nb):
        for x, a in list(s.items()):
            if a[0] in ("O", "M") and a[2] == ("F", w):
                s[x] = (a[0], a[1], nb) + a[3:]

    def root(s, w):
        a = get(s, w)
        if a[0] == "O":
            return ("F", w) if a[1] > 0 else a[2]
        return 0

    def release(s, v, where, x=False, strict=False, succ=0):
        a = get(s, v)
        if a[0] == "O":
            if a[1] == 0:
                raise Reject(f"{where}: release of unowned v{v}")
            s[v] = ("O", a[1] - 1, a[2])
            if a[1] == 1:
                retarget(s, v, succ if succ != 0 else a[2])
        elif a[0] == "N" and not strict:
            pass
        elif a[0] == "M" and not strict:
            if a[1] == 0:
                raise Reject(f"{where}: release of unowned v{v}")
            s[v] = ("M", a[1] - 1, a[2], a[3])
            if a[1] == 1:
                retarget(s, v, 0)
        else:
            raise Reject(f"{where}: release of {a} v{v}")

    def define(s, d, a, where):
        if owned(get(s, d)) != 0:
            raise Reject(f"{where}: v{d} overwritten while owning a reference (leak)")
        s[d] = a

    def fresh(s, rc, bor, maynull, owner=0):
        o = ("O", 1, 0) if rc and not bor else ("O", 0, root(s, owner) if owner else 1)
        return ("M", o[1], o[2], 0) if maynull else o

    def transfer(lbl, s):
        s = dict(s)
        ops, term = blocks[lbl]
        for i, (kind, d, rc, bor, maynull, flag, srcs, stolen, owner, need, kill) in enumerate(ops):
            where = f"L{lbl - 1}.{i}"
            if kind in (K_OTHER, K_ASSIGNMULTI, K_UNBORROW, K_KEEPALIVE, K_HEAPREF, K_RAWREAD):
                for v in srcs:
                    a = get(s, v)
                    if kind == K_RAWREAD:
                        if not (a[0] == "O" or (a[0] == "N" and not a[1]) or (a[0] == "M" and not a[3])):
                            raise Reject(f"{where}: raw read of {a} v{v}")
                    elif not readable(a):
                        raise Reject(f"{where}: read of {a} v{v}")
                for v in stolen:
                    release(s, v, where, succ=1 if kind == K_KEEPALIVE else 0)
                if d:
                    define(s, d, fresh(s, rc, bor and kind != K_UNBORROW, maynull, owner), where)
            elif kind == K_LOADADDR:
                define(s, d, ("O", 0, 1), where)
            elif kind == K_ASSUME:
                a = get(s, srcs[0])
                if a[0] == "M":
                    s[srcs[0]] = ("O", a[1], a[2])
                elif a[0] == "N":
                    return []          # path excluded by the trusted invariant
            elif kind == K_LOADERR:
                define(s, d, ("N", 0), where)
            elif kind == K_ASSIGNLIT:
                define(s, d, ("O", 1, 0) if rc else ("O", 0, 1), where)
            elif kind == K_ASSIGN:
                v = srcs[0]
                a = get(s, v)
                if not readable(a):
                    raise Reject(f"{where}: read of {a} v{v}")
                mv = bool(stolen)          # refcounted dest and refcounted source: the reference moves
                if mv:
                    release(s, v, where, succ=("F", d))
                own = ("O", 1, 0) if rc else ("O", 0, 1)   # rc dest from a non-rc source: virtual reference
                if a[0] == "N":
                    na = ("N", a[1] | flag)
                elif a[0] == "O":
                    na = own
                else:
                    na = ("M", own[1], own[2], a[3] | flag)
                define(s, d, na, where)
            elif kind == K_INC:
                a = get(s, srcs[0])
                if not usable(a):
                    raise Reject(f"{where}: inc_ref of {a} v{srcs[0]}")
                s[srcs[0]] = ("O", a[1] + 1, a[2])
            elif kind == K_DEC:
                a = get(s, srcs[0])
                release(s, srcs[0], where, strict=not flag)
            for t_ in need:
                if get(s, t_)[0] != "N":
                    raise Reject(f"{where}: initializing store to a possibly-set slot, token v{t_}")
                s[t_] = U
            for t_ in kill:
                s[t_] = U
        where = f"L{lbl - 1}.term"
        if term[0] == "G":
            return [(term[1], s)]
        if term[0] == "U":
            return []
        if term[0] == "R":
            v, rc = term[1], term[2]
            if v:
                a = get(s, v)
                if not readable(a):
                    raise Reject(f"{where}: return of {a} v{v}")
                if rc:
                    release(s, v, where)
            for x, a in s.items():
                if owned(a):
                    raise Reject(f"{where}: leak of v{x} {a} at return")
            return []
        _, kind, neg, v, lt, lf = term
        if not v:
            return [(lt, s), (lf, s)]
        a = get(s, v)
        if kind == 0:
            if not readable(a):
                raise Reject(f"{where}: branch on {a} v{v}")
            return [(lt, s), (lf, s)]
        if neg:
            lt, lf = lf, lt
        if a[0] == "O":
            return [(lf, s)]
        if a[0] == "N":
            return [(lt, s)]
        if a[0] == "M":
            s1, s2 = dict(s), s
            s1[v] = ("N", a[3])
            s2[v] = ("O", a[1], a[2])
            return [(lt, s1), (lf, s2)]
        raise Reject(f"{where}: error check on {a} v{v}")

    ann: dict[int, dict] = {}
    init = {}
    for arg in args:
        if arg[0] == "K":
            for t_ in arg[1]:
                init.setdefault(t_, ("N", 0))
            continue
        v, rc, opt = arg
        init[v] = ("M", 0, 1, 0) if opt else ("O", 0, 1)
    ann[1] = init
    work = [1]
    try:
        steps = 0
        while work:
            steps += 1
            if steps > 400 * len(blocks) + 2000:
                return "no fixpoint"
            b = work.pop()
            for (t, s) in transfer(b, ann[b]):
                if t not in ann:
                    ann[t] = s
                    work.append(t)
                    continue
                old = ann[t]
                new = dict(old)
                ch = False
                for v in set(old) | set(s):
                    j = a_join(old.get(v, U), s.get(v, U))
                    if j is None:
                        raise Reject(f"edge L{b - 1}->L{t - 1}: inconsistent ownership of v{v}: {old.get(v, U)} vs {s.get(v, U)}")
                    if j != old.get(v, U):
                        new[v] = j
                        ch = True
                if ch:
                    ann[t] = new
                    if t not in work:
                        work.append(t)
    except Reject as e:
        return str(e)
    return ""


# --------------------------------------------------------------------------------------------
# parent: parallel dump
# --------------------------------------------------------------------------------------------

def list_cases(repo: str) -> list[dict]:
    td = os.path.join(repo, "mypyc", "test-data")
    out = []
    names = sorted(os.listdir(td))
    sel = [n for n in names if n in ("refcount.test", "exceptions.test", "alwaysdefined.test")] + \
          [n for n in names if n.startswith("irbuild-") and n.endswith(".test")] + \
          [n for n in names if n.startswith("run-") and n.endswith(".test")]
    for n in sel:
        p = os.path.join(td, n)
        for c in parse_test_file(p):
            out.append({"kind": "test", "file": p, "case": c[0]})
    return out


def run_dump(repo: str, items: list[dict], tmp: str, nproc: int, pretty: bool = True, timeout: int = 1500,
             chunk: int = 12, soft_deadline: float | None = None):
    """Run the child dumper over items in small chunks on nproc workers. Returns (dump paths, statuses, failures, counters)."""
    import vlib
    from concurrent.futures import ThreadPoolExecutor
    chunks = [items[i:i + chunk] for i in range(0, len(items), chunk)]
    t_end = time.time() + timeout

    skipped = []

    def one(j: int):
        cases = chunks[j]
        if soft_deadline is not None and time.time() > soft_deadline:
            skipped.append(j)          # time budget used up: not started (coverage shrinks, no alarm)
            return None, None, ""
        jf = os.path.join(tmp, f"job{j}.json")
        out = os.path.join(tmp, f"dump{j:04d}.ir")
        json.dump({"repo": repo, "out": out, "pretty": pretty, "work": os.path.join(tmp, f"w{j}"), "cases": cases}, open(jf, "w"))
        env = vlib.py_env()
        env["PYTHONPATH"] = repo
        try:
            p = subprocess.run([vlib.PY, os.path.abspath(__file__), "--dump", jf], env=env, cwd=tmp,
                               stdout=subprocess.PIPE, stderr=subprocess.STDOUT, text=True,
                               timeout=max(5, t_end - time.time()))
            rc, o = p.returncode, p.stdout
        except subprocess.TimeoutExpired:
            rc, o = 124, "[timeout]"
        shutil.rmtree(os.path.join(tmp, f"w{j}"), ignore_errors=True)
        if rc != 0 or not os.path.exists(out + ".status"):
            return out, None, (o or "")[-1500:]
        return out, json.load(open(out + ".status")), ""
    with ThreadPoolExecutor(max_workers=nproc) as ex:
        res = list(ex.map(one, range(len(chunks))))
    dumps, status, failures = [], [], []
    counters = {"n_steal": 0, "n_heapref": 0, "n_unnamed_undef": 0, "n_respill": 0, "n_ext_regs": 0, "n_assume": 0, "n_spill_reads": 0,
                "n_borrow_owner": 0, "n_borrow_static": 0, "n_borrow_unknown": 0, "n_classes": 0, "n_class_claims": 0,
                "n_init_stores": 0, "n_final": 0, "n_marker_lost": 0}
    counters["chunks_skipped_for_time"] = len(skipped)
    for out, st, err in res:
        if out is None:
            continue
        if st is None:
            failures.append((out, err))
            continue
        dumps.append(out)
        status += st["status"]
        for k in counters:
            counters[k] += st.get(k, 0)
    return dumps, status, failures, counters


# --------------------------------------------------------------------------------------------
# generated programs (seeded): shapes that stress the pass
# --------------------------------------------------------------------------------------------

GEN_HEADER = '''from typing import Optional, List, Tuple, Dict, Iterator, Any
import asyncio
class T:
    def __init__(self, n: int) -> None:
        self.n = n
        self.nxt: Optional[T] = None
def mk(n: int) -> T:
    if n < 0:
        raise ValueError("neg")
    return T(n)
def use(t: T) -> int:
    return t.n
async def slp(b: bytes) -> bytes:
    await asyncio.sleep(0)
    return b
'''


def shapes_program() -> str:
    """Fixed module of shapes that stress specific conventions (always part of the corpus):
    try nested in a try body (handler edges of successor blocks), ops that steal the SAME value several times
    (displays of length 1..12 with repeated locals, tuples), __init__ methods in which an ALIAS of self
    (isinstance narrowing cast, local, identity function, tuple/list packing) is used before an attribute is set."""
    out = ['''from typing import List, Optional, Tuple, Dict, Set, Any
class T:
    def __init__(self, n: int) -> None:
        self.n = n
def mk(n: int) -> T:
    if n < 0:
        raise ValueError("neg")
    return T(n)
def parse(s: str) -> str:
    if not s:
        raise ValueError("empty")
    return s + "!"
def nt_str(s: str) -> str:
    try:
        prefix = parse("cfg")
        try:
            value = parse(s)
        except ValueError:
            return prefix + ":" + value
    finally:
        parse("done")
    return value
def nt_obj(n: int) -> T:
    try:
        a = mk(1)
        try:
            v = mk(n)
        except ValueError:
            return v
    finally:
        mk(2)
    return v
def nt_loop(n: int) -> int:
    acc = 0
    for i in range(n):
        try:
            p = mk(i)
            try:
                q = mk(n - 5)
            except ValueError:
                acc += q.n
            finally:
                acc += p.n
        except KeyError:
            acc += 1
    return acc
def nt_three(n: int) -> T:
    try:
        x = mk(0)
        try:
            y = mk(1)
            try:
                z = mk(n)
            except ValueError:
                return z
        except KeyError:
            return y
    finally:
        mk(3)
    return x
def ds_tuple2(n: int) -> Tuple[T, T]:
    e = mk(n)
    return (e, e)
def ds_tuple3(n: int) -> Tuple[T, T, T]:
    e = mk(n)
    f = mk(n)
    return (e, f, e)
def ds_tuple_arg(e: T) -> Tuple[T, T]:
    return (e, e)
def ds_opt10(n: int) -> List[Optional[T]]:
    edge = mk(n)
    return [edge, None, None, None, None, None, None, None, None, edge]
def ds_kept10(n: int) -> int:
    edge = mk(n)
    row: List[object] = [edge, None, None, None, None, None, None, None, None, edge]
    return edge.n + len(row)
def ds_arg10(edge: T) -> List[Optional[T]]:
    return [edge, None, None, None, None, None, None, None, None, edge]
def ds_dict(n: int) -> Dict[int, T]:
    e = mk(n)
    return {1: e, 2: e}
def ds_set(n: int) -> Set[int]:
    k = n * 1000003
    return {k, k}
def ident(x: Any) -> Any:
    return x
class Shape:
    def __init__(self, n: int) -> None:
        if isinstance(self, Polygon):
            self.validate()
        self.points = [n]
    def validate(self) -> int:
        return 0
class Polygon(Shape):
    def validate(self) -> int:
        return len(self.points)
class AliasLocal:
    def __init__(self, n: int) -> None:
        me = self
        me.hook()
        self.a = mk(n)
    def hook(self) -> int:
        return 0
class AliasIdent:
    def __init__(self, n: int) -> None:
        ident(self).hook()
        self.a = mk(n)
    def hook(self) -> int:
        return 0
class AliasTuple:
    def __init__(self, n: int) -> None:
        t = (self, n)
        t[0].hook()
        self.a = mk(n)
    def hook(self) -> int:
        return 0
class AliasList:
    def __init__(self, n: int) -> None:
        l = [self]
        l[0].hook()
        self.a = mk(n)
    def hook(self) -> int:
        return 0
class AliasLate:
    def __init__(self, n: int) -> None:
        self.a = mk(n)
        if isinstance(self, AliasLateSub):
            self.hook()
        self.b = mk(n)
    def hook(self) -> int:
        return 0
class AliasLateSub(AliasLate):
    def hook(self) -> int:
        return self.b.n
''']
    for k in range(1, 13):
        items = ", ".join("e" if i % 2 == 0 or k < 3 else "f" for i in range(k))
        out.append(f"def ds_len{k}(n: int) -> List[T]:\n    e = mk(n)\n    f = mk(n + 1)\n    return [{items}]\n")
        out.append(f"def ds_all{k}(n: int) -> List[T]:\n    e = mk(n)\n    return [{', '.join(['e'] * k)}]\n")
    return "\n".join(out)


def gen_program(rng, k: int) -> str:
    """One module with k functions built from statement templates over tracked objects."""
    out = [GEN_HEADER]
    for i in range(k):
        body = []
        nv = rng.randint(1, 3)
        vs = [f"v{j}" for j in range(nv)]
        defined = set()
        params = "a: T, b: T, n: int" + (", o: Optional[T] = None" if rng.random() < 0.4 else "")
        has_o = "o:" in params

        def expr() -> str:
            c = rng.choice(["a", "b", "mk(n)", "mk(n - 1)", "T(n)"] + sorted(defined) + (["(o or a)"] if has_o else []))
            return c

        def stmts(depth: int, ind: str) -> list[str]:
            res = []
            for _ in range(rng.randint(1, 3)):
                r = rng.random()
                if r < 0.30:
                    v = rng.choice(vs)
                    res.append(f"{ind}{v} = {expr()}")
                    defined.add(v)
                elif r < 0.40:
                    res.append(f"{ind}a = {expr()}")
                elif r < 0.50 and depth < 2:
                    res.append(f"{ind}if n > {rng.randint(0, 3)}:")
                    res += stmts(depth + 1, ind + "    ")
                    if rng.random() < 0.5:
                        res.append(f"{ind}else:")
                        res += stmts(depth + 1, ind + "    ")
                elif r < 0.60 and depth < 2:
                    res.append(f"{ind}for i{depth} in range(n):")
                    res += stmts(depth + 1, ind + "    ")
                    if rng.random() < 0.3:
                        res.append(f"{ind}    if i{depth} == 1:")
                        res.append(f"{ind}        {rng.choice(['break', 'continue'])}")
                elif r < 0.72 and depth < 2:
                    res.append(f"{ind}try:")
                    res += stmts(depth + 1, ind + "    ")
                    if rng.random() < 0.5:
                        res.append(f"{ind}except ValueError:")
                        res += stmts(depth + 1, ind + "    ")
                    else:
                        res.append(f"{ind}finally:")
                        res += stmts(depth + 1, ind + "    ")
                elif r < 0.80:
                    res.append(f"{ind}{expr()}.nxt = {expr()}")
                elif r < 0.88:
                    res.append(f"{ind}n += use({expr()})")
                elif r < 0.94:
                    res.append(f"{ind}x{depth}, y{depth} = ({expr()}, {expr()})")
                    res.append(f"{ind}n += use(x{depth})")
                else:
                    res.append(f"{ind}lst = [{expr()}, {expr()}]")
                    res.append(f"{ind}n += len(lst)")
            return res
        # python scoping: a variable assigned only in a branch is maybe-undefined afterwards (uninit checks)
        body = stmts(0, "    ")
        ret = rng.choice(sorted(defined) + ["a", "b"]) if rng.random() < 0.7 else "mk(n)"
        out.append(f"def g{i}({params}) -> T:\n" + "\n".join(body) + f"\n    return {ret}\n")
    # values live across a suspension point
    out.append("async def co(a: T, n: int) -> bytes:\n    x = mk(n)\n    r = b'' + await slp(b'z')\n    n += use(x)\n    return r\n")
    out.append("def it(a: T, n: int) -> Iterator[T]:\n    for i in range(n):\n        t = mk(i)\n        yield t\n        yield a\n")
    return "\n".join(out)


CODE_TEXT = {11: "initializing attribute store (SetAttr.is_init, the old value is not released) to a slot that may already be set",
             1: "operand read while uninitialised / undefined local / released / possibly-null where not allowed",
             2: "release (dec_ref / steal / return) of a reference the value does not own",
             3: "dec_ref / release of the error value (NULL), of a never-assigned or of a dead value",
             4: "inc_ref of NULL or of a released value", 5: "an owned reference is overwritten (leak)",
             6: "a reference is still owned at Return (leak)", 7: "error check on a never-assigned / dead value",
             8: "two paths reach a block with different ownership of a value",
             9: "jump to a missing block", 10: "no fixpoint within fuel"}


def classify(name: str, code: int) -> tuple[str, str]:
    """Stable key + description of a validator rejection (one key per cause, not per function)."""
    fn = name.split("::")[-1].replace("@final", "")
    if fn.endswith(".close") and code == 3:
        return ("gen-close-null-decref",
                "generator close(): the GeneratorExit lookup result is dec_ref'ed on the path where the lookup "
                "failed and the StopIteration lookup in the handler fails too (dec_ref of NULL -> crash)")
    if code == 11 and fn.endswith("__mypyc_defaults_setup"):
        return ("overridden-class-default-init-store-leaks",
                "a subclass overrides a class-body attribute default: __mypyc_defaults_setup stores the base default and "
                "then the overriding one, both as INITIALIZERS, so the base default value is never released")
    if code == 11:
        return (f"init-store-to-possibly-set-slot:{name.split('::', 1)[-1]}",
                "an initializing attribute store (SetAttr.is_init: the old value is NOT released) reaches a slot that is not "
                "provably unset (not the fresh self of __init__/__mypyc_defaults_setup, or already stored to / escaped)")
    if "__mypyc_generator_helper__" in fn and code == 2:
        return ("spill-borrowed-value-stolen",
                "spill.py stores a BORROWED value that is live across a yield/await (e.g. a bytes/tuple/float "
                "literal, a borrowed final attribute) into the environment with SetAttr, which steals a "
                "reference that was never acquired: over-decrement on every call -> use after free")
    return (f"reject-{code}:{name}", CODE_TEXT.get(code, "?"))


def micro_to_op(raw: list[str], label: int, mi: int) -> str:
    """Map (block label, micro index) back to 'block.opindex' using the compile_op lengths."""
    cur, idx, acc = None, 0, 0
    for ln in raw:
        t = ln.split()
        if t[0] == "B":
            cur, idx, acc = int(t[1]), 0, 0
        elif cur == label and t[0] == "O":
            kind = int(t[1])
            n = int(t[7])
            m = int(t[8 + n])
            ln_ = (n + m + (1 if t[2] != "0" else 0)) if kind in (K_OTHER, K_ASSIGNMULTI, K_KEEPALIVE, K_HEAPREF, K_UNBORROW, K_RAWREAD) else 1
            if kind == K_KEEPALIVE:
                ln_ = n + m
            p_ = 10 + n + m
            if len(t) > p_:
                k1 = int(t[p_])
                ln_ += k1 + int(t[p_ + 1 + k1])
            if acc + ln_ > mi:
                return f"L{label - 1} op#{idx}" + (" (call of an __init__ with initializing stores)" if kind == K_OTHER and t[6] == "1" else "")
            acc += ln_
            idx += 1
    return f"L{label - 1} terminator"


def pretty_of(dumps: list[str], name: str) -> str:
    for d in dumps:
        try:
            t = open(d + ".txt").read()
        except OSError:
            continue
        i = t.find("### " + name + "\n")
        if i >= 0:
            j = t.find("\n### ", i + 4)
            return t[i:j if j > 0 else None][:6000]
    return ""


# --------------------------------------------------------------------------------------------
# dynamic monitor
# --------------------------------------------------------------------------------------------

DYN_MOD = '''import asyncio
from typing import Optional, Iterator, List
from mypy_extensions import i64
class T:
    def __init__(self, n: int) -> None:
        self.n = n
def mk(n: int) -> T:
    if n < 0:
        raise ValueError("neg")
    return T(n)
def f_branch(a: T, n: int) -> T:
    if n > 1:
        a = mk(n)
    return a
def f_loop(a: T, n: int) -> T:
    x = a
    for i in range(n):
        x = mk(i)
    return x
def f_try(a: T, n: int) -> T:
    try:
        x = mk(n - 5)
    except ValueError:
        x = a
    finally:
        n += 1
    return x
def f_raise(a: T, n: int) -> T:
    x = mk(n)
    y = mk(n - 10)
    return y
def f_undef(a: T, n: int) -> T:
    if n > 100:
        z = a
    return z
def f_tuple(a: T, n: int) -> T:
    p, q = (mk(n), a)
    return q
def f_opt(a: T, n: int, o: Optional[T] = None) -> T:
    if o is None:
        o = mk(n)
    return o
def gen(a: T, n: int) -> Iterator[T]:
    for i in range(n):
        t = mk(i)
        yield t
        yield a
class A:
    def __init__(self, flag: bool) -> None:
        if flag:
            self.t = mk(1)
        self.k = 1
class B(A):
    def __init__(self, flag: bool) -> None:
        if flag:
            super().__init__(True)
        self.j = 2
def f_attr_undef(flag: bool) -> T:
    return A(flag).t
def f_attr_undef_base(flag: bool) -> int:
    return B(flag).k
def g_undef(a: T, n: int) -> Iterator[T]:
    if n > 100:
        z = a
    yield a
    yield z
def f_nested_undef(a: T, n: int) -> T:
    if n > 100:
        w = a
    def inner() -> T:
        return w
    return inner()
def f_tryfin_undef(a: T, n: int) -> T:
    try:
        if n > 100:
            q = a
        r = mk(n - 10)
    finally:
        n += 1
    return q
def f_tryfin_undef2(a: T, n: int) -> T:
    try:
        if n > 100:
            q = a
    finally:
        n += 1
    return q
def f_loop_undef(a: T, n: int) -> T:
    for i in range(n):
        e = mk(i)
    return e
async def mk_async(n: int) -> T:
    await asyncio.sleep(0)
    return T(n)
async def build_rows(n: int) -> int:
    out: List[List[T]] = []
    for i in range(n):
        out.append([T(i), await mk_async(i)])
    return len(out)
class Chain:
    def __init__(self, prev: Optional['Chain'], p: T) -> None:
        if prev is not None:
            prev.payload = T(-1)
        self.payload: T = p
def chain(n: int) -> int:
    c = Chain(None, T(0))
    for i in range(n):
        c = Chain(c, T(i))
    return n
class SB:
    def __init__(self) -> None:
        self.t = T(0)
class SD(SB):
    def __init__(self) -> None:
        self.t = T(1)
        super().__init__()
class DA:
    d: T = T(10)
class DB(DA):
    d: T = T(11)
def del_i64(b: bool) -> i64:
    x: i64 = 5
    if b:
        del x
    return x
def del_float(b: bool) -> float:
    y: float = 5.0
    if b:
        del y
    return y
async def hb() -> bytes:
    await asyncio.sleep(0)
    return b"!"
async def lit_across_await() -> bytes:
    return b"C06-bytes-literal-live-across-await" + await hb()
def probe() -> bytes:
    return b"C06-bytes-literal-live-across-await"
'''

DYN_DRIVER = '''import asyncio, gc, sys, builtins, json
import c06dyn as m
import c06dyn_interp as mi
res = {}
UNDEF = ("NameError", "UnboundLocalError", "AttributeError")
def same(name, fc, fi):
    """compiled vs interpreted on an undefined read: both raise (same family), 1000x, no leak, no crash"""
    try:
        fi(); ei = None
    except Exception as e:
        ei = type(e).__name__
    c0 = count()
    for _ in range(1000):
        try:
            fc(); ec = None
        except Exception as e:
            ec = type(e).__name__
        if not (ec == ei or (ec in UNDEF and ei in UNDEF)):
            res[name] = f"compiled raised {ec}, interpreted {ei}"; return
    c1 = count()
    res[name] = "ok" if c0 == c1 else f"instances {c0}->{c1}"
def count():
    gc.collect()
    return sum(1 for o in gc.get_objects() if type(o) is m.T)
a = m.T(1); b = m.T(2)
def run(name, fn, exc=None):
    for _ in range(20):
        try: fn()
        except Exception: pass
    c0, r0 = count(), (sys.getrefcount(a), sys.getrefcount(b))
    raised = 0
    for _ in range(1000):
        try:
            fn()
        except Exception as e:
            raised += 1
            if exc is None or type(e).__name__ != exc:
                res[name] = "unexpected " + type(e).__name__; return
    c1, r1 = count(), (sys.getrefcount(a), sys.getrefcount(b))
    ok = (c0 == c1 and r0 == r1 and (raised == 1000) == (exc is not None))
    res[name] = "ok" if ok else f"instances {c0}->{c1} refcounts {r0}->{r1} raised {raised}"
run("f_branch", lambda: (m.f_branch(a, 0), m.f_branch(a, 5)))
run("f_loop", lambda: (m.f_loop(a, 0), m.f_loop(a, 3)))
run("f_try", lambda: (m.f_try(a, 0), m.f_try(a, 9)))
run("f_raise", lambda: m.f_raise(a, 3), "ValueError")
run("f_undef", lambda: m.f_undef(a, 3), "UnboundLocalError")
run("f_tuple", lambda: m.f_tuple(a, 3))
run("f_opt", lambda: (m.f_opt(a, 3), m.f_opt(a, 3, b)))
run("gen", lambda: list(m.gen(a, 3)))
def closed():
    g = m.gen(a, 3); next(g); g.close()
run("gen_close", closed)
ai = mi.T(1)
same("attr_undef", lambda: m.f_attr_undef(False), lambda: mi.f_attr_undef(False))
same("attr_def", lambda: m.f_attr_undef(True).n, lambda: mi.f_attr_undef(True).n)
same("attr_undef_base", lambda: m.f_attr_undef_base(False), lambda: mi.f_attr_undef_base(False))
same("gen_undef", lambda: list(m.g_undef(a, 3)), lambda: list(mi.g_undef(ai, 3)))
same("nested_undef", lambda: m.f_nested_undef(a, 3), lambda: mi.f_nested_undef(ai, 3))
same("tryfin_undef", lambda: m.f_tryfin_undef(a, 3), lambda: mi.f_tryfin_undef(ai, 3))
same("tryfin_undef2", lambda: m.f_tryfin_undef2(a, 3), lambda: mi.f_tryfin_undef2(ai, 3))
same("tryfin_def", lambda: m.f_tryfin_undef2(a, 300).n, lambda: mi.f_tryfin_undef2(ai, 300).n)
same("loop_undef", lambda: m.f_loop_undef(a, 0), lambda: mi.f_loop_undef(ai, 0))
run("chain", lambda: m.chain(5))
run("rows", lambda: asyncio.run(m.build_rows(4)))
run("super_init_after_store", lambda: m.SD())
run("overridden_default", lambda: m.DB())
same("del_i64", lambda: m.del_i64(True), lambda: mi.del_i64(True))
same("del_float", lambda: m.del_float(True), lambda: mi.del_float(True))
same("del_i64_defined", lambda: m.del_i64(False), lambda: mi.del_i64(False))
print("PHASE1 " + json.dumps(res), flush=True)
async def main():
    r0 = sys.getrefcount(m.probe())
    for _ in range(3):
        await m.lit_across_await()
    r1 = sys.getrefcount(m.probe())
    print("LITREF %d %d" % (r0, r1), flush=True)
    for _ in range(20000):
        assert await m.lit_across_await() == b"C06-bytes-literal-live-across-await!"
    print("LITDONE", flush=True)
asyncio.run(main())
'''

DYN_CLOSE_DRIVER = '''import builtins
import c06dyn as m
g = m.gen(m.T(1), 3); next(g)
s1, s2 = builtins.GeneratorExit, builtins.StopIteration
del builtins.GeneratorExit, builtins.StopIteration
try:
    g.close()
except BaseException as e:
    print("raised", type(e).__name__, flush=True)
builtins.GeneratorExit, builtins.StopIteration = s1, s2
print("ALIVE", flush=True)
'''


def _gcc_lib(name: str) -> str:
    try:
        p = subprocess.run(["gcc", "-print-file-name=" + name], capture_output=True, text=True, timeout=30).stdout.strip()
        return p if os.path.isabs(p) and os.path.exists(p) else ""
    except Exception:
        return ""


def sanitizer_build(tmp: str):
    """Compile the monitor module's generated C with -fsanitize=address,undefined. Returns (dir|None, note)."""
    import vlib
    asan, ubsan = _gcc_lib("libasan.so"), _gcc_lib("libubsan.so")
    if not asan or not ubsan:
        return None, "sanitizer runtime not found (gcc -print-file-name=libasan.so / libubsan.so)"
    d = os.path.join(tmp, "dyn_san")
    os.makedirs(d)
    open(os.path.join(d, "c06dyn.py"), "w").write(DYN_MOD)
    open(os.path.join(d, "c06dyn_interp.py"), "w").write(DYN_MOD)
    open(os.path.join(d, "drive.py"), "w").write(DYN_DRIVER)
    open(os.path.join(d, "drive_close.py"), "w").write(DYN_CLOSE_DRIVER)
    env = vlib.py_env()
    env["PYTHONPATH"] = vlib.REPO
    env["CFLAGS"] = "-fsanitize=address,undefined -fno-omit-frame-pointer -O1"
    env["LDFLAGS"] = "-fsanitize=address,undefined"
    st, out = vlib.sh([vlib.PY, "-m", "mypyc", "c06dyn.py"], cwd=d, env=env, timeout=600)
    if st != 0 or not any(f.endswith(".so") for f in os.listdir(d)):
        return None, "sanitizer build failed: " + out[-300:]
    os.remove(os.path.join(d, "c06dyn.py"))
    return d, asan + ":" + ubsan


def sanitizer_run(ctx, built) -> None:
    """Run the dynamic cases on the sanitizer build: any ASan / UBSan report is a violation."""
    import vlib
    d, note = built
    if d is None:
        ctx.cov["sanitizer"] = "skipped: " + note
        ctx.log("sanitizer monitor skipped:", note)
        return
    env = vlib.py_env()
    env["PYTHONPATH"] = vlib.REPO + os.pathsep + d
    env["LD_PRELOAD"] = note
    env["ASAN_OPTIONS"] = "detect_leaks=0:halt_on_error=1:abort_on_error=0"
    env["UBSAN_OPTIONS"] = "print_stacktrace=1:halt_on_error=0"
    env["PYTHONMALLOC"] = "malloc"           # every object allocation is visible to ASan (use after free, overflow)
    st, out = vlib.sh([vlib.PY, "drive.py"], cwd=d, env=env, timeout=900)
    # (the sanitizer build has no -DNDEBUG: the C asserts of lib-rt / generated code are active as well)
    reports = [l for l in out.splitlines() if "ERROR: AddressSanitizer" in l or "runtime error:" in l or "Assertion `" in l]
    ctx.add("sanitizer_runs", 25 * 1000)
    if reports or "LITDONE" not in out:
        kind = re.sub(r"[^A-Za-z-]+", "-", (reports[0] if reports else f"status-{st}").split("AddressSanitizer:")[-1])[:60].strip("-")
        i = out.find(reports[0]) if reports else max(0, len(out) - 1500)
        ctx.violation("sanitizer-" + kind, "AddressSanitizer/UBSan report while running the compiled monitor module: "
                      + (reports[0] if reports else f"process status {st}")[:300],
                      {"module": DYN_MOD, "driver": DYN_DRIVER, "report": out[i:i + 4000],
                       "how": "CFLAGS='-fsanitize=address,undefined -fno-omit-frame-pointer -O1' LDFLAGS='-fsanitize=address,undefined' "
                              "python -m mypyc c06dyn.py; LD_PRELOAD=libasan.so:libubsan.so PYTHONMALLOC=malloc python drive.py"})
    # positive control: the known NULL dec_ref in close() must show up as an ASan SEGV report
    st2, out2 = vlib.sh([vlib.PY, "drive_close.py"], cwd=d, env=env, timeout=120)
    ctrl = "ERROR: AddressSanitizer" in out2 or "Assertion `" in out2
    ctx.cov["sanitizer"] = {"runtime": note, "reports": len(reports),
                            "positive_control_gen_close_detected": ctrl}
    if ctrl:
        ctx.violation("gen-close-null-decref", "sanitizer/assert build: generator close() trips on the known NULL dec_ref",
                      {"report": out2[-2000:]})


def dynamic_monitor(ctx, tmp: str) -> None:
    import vlib
    d = os.path.join(tmp, "dyn")
    os.makedirs(d)
    open(os.path.join(d, "c06dyn.py"), "w").write(DYN_MOD)
    open(os.path.join(d, "c06dyn_interp.py"), "w").write(DYN_MOD)
    open(os.path.join(d, "drive.py"), "w").write(DYN_DRIVER)
    open(os.path.join(d, "drive_close.py"), "w").write(DYN_CLOSE_DRIVER)
    env = vlib.py_env()
    env["PYTHONPATH"] = vlib.REPO
    # second build of the same generated C under AddressSanitizer + UBSan (gcc runtime, LD_PRELOAD), in parallel
    from concurrent.futures import ThreadPoolExecutor
    san_pool = ThreadPoolExecutor(max_workers=1)
    san_future = san_pool.submit(sanitizer_build, tmp) if os.environ.get("VERIF_C06_SANITIZER", "1") == "1" else None
    st, out = vlib.sh([vlib.PY, "-m", "mypyc", "c06dyn.py"], cwd=d, env=env, timeout=600)
    if st != 0 or not any(f.endswith(".so") for f in os.listdir(d)):
        ctx.broke("S", "dynamic monitor", "mypyc compilation of the monitor module failed:\n" + out[-1500:])
        return
    os.remove(os.path.join(d, "c06dyn.py"))
    env["PYTHONPATH"] = vlib.REPO + os.pathsep + d
    st, out = vlib.sh([vlib.PY, "drive.py"], cwd=d, env=env, timeout=300)
    ctx.add("dynamic_runs", 25 * 1000)
    m = re.search(r"PHASE1 (\{.*\})", out)
    if not m:
        ctx.violation("dyn-phase1-crash", f"compiled monitor functions crashed (status {st})", {"module": DYN_MOD, "driver": DYN_DRIVER, "output": out[-1500:]})
    else:
        res = json.loads(m.group(1))
        ctx.cov["dynamic_phase1"] = res
        special = {"super_init_after_store": "super-init-after-store-leaks",
                   "overridden_default": "overridden-class-default-init-store-leaks",
                   "del_i64": "del-of-bitmap-tracked-local-reads-error-sentinel",
                   "del_float": "del-of-bitmap-tracked-local-reads-error-sentinel"}
        for k, v in res.items():
            if v != "ok":
                ctx.violation(special.get(k, f"dyn-{k}"), f"compiled function {k}: reference counts / instance counts not stable or wrong exception: {v}",
                              {"module": DYN_MOD, "driver": DYN_DRIVER, "function": k, "result": v})
    if "LITDONE" not in out:
        lr = re.search(r"LITREF (\d+) (\d+)", out)
        ctx.violation("spill-borrowed-value-stolen",
                      "a bytes literal that is live across an await is freed while still referenced by the module: "
                      f"refcount before/after 3 calls = {lr.groups() if lr else '?'}; process status {st} "
                      "(139 = SIGSEGV) when the coroutine is called repeatedly",
                      {"module": DYN_MOD, "driver": DYN_DRIVER, "status": st, "output": out[-800:],
                       "how": "python -m mypyc c06dyn.py && python drive.py"})
    if san_future is not None:
        sanitizer_run(ctx, san_future.result())
    san_pool.shutdown(wait=False)
    st, out = vlib.sh([vlib.PY, "drive_close.py"], cwd=d, env=env, timeout=120)
    if "ALIVE" not in out:
        ctx.violation("gen-close-null-decref",
                      f"compiled generator .close() kills the interpreter (status {st}) when builtins.GeneratorExit and "
                      "builtins.StopIteration are deleted; CPython's own generators close normally",
                      {"module": DYN_MOD, "driver": DYN_CLOSE_DRIVER, "status": st, "output": out[-500:]})


# --------------------------------------------------------------------------------------------
# the check
# --------------------------------------------------------------------------------------------

def run_validator(exe: str, dumps: list[str]) -> dict[str, list[str]]:
    verdicts: dict[str, list[str]] = {}
    for d in dumps:
        with open(d) as f:
            p = subprocess.run([exe], stdin=f, capture_output=True, text=True, timeout=1500)
        for ln in p.stdout.splitlines():
            t = ln.split()
            verdicts[t[0]] = t[1:]
    return verdicts


def run(ctx) -> None:
    import vlib
    ctx.cov["rule"] = ("one evaluation = one FuncIR emitted by the real mypyc pipeline (snapshot after insert_ref_count_opcodes; "
                       "after insert_spills for generator bodies; and again the FINAL IR after lower -> copy propagation -> flag "
                       "elimination, names ending in @final) judged by the Coq-extracted validator; non-trivial = the "
                       "function contains at least one inc_ref/dec_ref or error branch")
    ctx.assumptions += [
        "op contracts are the declarations of the real op objects (stolen(), is_borrowed, error_kind, type.is_refcounted); "
        "the C code of each primitive is trusted to implement them (monitored dynamically on a small module)",
        "token semantics: ownership is counted per IR value name; aliasing through the heap is not modelled; the lifetime of "
        "borrowed references relative to their owner (KeepAlive) is not checked",
        "trusted idioms, counted in coverage.idioms: KeepAlive(steal)/Unborrow pairing (re-inserted from the pre-pass IR), "
        "irbuild-emitted DecRef of a memory slot's old value (vec set item), address-taken registers (out-parameters of the "
        "generator protocol) treated as external storage, unnamed temporaries initialised to the error value read under an "
        "explicit assume (uninit.py skips them), spill-slot reads assumed non-null, bitmap-guarded (error-overlap) "
        "registers excluded from the definedness check",
        "later passes (lower, copy propagation, flag elimination) and codegen are outside this check (C05 / dynamic monitor)",
        "extraction (ExtrOcamlBasic), the OCaml driver and the Python dumper/parser are trusted; an independent Python "
        "re-implementation of the checker is compared with the extracted one on every function",
    ]
    # P + A
    ctx.prove("C06/Properties.v", ["C06"])
    exe = vlib.build_extracted("c06", "C06/Extract.v", "tools/ocaml/c06_driver.ml")
    if exe is None:
        ctx.broke("C", "extraction", "building the extracted validator failed")
        return
    repo = vlib.REPO
    tmp = tempfile.mkdtemp(prefix="c06_")
    try:
        # ---- C: regenerate IR from the repository
        rng = vlib.Rng(ctx.seed, "select")
        cases = list_cases(repo)
        if ctx.quick:
            keep = [c for c in cases if os.path.basename(c["file"]) in ("refcount.test", "exceptions.test", "alwaysdefined.test")]
            rest = [c for c in cases if c not in keep]
            rng.shuffle(rest)
            cases = keep + rest[:70]
        g = vlib.Rng(ctx.seed, "gen")
        gen_cases = [{"kind": "gen", "name": f"generated{i}", "text": gen_program(g, ctx.n(8, 12))}
                     for i in range(ctx.n(4, 60))]
        cases = [{"kind": "gen", "name": "shapes", "text": shapes_program()}] + gen_cases[:4] + cases + gen_cases[4:]
        t0 = time.time()
        dumps, status, failures, counters = run_dump(repo, cases, tmp, int(os.environ.get("VERIF_C06_PROCS", "8")), pretty=True,
                                                     timeout=170 if ctx.quick else 1700, chunk=6 if ctx.quick else 12,
                                                     soft_deadline=time.time() + (80 if ctx.quick else 1500))
        ctx.log(f"dumped {sum(s['funcs'] for s in status)} functions of {len(status)} programs in {time.time() - t0:.0f}s; idioms {counters}")
        for out, err in failures:
            if ctx.quick and "[timeout]" in err:
                counters["chunks_skipped_for_time"] += 1     # machine too loaded: smaller sample, no alarm
                continue
            ctx.broke("C", "dumper", f"child failed for {out}: {err[-800:]}")
        gen_err = [s for s in status if s["err"] and s["file"] == "" and s["err"] != "skipped"]
        # a generated program that mypy/mypyc itself rejects (e.g. "used before definition") is not an input of
        # this property: it is dropped and counted; only "none of them compiles" is a broken generator
        n_gen = sum(1 for s in status if s["file"] == "")
        ctx.cov["generated_programs"] = n_gen
        ctx.cov["generated_rejected_by_mypy"] = len(gen_err)
        for s in gen_err[:2]:
            ctx.log(f"generated program dropped: {s['item']}: {s['err'][:200]}")
        if n_gen and len(gen_err) == n_gen:
            ctx.broke("C", "generator", "no generated program compiles: " + gen_err[0]["err"][:500])
        ctx.cov["programs"] = len(status)
        ctx.cov["programs_not_compiled"] = sum(1 for s in status if s["err"])
        ctx.cov["idioms"] = counters
        # ---- validator
        t0 = time.time()
        verdicts = run_validator(exe, dumps)
        ctx.log(f"validator: {len(verdicts)} verdicts in {time.time() - t0:.1f}s")
        n = nontriv = diffs = 0
        rejected: dict[str, list[Any]] = {}
        ncls = 0
        for cname, v in sorted(verdicts.items()):
            if "::class::" not in cname:
                continue
            ncls += 1
            if v[0] != "A":
                text = ""
                for d in dumps:
                    t = open(d).read()
                    i = t.find("I " + cname + "\n")
                    if i >= 0:
                        text = t[i:t.find("\ne\n", i) + 3]
                        break
                ctx.violation("attrdefined:" + cname.split("::", 1)[1],
                              "attrdefined.py claims attributes always defined that __init__ does not assign on every path "
                              "before self can be observed (read / leak / return): " + cname,
                              {"class": cname, "abstract_init": text[:6000],
                               "legend": "Y claimed, D defaults, b block, s set, r read, l leak, n base-init(leaks,attrs), g/c/t/u goto/branch/return/unreachable"})
        ctx.cov["classes_with_claims_checked"] = ncls
        for d in dumps:
            for name, args, blocks, raw in parse_dump(d):
                n += 1
                if any(l.startswith(("O 4 ", "O 5 ", "C 1 ")) for l in raw):
                    nontriv += 1
                v = verdicts.get(name)
                if v is None or v[0] not in ("A", "R"):
                    ctx.broke("C", "validator output", f"no verdict for {name}: {v}")
                    continue
                pr = py_check(args, blocks)
                if (pr == "") != (v[0] == "A"):
                    diffs += 1
                    ctx.broke("C", "extracted validator vs Python re-implementation", f"{name}: coq={v} python={pr!r}")
                if v[0] == "R":
                    lbl, mi, code, val = (int(x) for x in v[1:5])
                    key, what = classify(name, code)
                    rejected.setdefault(key, []).append((name, lbl, mi, code, val, what, raw))
                elif n % 400 == 1:
                    ctx.sample({"function": name, "verdict": "accepted", "blocks": len(blocks)})
        ctx.add("evaluations", n)
        ctx.cov["final_ir_functions"] = sum(1 for k in verdicts if k.endswith("@final"))
        ctx.cov["distinct_nontrivial"] = nontriv
        ctx.add("traces_validated_against_impl", n)
        ctx.cov["rejected_functions"] = sum(len(v) for v in rejected.values())
        ctx.cov["checker_vs_python_diffs"] = diffs
        if n < (150 if ctx.quick else 5000):
            ctx.broke("C", "coverage", f"only {n} functions were dumped")
        for key, lst in sorted(rejected.items()):
            name, lbl, mi, code, val, what, raw = lst[0]
            if code == 11 and "call of an __init__" in micro_to_op(raw, lbl, mi):
                key = "super-init-after-store-leaks"
                what = ("Derived.__init__ stores an attribute and then calls Base.__init__(self), whose store to the same "
                        "attribute is an INITIALIZER (is_init: old value not released): the derived value leaks on every "
                        "construction")
            ctx.violation(key, f"{what} [{len(lst)} function(s), e.g. {name} at {micro_to_op(raw, lbl, mi)}, value v{val}, code {code}]",
                          {"function": name, "count": len(lst), "others": [x[0] for x in lst[1:20]],
                           "at": micro_to_op(raw, lbl, mi), "code": code, "code_text": CODE_TEXT.get(code),
                           "value": val, "ir": pretty_of(dumps, name), "abstract_ir": "".join(raw)[:8000]})
        # ---- S: dynamic monitor
        if os.environ.get("VERIF_C06_DYNAMIC", "1") == "1":
            t0 = time.time()
            dynamic_monitor(ctx, tmp)
            ctx.log(f"dynamic monitor {time.time() - t0:.0f}s")
    finally:
        shutil.rmtree(tmp, ignore_errors=True)


def replay(ctx, path: str) -> None:
    """Re-judge the abstract IR stored in a replay file with the extracted validator."""
    import vlib
    data = json.load(open(path))["replay"]
    exe = vlib.build_extracted("c06", "C06/Extract.v", "tools/ocaml/c06_driver.ml")
    if "abstract_ir" in data and exe:
        p = subprocess.run([exe], input=data["abstract_ir"], capture_output=True, text=True)
        ctx.log("validator on the stored IR:", p.stdout.strip())
        if " R " in p.stdout:
            ctx.violation(json.load(open(path))["key"], "replayed: validator still rejects", data)
    elif "driver" in data:
        tmp = tempfile.mkdtemp(prefix="c06r_")
        try:
            dynamic_monitor(ctx, tmp)
        finally:
            shutil.rmtree(tmp, ignore_errors=True)
